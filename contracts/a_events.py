"""Field sorts of the event dataclasses (hypercorn/events.py, hypercorn/protocol/events.py).
The classes themselves are read from the real modules; this only says which sort each field gets
when an event is an *input* of a unit."""
from pyvc.contracts import cls

E = "hypercorn.events:"
cls(E + "RawData", fields={"data": "bytes", "address": "opaque"})
cls(E + "Closed", fields={})
cls(E + "Updated", fields={"idle": "bool"})

P = "hypercorn.protocol.events:"
cls(P + "Request", fields={"stream_id": "int", "headers": "hdrs", "http_version": "str", "method": "str", "raw_path": "bstr", "state": "opaque"})
cls(P + "Body", fields={"stream_id": "int", "data": "bytes"})
cls(P + "EndBody", fields={"stream_id": "int"})
cls(P + "Trailers", fields={"stream_id": "int", "headers": "hdrs"})
cls(P + "Data", fields={"stream_id": "int", "data": "bytes"})
cls(P + "EndData", fields={"stream_id": "int"})
cls(P + "Response", fields={"stream_id": "int", "headers": "hdrs", "status_code": "int"})
cls(P + "InformationalResponse", fields={"stream_id": "int", "headers": "hdrs", "status_code": "int"})
cls(P + "StreamClosed", fields={"stream_id": "int"})

STREAM_EVENTS = " | ".join("obj " + P + n for n in ("Request", "Body", "EndBody", "Trailers", "Data", "EndData", "Response", "InformationalResponse", "StreamClosed"))
IO_EVENTS = " | ".join("obj " + E + n for n in ("RawData", "Closed", "Updated"))

W = "wsproto.events:"
cls(W + "TextMessage", fields={"data": "text", "frame_finished": "bool", "message_finished": "bool"})
cls(W + "BytesMessage", fields={"data": "bytes", "frame_finished": "bool", "message_finished": "bool"})
