"""Interface contracts of the runtime abstractions in hypercorn/typing.py (Event, ...).

The asyncio and trio implementations are verified against these same clauses (C16); shared
protocol code is verified only against the interface.
"""
from pyvc.contracts import cls, fn

# hypercorn.typing.Event: a flag with wait().  `flag` is the abstract view.
# g_sticky: an event that is never cleared (context.terminate / terminated)
cls("hypercorn.typing:Event", fields={"flag": "bool"}, ghost={"g_sticky": "bool"}, interface=True,
    rely=[("Event.rely.sticky", "implies(old(self.g_sticky), self.g_sticky and implies(old(self.flag), self.flag))", "C07,C15")])
fn("hypercorn.typing:Event.set", params={}, modifies=["self.flag"], ensures=[("Event.set.post", "self.flag")],
   effect="atomic", assume_only=True, trusted_reason="interface; refined by both EventWrapper classes (C16)")
fn("hypercorn.typing:Event.clear", params={}, modifies=["self.flag"], requires=[("Event.clear.pre.not-sticky", "not self.g_sticky")], ensures=[("Event.clear.post", "not self.flag")],
   effect="atomic", assume_only=True, trusted_reason="interface; refined by both EventWrapper classes (C16)")
fn("hypercorn.typing:Event.is_set", params={}, modifies=[], returns="bool", ensures=[("Event.is_set.post", "result == self.flag")],
   effect="atomic", assume_only=True, trusted_reason="interface; refined by both EventWrapper classes (C16)")
# wait() returns only after the flag has been set at some point during the wait; by the time the
# waiter runs again the flag may have been cleared again, so nothing is promised about it.
fn("hypercorn.typing:Event.wait", params={}, modifies=[], effect="yields", assume_only=True,
   ensures=[("Event.wait.sticky", "implies(self.g_sticky, self.flag)")],
   trusted_reason="interface; refined by both EventWrapper classes (C16)")
