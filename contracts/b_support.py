"""Collaborators seen through their interface: Config (read-only record + response_headers),
Logger, WorkerContext, TaskGroup.  Contracts marked assume_only are *assumed* at call sites; the
ones that have a body in /repo are additionally verified as units of their own (see props/plan)."""
from pyvc.contracts import Callback, cls, fn

# ---------------------------------------------------------------------------------- Logger
cls("hypercorn.logging:Logger", fields={}, interface=True)
for _m in ("exception", "info", "warning", "error", "debug", "critical"):
    fn(f"hypercorn.logging:Logger.{_m}", params={"message": "str"}, modifies=[], effect="atomic", assume_only=True,
       trusted_reason="logging calls are effect-free for the properties (they contain no suspending await)",
       ghost_post=["caller_count('g_errors')"] if _m == "exception" else [])
fn("hypercorn.logging:Logger.access", params={"request": "opaque", "response": "opaque", "request_time": "real"},
   modifies=[], effect="atomic", assume_only=True,
   trusted_reason="Logger.access contains no suspending await; its formatting is out of scope",
   ghost_post=["caller_count('g_access')"])

# ---------------------------------------------------------------------------------- Config
cls(
    "hypercorn.config:Config",
    fields={
        "log": "obj hypercorn.logging:Logger",
        "keep_alive_max_requests": "int",
        "keep_alive_timeout": "real",
        "h2_max_concurrent_streams": "int",
        "h2_max_header_list_size": "int",
        "h2_max_inbound_frame_size": "int",
        "h11_max_incomplete_size": "int",
        "h11_pass_raw_headers": "bool",
        "root_path": "str",
        "server_names": "strs",
        "alpn_protocols": "strs",
        "websocket_max_message_size": "int",
        "websocket_ping_interval": "opt real",
        "max_app_queue_size": "int",
        "read_timeout": "opt int",
        "include_date_header": "bool",
        "include_server_header": "bool",
        "alt_svc_headers": "strs",
        "_quic_addresses": "const ()",
        "wsgi_max_body_size": "int",
        "_bind": "strs", "_insecure_bind": "strs", "_quic_bind": "strs", "_root_path": "str",
        "ssl_handshake_timeout": "real", "startup_timeout": "real", "shutdown_timeout": "real", "graceful_timeout": "real",
        "max_requests": "opt int", "max_requests_jitter": "int", "backlog": "int", "workers": "int", "certfile": "opt str", "keyfile": "opt str",
    },
    immutable=["log", "keep_alive_max_requests", "keep_alive_timeout", "h2_max_concurrent_streams", "h2_max_header_list_size",
               "h2_max_inbound_frame_size", "h11_max_incomplete_size", "h11_pass_raw_headers", "root_path", "server_names", "alpn_protocols",
               "websocket_max_message_size", "websocket_ping_interval", "max_app_queue_size", "read_timeout",
               "include_date_header", "include_server_header", "alt_svc_headers", "_quic_addresses", "wsgi_max_body_size",
               "_bind", "_insecure_bind", "_quic_bind", "_root_path", "ssl_handshake_timeout", "startup_timeout", "shutdown_timeout", "graceful_timeout",
               "max_requests", "max_requests_jitter", "backlog", "workers", "certfile", "keyfile"],
)

# ---------------------------------------------------------------------------------- WorkerContext
cls(
    "hypercorn.typing:WorkerContext",
    fields={"terminate": "Event", "terminated": "Event", "event_class": "evclass"},
    interface=True,
    immutable=["terminate", "terminated", "event_class"],
    # shutdown, once begun, is never undone
    inv=[("WorkerContext.inv.sticky", "self.terminated.g_sticky and self.terminate.g_sticky", "C07,C15")],
    rely=[("WorkerContext.rely.terminated-monotone", "implies(old(self.terminated.flag), self.terminated.flag)", "C15")],
)
fn("hypercorn.typing:WorkerContext.mark_request", params={}, modifies=[], effect="atomic", assume_only=True,
   trusted_reason="interface; refined by both WorkerContext.mark_request (C16/C18): Event.set does not suspend")
fn("hypercorn.typing:WorkerContext.sleep", params={"wait": "real"}, modifies=[], effect="yields", assume_only=True,
   trusted_reason="runtime sleep")

# ---------------------------------------------------------------------------------- TaskGroup
cls("hypercorn.typing:TaskGroup", fields={}, interface=True)
fn("hypercorn.typing:TaskGroup.spawn", params={"func": "opaque"}, modifies=[], effect="atomic", assume_only=True,
   trusted_reason="interface; start_soon/create_task do not suspend")
fn("hypercorn.typing:TaskGroup.spawn_app", params={"app": "opaque", "config": "opaque", "scope": "opaque", "send": "opaque"},
   modifies=[], returns="opaque", effect="atomic", assume_only=True,
   trusted_reason="interface; refined by both TaskGroup.spawn_app (C16): creates the queue and schedules _handle without suspending",
   ghost_post=["caller_set('g_app_started', True)", "caller_count('g_spawned')"])

