"""HTTPStream (hypercorn/protocol/http_stream.py): C01 scope/body, C02 response automaton,
C03 exactly-once disconnect/access, C05 failure containment, C12 rejection table."""
from pyvc.contracts import Callback, cls, fn

HS = "hypercorn.protocol.http_stream:HTTPStream"
SCOPE = ("dict{type:str;http_version:str;method:str;scheme:str;path:str;raw_path:bstr;query_string:bstr;"
         "root_path:str;headers:hdrs;client:opaque;server:opaque;state:opaque;extensions:opaque}")

cls(
    HS,
    fields={
        "app": "opaque", "client": "opaque", "closed": "bool", "config": "obj hypercorn.config:Config",
        "context": "obj hypercorn.typing:WorkerContext", "response": "maybe msg(headers:short)", "scope": "maybe " + SCOPE,
        "send": "opaque", "scheme": "str", "server": "opaque", "start_time": "maybe real",
        "state": "enum hypercorn.protocol.http_stream:ASGIHTTPState", "stream_id": "int",
        "task_group": "obj hypercorn.typing:TaskGroup", "app_put": "none",
    },
    ghost={
        "g_app_started": "bool",  # spawn_app has been called (scope and app_put are set)
        "g_access": "nat",  # access-log records written for this request
        "g_disc": "nat",  # http.disconnect messages put
        "g_n_end": "nat",  # EndBody events sent
        "g_n_final": "nat",  # final (>= 200) Response events sent
        "g_n_closed": "nat",  # StreamClosed events sent
        "g_spawned": "nat",  # application instances started
    },
    callbacks={
        # events handed to the protocol; the requires are the response automaton of C02/C12
        "send": Callback(
            name="send", effect="yields", record="sent",
            requires=[
                ("C02.order.final-once", "implies(isinstance(e, Response), self.g_n_final == 0 and self.g_n_end == 0)", "C02,C12"),
                ("C02.order.body-after-head", "implies(isinstance(e, Body), self.g_n_final == 1 and self.g_n_end == 0)", "C02,C12"),
                ("C02.order.end-once", "implies(isinstance(e, EndBody), self.g_n_end == 0 and self.g_n_final == 1)", "C02,C05"),
                ("C02.order.trailers", "implies(isinstance(e, Trailers), self.g_n_final == 1 and self.g_n_end == 0)", "C02"),
                # C12 "CR, LF or NUL in application-supplied header names or values never reaches the
                # wire on any protocol": every response head, informational response and trailer block
                # a stream hands to the protocol is clean (a pushed request also carries the client's own
                # scheme and authority; its application part goes through build_and_validate_headers)
                ("C12.wire.no-ctl", "implies(isinstance(e, (Response, InformationalResponse, Trailers)), no_ctl_chars(e.headers))", "C12"),
            ],
            ghost=[
                "self.g_n_final = self.g_n_final + (1 if isinstance(e, Response) else 0)",
                "self.g_n_end = self.g_n_end + (1 if isinstance(e, EndBody) else 0)",
                "self.g_n_closed = self.g_n_closed + (1 if isinstance(e, StreamClosed) else 0)",
            ],
        ),
        # messages delivered to the application (queue put: may block, i.e. yields)
        "app_put": Callback(
            name="app_put", effect="yields", record="puts", present="self.g_app_started",
            requires=[("C03.http.nothing-after-disconnect", "self.g_disc == 0", "C03")],
            ghost=["self.g_disc = self.g_disc + (1 if e['type'] == 'http.disconnect' else 0)"],
        ),
    },
    inv=[
        ("HTTPStream.inv.disc", "self.g_disc == (1 if (self.closed and self.g_app_started) else 0)", "C03"),
        ("HTTPStream.inv.started", "implies(self.g_app_started, has(self, 'scope') and has(self, 'start_time'))", "C04"),
        # exactly one access record, written when the response completes or the stream closes
        # (two clauses, so that finding F3c -- a *second* record -- is recorded against the upper bound
        # only and a record that goes missing is still reported)
        ("HTTPStream.inv.access.written", "(self.g_access >= 1) == (self.state == ASGIHTTPState.CLOSED or self.closed)", "C03"),
        ("HTTPStream.inv.access", "self.g_access <= 1", "C03"),
        ("HTTPStream.inv.spawn-once", "self.g_spawned == (1 if self.g_app_started else 0)", "C01"),
        ("HTTPStream.inv.response", "implies(self.state in (ASGIHTTPState.RESPONSE, ASGIHTTPState.TRAILERS), has(self, 'response') and self.g_app_started)", "C12"),
    ],
    rely=[
        ("HTTPStream.rely.closed-monotone", "implies(old(self.closed), self.closed)", "C03"),
        ("HTTPStream.rely.started-monotone", "implies(old(self.g_app_started), self.g_app_started)", "C03"),
        ("HTTPStream.rely.scope-stays", "implies(has(old(self), 'scope'), has(self, 'scope')) and implies(has(old(self), 'start_time'), has(self, 'start_time'))", "C04"),
        ("HTTPStream.rely.counters-grow", "self.g_disc >= old(self.g_disc) and self.g_access >= old(self.g_access) and self.g_n_end >= old(self.g_n_end) and self.g_n_final >= old(self.g_n_final)", "C03"),
    ],
    task_rely={
        # until the application has been started only the reader touches the stream (handle is
        # assumed not to be re-entered; the re-entrant close during the 404 path is finding F4i)
        "reader": [("HTTPStream.rely[reader].not-started", "implies(not old(self.g_app_started), not self.g_app_started and self.state == old(self.state) and self.closed == old(self.closed) "
                    "and self.g_n_end == old(self.g_n_end) and self.g_n_final == old(self.g_n_final) and self.g_access == old(self.g_access) and self.g_disc == old(self.g_disc) and self.g_spawned == old(self.g_spawned))", "C03")],
        # while the application task is suspended nobody else advances the response automaton
        "app": [("HTTPStream.rely[app].automaton", "implies(old(self.g_app_started), self.state == old(self.state) and self.g_n_end == old(self.g_n_end) and self.g_n_final == old(self.g_n_final) and iff(has(self, 'response'), has(old(self), 'response')) "
                 "and implies(has(old(self), 'response'), value_of(self, 'response') is value_of(old(self), 'response')) "
                 "and value_of(self, 'scope') == value_of(old(self), 'scope'))", "C02")],
    },
    # once the application runs, only its own task assigns response (scope/start_time are not
    # assigned again at all); the clause above is what the other task proves about it
    task_stable={"app": ["response", "scope", "start_time"]},
    # a stream that a protocol holds has been given its Request
    published_inv=[("HTTPStream.published.requested", "has(self, 'scope') and has(self, 'start_time')", "C04")],
    task_inv={
        # quiescent for the reader (handle() is not in progress): a stream that has been given its
        # Request has either started its application or is closed (404 / refused) -- later body
        # events are delivered to a started application or dropped
        "reader": [("HTTPStream.qinv.started-or-closed", "implies(has(self, 'scope'), self.closed or self.g_app_started)", "C01,C04")],
        # quiescent (no app_send in flight; app_send is assumed not to be re-entered): state
        # determines what has been emitted
        "app": [
            ("HTTPStream.qinv.request", "implies(self.state == ASGIHTTPState.REQUEST, self.g_n_final == 0 and self.g_n_end == 0)", "C02,C12,C05"),
            # C05 rests on this pair: "no response had been started" is decided from self.state when
            # the application exits, so state and the emitted events must agree on *every* exit of
            # app_send, the exceptional ones included (seeded/C05-state-before-validation)
            ("HTTPStream.qinv.response", "implies(self.state in (ASGIHTTPState.RESPONSE, ASGIHTTPState.TRAILERS), self.g_n_final == 1 and self.g_n_end == 0)", "C02,C12,C05"),
            ("HTTPStream.qinv.closed", "implies(self.state == ASGIHTTPState.CLOSED, self.g_n_end == 1)", "C02,C05"),
        ],
    },
)

# used by the protocols (callers see only this) and verified against the body
fn(HS + ".handle", params={"event": "obj hypercorn.protocol.events:Request | obj hypercorn.protocol.events:Body | obj hypercorn.protocol.events:EndBody | obj hypercorn.protocol.events:StreamClosed | obj hypercorn.protocol.events:Data"},
   effect="yields", task="reader",
   modifies=["self.closed", "self.state", "self.scope", "self.start_time", "self.app_put", "self.g_app_started", "self.g_spawned", "self.g_access", "self.g_disc", "self.g_n_end", "self.g_n_final", "self.g_n_closed"],
   requires=[
       # the protocols hand a stream its Request first, and exactly once, right after creating it
       ("handle.pre.request-first", "iff(isinstance(event, Request), not has(self, 'scope')) and implies(not isinstance(event, Request), has(self, 'start_time'))"),
       ("handle.pre.fresh", "implies(isinstance(event, Request), not self.closed and not self.g_app_started and self.state == ASGIHTTPState.REQUEST "
        "and self.g_n_final == 0 and self.g_n_end == 0 and self.g_disc == 0 and self.g_access == 0 and self.g_spawned == 0)"),
   ],
   ensures=[
       ("handle.closed-monotone", "implies(old(self.closed), self.closed)", "C03"),
       ("handle.closes", "implies(isinstance(event, StreamClosed), self.closed)", "C03,C07"),
       ("handle.scope-set", "implies(isinstance(event, Request), has(self, 'scope') and has(self, 'start_time'))", "C04"),
       ("handle.scope-stays", "implies(has(old(self), 'scope'), has(self, 'scope')) and implies(has(old(self), 'start_time'), has(self, 'start_time'))", "C04"),
       # C01: the scope reports the request exactly (field by field)
       ("C01.scope.fields", "implies(isinstance(event, Request) and self.g_app_started and not old(self.g_app_started), "
        "value_of(self, 'scope')['type'] == 'http' and value_of(self, 'scope')['method'] == event.method "
        "and value_of(self, 'scope')['http_version'] == event.http_version and value_of(self, 'scope')['scheme'] == self.scheme "
        "and value_of(self, 'scope')['raw_path'] == event.raw_path.partition(b'?')[0] "
        "and value_of(self, 'scope')['query_string'] == event.raw_path.partition(b'?')[2] "
        "and value_of(self, 'scope')['path'] == unquote(event.raw_path.partition(b'?')[0].decode('ascii')) "
        "and value_of(self, 'scope')['headers'] == event.headers and value_of(self, 'scope')['root_path'] == self.config.root_path "
        "and same(value_of(self, 'scope')['client'], self.client) and same(value_of(self, 'scope')['server'], self.server) "
        "and same(value_of(self, 'scope')['state'], event.state))", "C01"),
       ("C01.one-app", "implies(isinstance(event, Request), self.g_spawned - old(self.g_spawned) == (1 if self.g_app_started else 0)) and implies(not isinstance(event, Request), self.g_spawned == old(self.g_spawned))", "C01"),
       # C01: body chunks are forwarded one to one, byte for byte
       ("C01.body", "implies(isinstance(event, Body) and not old(self.closed), nogap('puts') and n_emitted('puts') == 1 and emitted('puts')[0]['type'] == 'http.request' "
        "and emitted('puts')[0]['body'] == event.data and emitted('puts')[0]['more_body'] == True)", "C01"),
       ("C01.end-body", "implies(isinstance(event, EndBody) and not old(self.closed), n_emitted('puts') == 1 and emitted('puts')[0]['type'] == 'http.request' "
        "and emitted('puts')[0]['body'] == b'' and emitted('puts')[0]['more_body'] == False)", "C01"),
       ("C03.closed-delivers-nothing", "implies(old(self.closed), n_emitted('puts') == 0 and n_emitted('sent') == 0)", "C03"),
       ("C03.access.logged-at-close", "implies(isinstance(event, StreamClosed), self.g_access >= 1)", "C03"),
       # C07: after a server generated error response the stream tells the protocol it is done, so
       # that the connection is recycled / closed / reported idle
       ("C07.err-idle.http", "implies(isinstance(event, Request) and not self.g_app_started, trace_any('sent', 'x', isinstance(x, StreamClosed)))", "C07"),
   ],
   props=("C04", "C03", "C01", "C07"))
fn(HS + ".idle", params={}, returns="bool", modifies=[], effect="atomic", ensures=[("HTTPStream.idle.false", "result == False", "C07")], props=("C07",))

import importlib.util as _u, os as _o
_s = _u.spec_from_file_location("a_events", _o.path.join(_o.path.dirname(__file__), "a_events.py"))
_ev = _u.module_from_spec(_s); _s.loader.exec_module(_ev)
PE = "hypercorn.protocol.events:"

REQ_FIRST = [("handle.pre.request-first", "iff(isinstance(event, Request), not has(self, 'scope')) and implies(not isinstance(event, Request), has(self, 'start_time'))")]

R, P_, T_, C_ = ("ASGIHTTPState.REQUEST", "ASGIHTTPState.RESPONSE", "ASGIHTTPState.TRAILERS", "ASGIHTTPState.CLOSED")

fn(HS + ".app_send", params={"message": "none | msg(headers:short;links:short)"}, task="app", exceptional="app",
   requires=[("app_send.pre.started", "self.g_app_started")],
   ensures=[
       # ---- C05 / C03: the application has finished (message is None)
       ("C05.http.none.500", "implies(message is None and not old(self.closed) and old(self.state) == ASGIHTTPState.REQUEST, "
        "n_emitted('sent') == 3 and isinstance(emitted('sent')[0], Response) and emitted('sent')[0].status_code == 500 "
        "and isinstance(emitted('sent')[1], EndBody) and isinstance(emitted('sent')[2], StreamClosed))", "C05,C07"),
       ("C05.http.none.incomplete", "implies(message is None and not old(self.closed) and old(self.state) in (ASGIHTTPState.RESPONSE, ASGIHTTPState.TRAILERS), "
        "n_emitted('sent') == 1 and isinstance(emitted('sent')[0], StreamClosed))", "C05,C07,C06"),
       ("C03.noop.none-after-close", "implies(message is None and old(self.closed), n_emitted('sent') == 0 and n_emitted('puts') == 0)", "C03"),
       # ---- C12: a call that returns normally was valid for the state it was made in
       ("C12.table.start", "implies(message is not None and message['type'] == 'http.response.start', old(self.state) == ASGIHTTPState.REQUEST)", "C12"),
       ("C12.table.body", "implies(message is not None and message['type'] == 'http.response.body', old(self.state) == ASGIHTTPState.RESPONSE)", "C12"),
       ("C12.table.closed", "implies(message is not None and old(self.state) == ASGIHTTPState.CLOSED, False)", "C12"),
       ("C12.table.known-type", "implies(message is not None, message['type'] in ('http.response.start', 'http.response.body', 'http.response.push', 'http.response.early_hint', 'http.response.trailers'))", "C12"),
       ("C12.table.h1-extensions", "implies(message is not None and message['type'] in ('http.response.push', 'http.response.early_hint', 'http.response.trailers'), value_of(old(self), 'scope')['http_version'] in ('2', '3'))", "C12,C02"),
       # ---- C02: what a valid message emits
       ("C02.app.start", "implies(message is not None and message['type'] == 'http.response.start', "
        "n_emitted('sent') == 1 and isinstance(emitted('sent')[0], Response) and self.state == ASGIHTTPState.RESPONSE and emitted('sent')[0].stream_id == self.stream_id)", "C02"),
       ("C02.app.body.final", "implies(message is not None and message['type'] == 'http.response.body' and not get_truthy(message, 'more_body') and not get_truthy(value_of(old(self), 'response'), 'trailers'), "
        "self.state == ASGIHTTPState.CLOSED and count_cls('sent', EndBody) == 1 and last_is('sent', StreamClosed))", "C02"),
       ("C02.app.body.more", "implies(message is not None and message['type'] == 'http.response.body' and get_truthy(message, 'more_body'), "
        "self.state == ASGIHTTPState.RESPONSE and count_cls('sent', EndBody) == 0 and count_cls('sent', StreamClosed) == 0)", "C02"),
       ("C02.sid", "trace_all('sent', 'x', x.stream_id == self.stream_id)", "C02,C09"),
       ("C02.trailers-only-h2", "implies(nogap('sent') and count_cls('sent', Trailers) > 0, value_of(old(self), 'scope')['http_version'] in ('2', '3'))", "C02"),
   ],
   loops={
       0: {"locals": {"name": "bstr", "value": "bstr"}},
       1: {"locals": {"name": "bstr", "value": "bstr", "headers": "hdrs"}, "invariant": [("app_send.loop.unchanged", "self.g_app_started and self.state == old(self.state) and self.closed == old(self.closed) and self.g_n_final == old(self.g_n_final) and self.g_n_end == old(self.g_n_end) and self.g_access == old(self.g_access) and self.g_disc == old(self.g_disc) and self.g_spawned == old(self.g_spawned) and has(self, 'scope') and has(self, 'start_time') and iff(has(self, 'response'), has(old(self), 'response'))")]},
       2: {"locals": {"name": "bstr", "value": "bstr", "headers": "hdrs"}, "invariant": [("app_send.loop.unchanged", "self.g_app_started and self.state == old(self.state) and self.closed == old(self.closed) and self.g_n_final == old(self.g_n_final) and self.g_n_end == old(self.g_n_end) and self.g_access == old(self.g_access) and self.g_disc == old(self.g_disc) and self.g_spawned == old(self.g_spawned) and has(self, 'scope') and has(self, 'start_time') and iff(has(self, 'response'), has(old(self), 'response'))")]},
   },
   props=("C02", "C03", "C05", "C12"))

# inlined at its call sites (plain assignments), so that callers see the very objects they passed
fn(HS + ".__init__", inline=True,
   params={"app": "opaque", "config": "obj hypercorn.config:Config", "context": "obj hypercorn.typing:WorkerContext", "task_group": "obj hypercorn.typing:TaskGroup",
           "ssl": "bool", "client": "opaque", "server": "opaque", "send": "opaque", "stream_id": "int"},
   ensures=[
       ("C01.scheme", "self.scheme == ('https' if ssl else 'http')", "C01"),
       ("HTTPStream.init.fresh", "not self.closed and self.state == ASGIHTTPState.REQUEST and self.stream_id == stream_id and not has(self, 'scope') and not has(self, 'response')", "C02"),
       ("HTTPStream.init.addresses", "same(self.client, client) and same(self.server, server)", "C01"),
       ("HTTPStream.init.wiring", "same(self.app, app) and same(self.config, config) and same(self.context, context) and same(self.task_group, task_group)", "C01"),
   ],
   props=("C01",))
