"""HTTPStream (hypercorn/protocol/http_stream.py): C01 scope/body, C02 response automaton,
C03 exactly-once disconnect/access, C05 failure containment, C12 rejection table."""
from pyvc.contracts import Callback, cls, fn

HS = "hypercorn.protocol.http_stream:HTTPStream"
SCOPE = ("dict{type:str;http_version:str;method:str;scheme:str;path:str;raw_path:bstr;query_string:bstr;"
         "root_path:str;headers:hdrs;client:opaque;server:opaque;state:opaque;extensions:opaque}")

cls(
    HS,
    fields={
        "app": "opaque", "client": "opaque", "closed": "bool", "config": "obj hypercorn.config:Config",
        "context": "obj hypercorn.typing:WorkerContext", "response": "maybe msg(headers:short)", "scope": "maybe " + SCOPE,
        "send": "opaque", "scheme": "str", "server": "opaque", "start_time": "maybe real",
        "state": "enum hypercorn.protocol.http_stream:ASGIHTTPState", "stream_id": "int",
        "task_group": "obj hypercorn.typing:TaskGroup", "app_put": "opaque",
    },
    ghost={
        "g_app_started": "bool",  # spawn_app has been called (scope and app_put are set)
        "g_access": "nat",  # access-log records written for this request
        "g_disc": "nat",  # http.disconnect messages put
        "g_n_end": "nat",  # EndBody events sent
        "g_n_final": "nat",  # final (>= 200) Response events sent
        "g_n_closed": "nat",  # StreamClosed events sent
    },
    callbacks={
        # events handed to the protocol; the requires are the response automaton of C02/C12
        "send": Callback(
            name="send", effect="yields", record="sent",
            requires=[
                ("C02.order.final-once", "implies(isinstance(e, Response), self.g_n_final == 0 and self.g_n_end == 0)", "C02,C12"),
                ("C02.order.body-after-head", "implies(isinstance(e, Body), self.g_n_final == 1 and self.g_n_end == 0)", "C02,C12"),
                ("C02.order.end-once", "implies(isinstance(e, EndBody), self.g_n_end == 0 and self.g_n_final == 1)", "C02,C05"),
                ("C02.order.trailers", "implies(isinstance(e, Trailers), self.g_n_final == 1 and self.g_n_end == 0)", "C02"),
            ],
            ghost=[
                "self.g_n_final = self.g_n_final + (1 if isinstance(e, Response) else 0)",
                "self.g_n_end = self.g_n_end + (1 if isinstance(e, EndBody) else 0)",
                "self.g_n_closed = self.g_n_closed + (1 if isinstance(e, StreamClosed) else 0)",
            ],
        ),
        # messages delivered to the application (queue put: may block, i.e. yields)
        "app_put": Callback(
            name="app_put", effect="yields", record="puts", present="self.g_app_started",
            requires=[("C03.http.nothing-after-disconnect", "self.g_disc == 0", "C03")],
            ghost=["self.g_disc = self.g_disc + (1 if e['type'] == 'http.disconnect' else 0)"],
        ),
    },
    inv=[
        ("HTTPStream.inv.disc", "self.g_disc == (1 if (self.closed and self.g_app_started) else 0)", "C03"),
        ("HTTPStream.inv.started", "implies(self.g_app_started, has(self, 'scope') and has(self, 'start_time'))", "C04"),
        ("HTTPStream.inv.response", "implies(self.state in (ASGIHTTPState.RESPONSE, ASGIHTTPState.TRAILERS), has(self, 'response') and self.g_app_started)", "C12"),
    ],
    rely=[
        ("HTTPStream.rely.closed-monotone", "implies(old(self.closed), self.closed)", "C03"),
        ("HTTPStream.rely.started-monotone", "implies(old(self.g_app_started), self.g_app_started)", "C03"),
        ("HTTPStream.rely.counters-grow", "self.g_disc >= old(self.g_disc) and self.g_access >= old(self.g_access) and self.g_n_end >= old(self.g_n_end) and self.g_n_final >= old(self.g_n_final)", "C03"),
    ],
    task_rely={
        # while the application task is suspended nobody else advances the response automaton
        "app": [("HTTPStream.rely[app].automaton", "implies(old(self.g_app_started), self.state == old(self.state) and self.g_n_end == old(self.g_n_end) and self.g_n_final == old(self.g_n_final) and iff(has(self, 'response'), has(old(self), 'response')))", "C02")],
    },
    task_inv={
        # quiescent (no app_send in flight; app_send is assumed not to be re-entered): state
        # determines what has been emitted
        "app": [
            ("HTTPStream.qinv.request", "implies(self.state == ASGIHTTPState.REQUEST, self.g_n_final == 0 and self.g_n_end == 0)", "C02,C12"),
            ("HTTPStream.qinv.response", "implies(self.state in (ASGIHTTPState.RESPONSE, ASGIHTTPState.TRAILERS), self.g_n_final == 1 and self.g_n_end == 0)", "C02,C12"),
            ("HTTPStream.qinv.closed", "implies(self.state == ASGIHTTPState.CLOSED, self.g_n_end == 1)", "C02,C05"),
        ],
    },
)

# used by the protocols (callers see only this)
fn(HS + ".handle", params={"event": "opaque"}, effect="yields", task="reader",
   modifies=["self.closed", "self.state", "self.scope", "self.start_time", "self.g_app_started", "self.g_access", "self.g_disc", "self.g_n_end", "self.g_n_final", "self.g_n_closed"],
   ensures=[("handle.closed-monotone", "implies(old(self.closed), self.closed)", "C03"),
            ("handle.closes", "implies(isinstance(event, StreamClosed), self.closed)", "C03,C07")],
   props=("C03",))
fn(HS + ".idle", params={}, returns="bool", modifies=[], effect="atomic", ensures=[("HTTPStream.idle.false", "result == False", "C07")], props=("C07",))
