"""WSStream (hypercorn/protocol/ws_stream.py)."""
from pyvc.contracts import Callback, cls, fn

WS = "hypercorn.protocol.ws_stream:WSStream"

cls(
    WS,
    fields={
        "app": "opaque", "app_put": "opaque", "client": "opaque", "closed": "bool", "config": "obj hypercorn.config:Config",
        "context": "obj hypercorn.typing:WorkerContext", "task_group": "obj hypercorn.typing:TaskGroup",
        "send": "opaque", "scheme": "str", "server": "opaque",
        "state": "enum hypercorn.protocol.ws_stream:ASGIWebsocketState", "stream_id": "int",
    },
    ghost={"g_app_started": "bool", "g_access": "nat", "g_disc": "nat"},
    callbacks={
        "send": Callback(name="send", effect="yields", record="sent"),
        "app_put": Callback(name="app_put", effect="yields", record="puts", present="self.g_app_started",
                            requires=[("C03.ws.nothing-after-disconnect", "self.g_disc == 0", "C03")],
                            ghost=["self.g_disc = self.g_disc + (1 if e['type'] == 'websocket.disconnect' else 0)"]),
    },
    rely=[("WSStream.rely.closed-monotone", "implies(old(self.closed), self.closed)", "C03")],
)
fn(WS + ".handle", params={"event": "opaque"}, effect="yields", task="reader",
   modifies=["self.closed", "self.state", "self.g_app_started", "self.g_access", "self.g_disc"],
   ensures=[("ws.handle.closed-monotone", "implies(old(self.closed), self.closed)", "C03"),
            ("ws.handle.closes", "implies(isinstance(event, StreamClosed), self.closed)", "C03,C07")],
   props=("C03",))
fn(WS + ".idle", params={}, returns="bool", modifies=[], effect="atomic",
   ensures=[("WSStream.idle.def", "result == (self.state in (ASGIWebsocketState.CLOSED, ASGIWebsocketState.HTTPCLOSED))", "C07")], props=("C07",))
