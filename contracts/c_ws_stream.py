"""hypercorn/protocol/ws_stream.py: WebsocketBuffer (C10), Handshake (C11), WSStream (C03, C05,
C10, C11, C12)."""
from pyvc.contracts import Callback, cls, fn, specfn

M = "hypercorn.protocol.ws_stream:"
WS = M + "WSStream"
WB = M + "WebsocketBuffer"
HK = M + "Handshake"

# ------------------------------------------------------------------------------ WebsocketBuffer
# private to the reader task (only WSStream._handle_events reaches it): never changed by others
cls(WB, fields={"value": "opt obj io:IOBuf", "length": "int", "max_length": "int"}, immutable=["value", "length", "max_length"],
    inv=[("WebsocketBuffer.inv.length", "self.length >= 0", "C10"),
         # the accumulated size is the size of what has been written
         ("WebsocketBuffer.inv.size", "implies(self.value is not None, self.length == len(self.value.content)) and implies(self.value is None, self.length == 0)", "C10")])

fn(WB + ".__init__", params={"max_length": "int"},
   ensures=[("C10.buffer.init", "self.value is None and self.length == 0 and self.max_length == max_length", "C10")], props=("C10",))

fn(WB + ".extend", params={"event": "obj wsproto.events:TextMessage | obj wsproto.events:BytesMessage"},
   requires=[("extend.pre.same-type", "implies(self.value is not None, isinstance(self.value, StringIO) == isinstance(event, TextMessage))")],
   ensures=[("C10.buffer.extend", "self.length == old(self.length) + len(event.data) and self.length <= self.max_length and self.value is not None", "C10"),
            # the fragment is appended to what was accumulated (same payload, in order)
            ("C10.buffer.content", "self.value.content == cat(old(self.value).content, event.data) if old(self.value) is not None else self.value.content == event.data", "C10"),
            ("C10.buffer.type", "isinstance(self.value, StringIO) == (isinstance(event, TextMessage) if old(self.value) is None else isinstance(old(self.value), StringIO))", "C10")],
   # the buffer stays over the limit after the error: every later fragment is refused as well, so
   # nothing of this or a later message can be delivered (C10)
   raises={"FrameTooLargeError": {"when": "self.length + len(event.data) > self.max_length",
                                  "ensures": [("C10.buffer.too-large", "old(self.length) + len(event.data) > self.max_length", "C10"),
                                              ("C10.buffer.stays-too-large", "self.length > self.max_length", "C10")]}},
   modifies=["self.value", "self.length"], effect="atomic", props=("C10",),
   ghost_on_raise={"FrameTooLargeError": ["caller_set('g_too_big', True)"]})

fn(WB + ".clear", params={}, ensures=[("C10.buffer.clear", "self.value is None and self.length == 0", "C10")],
   modifies=["self.value", "self.length"], effect="atomic", props=("C10",))


fn(WB + ".to_message", params={}, modifies=[], effect="atomic", returns="dict{type:const 'websocket.receive';bytes:opt bytes;text:opt text}",
   requires=[("to_message.pre", "self.value is not None")],
   ensures=[("C10.buffer.message", "result['type'] == 'websocket.receive' and (result['bytes'] is None) == isinstance(self.value, StringIO) and (result['text'] is None) == isinstance(self.value, BytesIO) "
             "and implies(isinstance(self.value, BytesIO), result['bytes'] == self.value.content) and implies(isinstance(self.value, StringIO), result['text'] == self.value.content)", "C10")],
   props=("C10",))

# ------------------------------------------------------------------------------ Handshake
cls(HK, fields={"accepted": "bool", "http_version": "str", "connection_tokens": "opt strs", "extensions": "opt strs", "key": "opt bstr",
                "subprotocols": "opt strs", "upgrade": "opt bstr", "version": "opt bstr"},
    inv=[], rely=[("Handshake.rely.accepted-monotone", "implies(old(self.accepted), self.accepted)", "C11")])

# last_ci(hs, n, name): value of the last of the first n header lines whose name, lower-cased, is
# `name` (b'' if none); seen_ci: there is such a line.  The handshake is read from the request's
# header list whatever the case of the names (with h11_pass_raw_headers the client's spelling --
# Sec-WebSocket-Key, Upgrade ... -- reaches the stream unchanged).
specfn("last_ci", ["hs:hdrs", "n:int", "name:bstr"], rec="n", returns="bstr", base="b''",
       step="ite(hs[n - 1][0].lower() == name, hs[n - 1][1], last_ci(hs, n - 1, name))")
specfn("seen_ci", ["hs:hdrs", "n:int", "name:bstr"], rec="n", returns="bool", base="False",
       step="hs[n - 1][0].lower() == name or seen_ci(hs, n - 1, name)")


def _hk_field(field, name, at):
    return ("(self.%s is None) == (not seen_ci(headers, %s, %s)) and implies(self.%s is not None, self.%s == last_ci(headers, %s, %s))" % (field, at, name, field, field, at, name))


def _hk_present(field, name, at):
    return "(self.%s is None) == (not seen_ci(headers, %s, %s))" % (field, at, name)


_HK_ALL = lambda at: " and ".join([_hk_field("key", "b'sec-websocket-key'", at), _hk_field("version", "b'sec-websocket-version'", at), _hk_field("upgrade", "b'upgrade'", at),
                                   _hk_present("connection_tokens", "b'connection'", at), _hk_present("extensions", "b'sec-websocket-extensions'", at),
                                   _hk_present("subprotocols", "b'sec-websocket-protocol'", at)])

fn(HK + ".__init__", params={"headers": "hdrs", "http_version": "str"},
   # wsproto's split_comma_header decodes the value as ASCII: a Connection / Sec-WebSocket-Protocol /
   # Sec-WebSocket-Extensions value with a byte over 0x7f raises (finding F4j: it reaches the
   # connection handler through WSStream.handle)
   raises={"UnicodeDecodeError": None},
   loops={0: {"locals": {"name": "bstr", "value": "bstr"},
              "invariant": [("C11.handshake.scan.key", _hk_field("key", "b'sec-websocket-key'", "_i"), "C11,C13"),
                            ("C11.handshake.scan.version", _hk_field("version", "b'sec-websocket-version'", "_i"), "C11,C13"),
                            ("C11.handshake.scan.upgrade", _hk_field("upgrade", "b'upgrade'", "_i"), "C11,C13"),
                            ("C11.handshake.scan.connection", _hk_present("connection_tokens", "b'connection'", "_i"), "C11,C13"),
                            ("C11.handshake.scan.extensions", _hk_present("extensions", "b'sec-websocket-extensions'", "_i"), "C11,C13"),
                            ("C11.handshake.scan.subprotocols", _hk_present("subprotocols", "b'sec-websocket-protocol'", "_i"), "C11,C13")]}},
   ensures=[("Handshake.init", "not self.accepted and self.http_version == http_version", "C11"),
            # C11 / C13 "a GET with Upgrade: websocket starts a WebSocket": key, version and upgrade are
            # the values of the last header line of that name, compared without regard to case; the
            # three list-valued fields are present exactly when their header is
            ("C11.handshake.fields", _HK_ALL("len(headers)"), "C11,C13")],
   # trusted one-liner relating the two spellings of "there is an Upgrade header" (has_header is
   # what the callers' preconditions use)
   assumed_ensures=[("Handshake.init.upgrade-found", "implies(has_header(headers, b'upgrade'), self.upgrade is not None)", "C11")],
   props=("C11",))

fn(HK + ".is_valid", params={}, returns="bool", modifies=[], effect="atomic",
   # H11Protocol only builds a WSStream for an HTTP/1.1 request that carries Upgrade: websocket
   requires=[("is_valid.pre.h1-upgrade", "implies(self.http_version == '1.1', self.upgrade is not None)")],
   ensures=[
       ("C11.valid.h10", "implies(self.http_version < '1.1', result == False)", "C11"),
       ("C11.valid.h11", "implies(self.http_version == '1.1', implies(result, self.key is not None and self.connection_tokens is not None and self.upgrade.lower() == b'websocket' and self.version == b'13'))", "C11"),
       ("C11.valid.h11.complete", "implies(self.http_version == '1.1' and not result, self.key is None or self.connection_tokens is None or not tokens_have_upgrade(self.connection_tokens) or self.upgrade.lower() != b'websocket' or self.version != b'13')", "C11"),
       ("C11.valid.h2", "implies(self.http_version > '1.1', result == (self.version == b'13'))", "C11"),
   ],
   props=("C11",))

fn(HK + ".accept", params={"subprotocol": "none | str", "additional_headers": "anyhdr"}, exceptional="app",
   returns="tuple(int;hdrs;obj M_ws)", modifies=["self.accepted"],
   raises={"Exception": {"ensures": [("C11.accept.rejected-unchanged", "self.accepted == old(self.accepted)", "C11")]}},
   loops={0: {"locals": {"name": "anyhdr", "value": "anyhdr", "headers": "hdrs"},
              # what the handshake answer carries when the application's extra headers are about to be
              # added (that the loop then only appends is by inspection: headers.append is its only statement
              # besides a raise)
              "entry_ensures": [
                  # C10 "compressed or not ... same type and payload": the permessage-deflate object holds the
                  # compression state of ONE connection; the one offered to the new connection is created for it
                  ("C10.accept.own-extension", "len(extensions) == 1 and n_emitted('ws_ext_new') == 1 and same(extensions[0], emitted('ws_ext_new')[0])", "C10,C11"),
                  ("C11.accept.token", "implies(self.key is not None, any(h[0] == b'sec-websocket-accept' and h[1] == generate_accept_token(self.key) for h in headers))", "C11"),
                  ("C11.accept.subprotocol-header", "implies(subprotocol is not None and is_ascii(subprotocol), headers[0] == (b'sec-websocket-protocol', subprotocol.encode()))", "C11"),
                  ("C11.accept.upgrade-headers", "implies(self.http_version == '1.1', any(h[0] == b'upgrade' and h[1] == b'WebSocket' for h in headers) and any(h[0] == b'connection' and h[1] == b'Upgrade' for h in headers))", "C11"),
              ],
              }},
   ensures=[
       ("C11.accept.status", "result[0] == (101 if self.http_version == '1.1' else 200)", "C11"),
       # C10 "compressed or not ... same type and payload": the permessage-deflate object holds the
       # compression state of ONE connection; the one handed to the new connection is created for it
       ("C10.accept.extension-passed", "n_after_gap('ws_conn_new') == 1 and same(after_gap('ws_conn_new')[0][1], local('extensions'))", "C10,C11"),
       ("C11.accept.accepted", "self.accepted", "C11"),
       ("C11.accept.subprotocol-offered", "implies(subprotocol is not None, self.subprotocols is not None and subprotocol in self.subprotocols)", "C11,C12"),
   ],
   props=("C11",))

# ------------------------------------------------------------------------------ WSStream
WSCOPE = ("dict{type:str;http_version:str;scheme:str;path:str;raw_path:bstr;query_string:bstr;"
          "root_path:str;headers:hdrs;client:opaque;server:opaque;state:opaque;subprotocols:opaque;extensions:opaque}")
WSS = "hypercorn.protocol.ws_stream:ASGIWebsocketState"

cls(
    WS,
    fields={
        "app": "opaque", "app_put": "none", "buffer": "obj " + WB, "client": "opaque", "closed": "bool",
        "config": "obj hypercorn.config:Config", "context": "obj hypercorn.typing:WorkerContext",
        "task_group": "obj hypercorn.typing:TaskGroup", "response": "maybe msg(headers:short)", "scope": "maybe " + WSCOPE,
        "send": "opaque", "scheme": "str", "server": "opaque", "start_time": "maybe real",
        "state": "enum " + WSS, "stream_id": "int", "connection": "maybe obj M_ws", "handshake": "maybe obj " + HK,
    },
    ghost={
        "g_app_started": "bool", "g_spawned": "nat", "g_access": "nat", "g_disc": "nat",
        "g_n_final": "nat",  # Response events sent (handshake answer)
        "g_n_end": "nat",
        "g_remote_closed": "bool",  # a close frame from the client has been seen
        "g_remote_code": "int",  # its code
        "g_too_big": "bool",  # a message exceeded websocket_max_message_size
        "g_finished": "bool",  # the application has returned (app_send(None) was called)
        "g_app_closed": "bool",  # the application has asked to close (websocket.close accepted for processing)
    },
    callbacks={
        "send": Callback(name="send", effect="yields", record="sent",
                         requires=[("C11.ws.one-handshake-answer", "implies(isinstance(e, Response), self.g_n_final == 0)", "C11,C12")],
                         ghost=["self.g_n_final = self.g_n_final + (1 if isinstance(e, Response) else 0)",
                                "self.g_n_end = self.g_n_end + (1 if isinstance(e, EndBody) else 0)"]),
        "app_put": Callback(name="app_put", effect="yields", record="puts", present="self.g_app_started",
                            requires=[("C03.ws.nothing-after-disconnect", "self.g_disc == 0", "C03"),
                                      ("C10.nothing-after-too-big", "implies(e['type'] == 'websocket.receive', not self.g_too_big)", "C10")],
                            ghost=["self.g_disc = self.g_disc + (1 if e['type'] == 'websocket.disconnect' else 0)"]),
    },
    inv=[
        ("WSStream.inv.disc", "self.g_disc == (1 if (self.closed and self.g_app_started) else 0)", "C03"),
        ("WSStream.inv.started", "implies(self.g_app_started, has(self, 'scope') and has(self, 'start_time') and has(self, 'handshake'))", "C04"),
        ("WSStream.inv.spawn-once", "self.g_spawned == (1 if self.g_app_started else 0)", "C11"),
        ("WSStream.inv.connected", "implies(self.state == ASGIWebsocketState.CONNECTED, has(self, 'connection') and self.g_app_started and value_of(self, 'handshake').accepted)", "C10"),
        # once a message was too big the buffer stays over the limit (so nothing more is delivered)
        ("C10.too-big-sticks", "implies(self.g_too_big, self.buffer.length > self.buffer.max_length)", "C10"),
        # C11 "1000 after its own close": what handle(StreamClosed) reports is decided from self.state,
        # so from the moment the application's websocket.close is being processed -- across every
        # suspension of that call -- the state must already say so (seeded/C11-ws-close-state-after-send)
        ("C11.own-close-state", "implies(self.g_app_closed, self.state in (ASGIWebsocketState.CLOSED, ASGIWebsocketState.HTTPCLOSED))", "C11"),
        # ... and conversely: CLOSED is the *application's* close.  What the client does (its close
        # frame) is recorded in `closed` when the stream is closed, not in the state the
        # application's messages are judged by: a send that races with the client's close must be
        # swallowed (C03 "accepted silently"), not refused as invalid for the state
        ("C03.ws.closed-state-is-own-close", "implies(self.state == ASGIWebsocketState.CLOSED, self.g_app_closed)", "C03,C11"),
        ("WSStream.inv.accepted-started", "implies(has(self, 'handshake') and value_of(self, 'handshake').accepted, self.g_app_started)", "C11"),
        ("WSStream.inv.accepted", "implies(has(self, 'handshake') and value_of(self, 'handshake').accepted, has(self, 'connection'))", "C04"),
        # the handshake and the scope were built from the same Request
        ("WSStream.inv.versions", "implies(has(self, 'handshake') and has(self, 'scope'), value_of(self, 'handshake').http_version == value_of(self, 'scope')['http_version'])", "C11"),
    ],
    rely=[
        ("WSStream.rely.closed-monotone", "implies(old(self.closed), self.closed)", "C03"),
        ("WSStream.rely.started-monotone", "implies(old(self.g_app_started), self.g_app_started)", "C03"),
        ("WSStream.rely.set-stays", "implies(has(old(self), 'scope'), has(self, 'scope')) and implies(has(old(self), 'start_time'), has(self, 'start_time')) and implies(has(old(self), 'handshake'), has(self, 'handshake')) and implies(has(old(self), 'connection'), has(self, 'connection'))", "C04"),
        ("WSStream.rely.counters-grow", "self.g_disc >= old(self.g_disc) and self.g_access >= old(self.g_access) and implies(old(self.g_finished), self.g_finished)", "C03"),
    ],
    task_rely={
        "reader": [("WSStream.rely[reader].not-started", "implies(not old(self.g_app_started), not self.g_app_started and self.state == old(self.state) and self.closed == old(self.closed) "
                    "and self.g_n_final == old(self.g_n_final) and self.g_access == old(self.g_access) and self.g_disc == old(self.g_disc) and self.g_spawned == old(self.g_spawned))", "C03"),
                   ("WSStream.rely[reader].receive-side", "self.g_too_big == old(self.g_too_big) and self.g_remote_closed == old(self.g_remote_closed) and self.g_remote_code == old(self.g_remote_code)", "C10")],
        "app": [("WSStream.rely[app].automaton", "implies(old(self.g_app_started), self.state == old(self.state) and self.g_n_final == old(self.g_n_final))", "C11")],
    },
    task_inv={"reader": [
        # the buffer holds exactly the message wsproto has in progress (same type), else nothing;
        # only the reader touches either, so this holds whenever the reader is between two calls
        ("WSStream.inv.buffer", "implies(has(self, 'connection'), (self.buffer.value is None) == (value_of(self, 'connection').cur_type == 0) "
         "and implies(self.buffer.value is not None, isinstance(self.buffer.value, StringIO) == (value_of(self, 'connection').cur_type == 1)))", "C10,C04")],
              "app": [("WSStream.qinv.handshake", "implies(self.state == ASGIWebsocketState.HANDSHAKE and not self.g_finished, self.g_n_final == 0 and self.g_n_end == 0)", "C11,C12,C05"),
                      ("WSStream.qinv.answered", "implies(self.state in (ASGIWebsocketState.CONNECTED, ASGIWebsocketState.RESPONSE, ASGIWebsocketState.HTTPCLOSED), self.g_n_final == 1)", "C11,C12,C05")]},
    task_stable={"app": ["response", "scope", "start_time", "handshake"], "reader": ["buffer", "scope", "start_time", "handshake", "connection"]},
    published_inv=[("WSStream.published.requested", "has(self, 'scope') and has(self, 'start_time') and has(self, 'handshake')", "C04")],
)

fn(WS + ".idle", params={}, returns="bool", modifies=[], effect="atomic",
   ensures=[("WSStream.idle.def", "result == (self.state in (ASGIWebsocketState.CLOSED, ASGIWebsocketState.HTTPCLOSED))", "C07")], props=("C07",))

fn(WS + ".handle",
   params={"event": "obj hypercorn.protocol.events:Request | obj hypercorn.protocol.events:Body | obj hypercorn.protocol.events:Data | obj hypercorn.protocol.events:EndBody | obj hypercorn.protocol.events:StreamClosed"},
   effect="yields", task="reader",
   modifies=["self.closed", "self.state", "self.scope", "self.start_time", "self.handshake", "self.app_put", "self.buffer", "self.connection", "self.g_app_started", "self.g_spawned", "self.g_access", "self.g_disc", "self.g_n_final", "self.g_n_end",
             "self.g_remote_closed", "self.g_remote_code", "self.g_too_big", "self.g_finished", "self.g_app_closed"],
   requires=[
       ("ws.handle.pre.request-first", "iff(isinstance(event, Request), not has(self, 'scope')) and implies(not isinstance(event, Request), has(self, 'start_time') and has(self, 'handshake'))"),
       ("ws.handle.pre.fresh", "implies(isinstance(event, Request), not self.closed and not self.g_app_started and self.state == ASGIWebsocketState.HANDSHAKE "
        "and self.g_n_final == 0 and self.g_n_end == 0 and self.g_disc == 0 and self.g_access == 0 and self.g_spawned == 0 and not self.g_too_big and not self.g_remote_closed and not self.g_app_closed)"),
       # H11Protocol builds a WSStream for HTTP/1.1 only when the request has Upgrade: websocket
       ("ws.handle.pre.h1-upgrade", "implies(isinstance(event, Request) and event.http_version == '1.1', has_header(event.headers, b'upgrade'))"),
   ],
   ensures=[
       ("ws.handle.closed-monotone", "implies(old(self.closed), self.closed)", "C03"),
       ("ws.handle.closes", "implies(isinstance(event, StreamClosed), self.closed)", "C03,C07"),
       ("ws.handle.set", "implies(isinstance(event, Request), has(self, 'scope') and has(self, 'start_time') and has(self, 'handshake'))", "C04"),
       ("ws.handle.stays", "implies(has(old(self), 'scope'), has(self, 'scope') and has(self, 'start_time') and has(self, 'handshake'))", "C04"),
       # C11: an invalid handshake is answered 400 and no application is started
       ("C11.reject", "implies(isinstance(event, Request) and not self.g_app_started, self.closed and n_emitted('sent') == 2 and isinstance(emitted('sent')[0], Response) "
        "and emitted('sent')[0].status_code in (400, 404) and isinstance(emitted('sent')[1], EndBody) and n_emitted('puts') == 0)", "C11"),
       # C11: the first message to the application is websocket.connect
       ("C11.connect", "implies(isinstance(event, Request) and self.g_app_started, n_emitted('puts') == 1 and emitted('puts')[0]['type'] == 'websocket.connect' and n_emitted('sent') == 0)", "C11"),
       ("C07.err-idle.ws", "implies(isinstance(event, Request) and not self.g_app_started, trace_any('sent', 'x', isinstance(x, StreamClosed)))", "C07"),
       ("C03.ws.closed-delivers-nothing", "implies(old(self.closed), n_emitted('puts') == 0 and n_emitted('sent') == 0)", "C03"),
       # C11: the disconnect code tells the application what happened
       # C03 "every request produces exactly one access-log record", for a WebSocket request whose
       # client leaves before the application has answered it: the application can no longer answer
       # (its sends are ignored from here on), so the record has to exist when the close has been
       # handled (HTTPStream writes it there; finding F3b: WSStream writes none)
       ("C03.ws.access.on-close", "implies(isinstance(event, StreamClosed) and not old(self.closed) and self.g_app_started and old(self.state) in (ASGIWebsocketState.HANDSHAKE, ASGIWebsocketState.RESPONSE), self.g_access >= 1)", "C03"),
       # (two clauses: the client-initiated close is finding F11 and is recorded against .code only;
       # own close / lost connection must keep holding)
       ("C11.code", "implies(isinstance(event, StreamClosed) and not old(self.closed) and self.g_app_started and old(self.g_remote_closed), n_emitted('puts') == 1 and emitted('puts')[0]['type'] == 'websocket.disconnect' "
        "and emitted('puts')[0]['code'] == old(self.g_remote_code))", "C11"),
       ("C11.code.own-or-lost", "implies(isinstance(event, StreamClosed) and not old(self.closed) and self.g_app_started and not old(self.g_remote_closed), n_emitted('puts') == 1 and emitted('puts')[0]['type'] == 'websocket.disconnect' "
        "and emitted('puts')[0]['code'] == (1000 if old(self.state) in (ASGIWebsocketState.CLOSED, ASGIWebsocketState.HTTPCLOSED) else 1006))", "C11"),
   ],
   props=("C04", "C03", "C10", "C11", "C07"))

# inlined at its call site; this entry only carries the loop invariant
fn(WS + "._handle_events", params={}, inline=True, task="reader",
   loops={0: {"invariant": [("ws.events.loop", "has(self, 'connection') and has(self, 'scope') and has(self, 'start_time') and has(self, 'handshake') and self.g_app_started and value_of(self, 'handshake').accepted"),
       ("ws.events.loop.buffer", "(self.buffer.value is None) == (value_of(self, 'connection').cur_type == 0) "
        "and implies(self.buffer.value is not None, isinstance(self.buffer.value, StringIO) == (value_of(self, 'connection').cur_type == 1))", "C10,C04")],
     "iter_ensures": [
       # C10: a message over the limit closes with 1009 (the iteration ends in `break`)
       ("C10.too-big-closes-1009", "implies(self.g_too_big and isinstance(event, (TextMessage, BytesMessage)), "
        "trace_any('ws', 'x', isinstance(x, CloseConnection) and x.code == CloseReason.MESSAGE_TOO_BIG) or n_emitted('ws_refused') >= 1)", "C10"),
     ],
     "body_ensures": [
       # C10: every ping is answered by a pong with the same payload
       ("C10.ping-pong", "implies(isinstance(event, Ping), (n_emitted('ws') == 1 and isinstance(emitted('ws')[0], lib_wsproto.events.Pong) and emitted('ws')[0].payload == event.payload) or n_emitted('ws_refused') >= 1)", "C10"),
       # C10: a finished message is delivered once, a fragment that does not finish one is not
       ("C10.deliver-once", "implies(isinstance(event, (TextMessage, BytesMessage)), n_emitted('puts') == (1 if event.message_finished else 0))", "C10"),
     ]}},
   props=("C10",))

fn(WS + ".app_send", params={"message": "none | msg(headers:short)"}, task="app", exceptional="app",
   requires=[("ws.app_send.pre.started", "self.g_app_started"),
             # once the application has returned (StreamClosed was sent) the protocol has closed the stream
             ("ws.app_send.pre.finished-closed", "implies(self.g_finished, self.closed)")],
   ghost_pre=["if message is None:\n    self.g_finished = True",
              "if message is not None:\n    self.g_app_closed = self.g_app_closed or (not self.closed and message['type'] == 'websocket.close' and self.state in (ASGIWebsocketState.HANDSHAKE, ASGIWebsocketState.CONNECTED))"],
   ensures=[
       ("C03.ws.noop-after-close", "implies(old(self.closed), n_emitted('sent') == 0 and n_emitted('ws') == 0 and n_emitted('puts') == 0)", "C03"),
       # C05: the application returned / raised
       ("C05.ws.none.handshake", "implies(message is None and not old(self.closed) and old(self.state) == ASGIWebsocketState.HANDSHAKE, "
        "n_emitted('sent') == 3 and isinstance(emitted('sent')[0], Response) and emitted('sent')[0].status_code == 500 and isinstance(emitted('sent')[1], EndBody) and isinstance(emitted('sent')[2], StreamClosed))", "C05"),
       # ... and a denial response that was started and not finished is not finished for it
       ("C05.ws.none.response-incomplete", "implies(message is None and not old(self.closed) and old(self.state) == ASGIWebsocketState.RESPONSE, "
        "n_emitted('sent') == 1 and isinstance(emitted('sent')[0], StreamClosed))", "C05"),
       ("C05.ws.none.connected", "implies(message is None and not old(self.closed) and old(self.state) == ASGIWebsocketState.CONNECTED, "
        "last_is('sent', StreamClosed) and trace_all('ws', 'x', isinstance(x, CloseConnection) and x.code == CloseReason.INTERNAL_ERROR))", "C05"),
       # C11: the application's decision is rendered faithfully
       ("C11.accept", "implies(not old(self.closed) and message is not None and message['type'] == 'websocket.accept', old(self.state) == ASGIWebsocketState.HANDSHAKE and self.state == ASGIWebsocketState.CONNECTED "
        "and n_emitted('sent') == 1 and isinstance(emitted('sent')[0], Response) "
        "and emitted('sent')[0].status_code == (101 if value_of(old(self), 'scope')['http_version'] == '1.1' else 200))", "C11"),
       ("C11.close403", "implies(not old(self.closed) and message is not None and message['type'] == 'websocket.close' and old(self.state) == ASGIWebsocketState.HANDSHAKE, "
        "self.state == ASGIWebsocketState.HTTPCLOSED and n_emitted('sent') == 2 and isinstance(emitted('sent')[0], Response) and emitted('sent')[0].status_code == 403 and isinstance(emitted('sent')[1], EndBody))", "C11"),
       # C12: a call that returns normally was valid for its state
       # C12 "a non-str ... text frame raises an error": a websocket.send without bytes that
       # returns normally carried a str
       ("C12.ws.text-is-str", "implies(not old(self.closed) and message is not None and message['type'] == 'websocket.send' "
        "and not (has_key(message, 'bytes') and not tagis(message.get('bytes'), 'none')), has_key(message, 'text') and tagis(message['text'], 'str'))", "C12,C10"),
       ("C12.ws.table.send", "implies(not old(self.closed) and message is not None and message['type'] == 'websocket.send', old(self.state) == ASGIWebsocketState.CONNECTED)", "C12"),
       ("C12.ws.table.accept", "implies(not old(self.closed) and message is not None and message['type'] == 'websocket.accept', old(self.state) == ASGIWebsocketState.HANDSHAKE)", "C12"),
       ("C12.ws.table.response-start", "implies(not old(self.closed) and message is not None and message['type'] == 'websocket.http.response.start', old(self.state) == ASGIWebsocketState.HANDSHAKE)", "C12"),
       ("C12.ws.table.response-body", "implies(not old(self.closed) and message is not None and message['type'] == 'websocket.http.response.body', old(self.state) in (ASGIWebsocketState.HANDSHAKE, ASGIWebsocketState.RESPONSE))", "C12"),
       ("C12.ws.table.known-type", "implies(not old(self.closed) and message is not None, message['type'] in ('websocket.accept', 'websocket.send', 'websocket.close', 'websocket.http.response.start', 'websocket.http.response.body'))", "C12"),
       ("C12.ws.table.closed", "implies(not old(self.closed) and message is not None and old(self.state) in (ASGIWebsocketState.CLOSED, ASGIWebsocketState.HTTPCLOSED), False)", "C12"),
       # C10: messages the application sends keep their type and payload
       ("C10.send", "implies(not old(self.closed) and message is not None and message['type'] == 'websocket.send' and n_emitted('ws') == 1, "
        "(isinstance(emitted('ws')[0], BytesMessage) == (has_key(message, 'bytes') and not tagis(message.get('bytes'), 'none'))))", "C10"),
       # C11: the HTTP-response extension gives exactly that response: the head with the status and
       # the (validated) headers of websocket.http.response.start, then the body chunks, then the end
       ("C11.denial.head", "implies(not old(self.closed) and message is not None and message['type'] == 'websocket.http.response.body' and old(self.state) == ASGIWebsocketState.HANDSHAKE, "
        "n_emitted('sent') >= 1 and isinstance(emitted('sent')[0], Response) and emitted('sent')[0].headers == call_result('build_and_validate_headers') "
        "and implies(tagis(value_of(old(self), 'response')['status'], 'int'), emitted('sent')[0].status_code == value_of(old(self), 'response')['status']))", "C11,C12"),
       # ... every later body message of a denial (the head is out: state RESPONSE) is forwarded as
       # one Body event with the same bytes, unless the status forbids a body (1xx, 204, 304)
       ("C11.denial.body", "implies(not old(self.closed) and message is not None and message['type'] == 'websocket.http.response.body' and old(self.state) == ASGIWebsocketState.RESPONSE, "
        "implies(has_key(message, 'body'), implies(tagis(message['body'], 'bytes') and not (any_int(value_of(old(self), 'response')['status'], 200) < 200 or any_int(value_of(old(self), 'response')['status'], 200) == 204 or any_int(value_of(old(self), 'response')['status'], 200) == 304), "
        "trace_any('sent', 'x', isinstance(x, Body) and x.data == message['body']))))", "C11,C02"),
       ("C11.denial.end", "implies(not old(self.closed) and message is not None and message['type'] == 'websocket.http.response.body' and old(self.state) in (ASGIWebsocketState.HANDSHAKE, ASGIWebsocketState.RESPONSE), "
        "last_is('sent', EndBody) == (not truthy(message.get('more_body', False))) and (self.state == ASGIWebsocketState.HTTPCLOSED) == (not truthy(message.get('more_body', False))))", "C11"),
       # C12: the application's extra headers of websocket.accept are validated before they are
       # merged into the handshake answer (the answer also carries the client's own offers, so the
       # clause is stated on what the application supplied; the denial response is covered by
       # C11.denial.head: its headers are the validated list)
       ("C12.accept.headers-validated", "implies(count_calls('Handshake.accept') == 1, no_ctl_chars(call_args('Handshake.accept')[2]) and no_pseudo_names(call_args('Handshake.accept')[2]))", "C12"),
       # C03 "exactly one access-log record": no application message, and not the application's
       # return either, writes two records (the 500 of a failed handshake used to be logged twice)
       ("C03.ws.access.once-per-call", "count_calls('Logger.access') <= 1", "C03"),
       ("C10.send.bytes", "implies(n_emitted('ws') == 1 and isinstance(emitted('ws')[0], BytesMessage) and not old(self.closed) and message is not None and message['type'] == 'websocket.send' and tagis(message['bytes'], 'bytes'), "
        "emitted('ws')[0].data == message['bytes'])", "C10"),
       ("C10.send.text", "implies(n_emitted('ws') == 1 and isinstance(emitted('ws')[0], TextMessage) and not old(self.closed) and message is not None and message['type'] == 'websocket.send', "
        "emitted('ws')[0].data == message['text'])", "C10"),
       ("C10.send.one-frame", "implies(not old(self.closed) and message is not None and message['type'] == 'websocket.send', n_emitted('ws') + n_emitted('ws_refused') == 1)", "C10"),
       ("C02.ws.sid", "trace_all('sent', 'x', x.stream_id == self.stream_id)", "C02"),
   ],
   props=("C03", "C05", "C10", "C11", "C12"))

for _m in ("_accept", "_send_rejection", "_send_error_response", "_send_wsproto_event"):
    fn(WS + "." + _m, params={}, inline=True, task="app", props=("C11",))

# inlined at its call sites (plain assignments), and a unit of its own: the constructor establishes
# the class invariants (no application, nothing sent, nothing recorded, an empty receive buffer with
# the configured limit) -- the base case of every invariant of WSStream
fn(WS + ".__init__", inline=True,
   params={"app": "opaque", "config": "obj hypercorn.config:Config", "context": "obj hypercorn.typing:WorkerContext", "task_group": "obj hypercorn.typing:TaskGroup",
           "ssl": "bool", "client": "opaque", "server": "opaque", "send": "opaque", "stream_id": "int"},
   ensures=[
       ("C01.ws.scheme", "self.scheme == ('wss' if ssl else 'ws')", "C01,C11"),
       ("WSStream.init.fresh", "not self.closed and self.state == ASGIWebsocketState.HANDSHAKE and self.stream_id == stream_id and self.app_put is None "
        "and not has(self, 'scope') and not has(self, 'response') and not has(self, 'connection') and not has(self, 'handshake')", "C11,C03"),
       # C10: the receive buffer starts empty and carries the configured message-size limit
       ("C10.init.buffer-limit", "self.buffer.value is None and self.buffer.length == 0 and self.buffer.max_length == config.websocket_max_message_size", "C10"),
       ("WSStream.init.addresses", "same(self.client, client) and same(self.server, server)", "C11"),
       ("WSStream.init.wiring", "same(self.app, app) and same(self.config, config) and same(self.context, context) and same(self.task_group, task_group)", "C11"),
   ],
   props=("C11", "C10", "C03"))
