"""H11Protocol / H11WSConnection / ProtocolWrapper (hypercorn/protocol/h11.py, __init__.py):
C06 keep-alive and pipelining, C07 idle reporting, C13 protocol selection, C02 h11 headers, C18."""
from pyvc.contracts import specfn, Callback, cls, fn

import importlib.util as _u, os as _o
_s = _u.spec_from_file_location("a_events", _o.path.join(_o.path.dirname(__file__), "a_events.py"))
_ev = _u.module_from_spec(_s); _s.loader.exec_module(_ev)

M = "hypercorn.protocol.h11:"
H1 = M + "H11Protocol"
WC = M + "H11WSConnection"
STREAM = "obj hypercorn.protocol.http_stream:HTTPStream | obj hypercorn.protocol.ws_stream:WSStream"

# ------------------------------------------------------------------------------ H11WSConnection
cls(WC, fields={"buffer": "bytes", "h11_connection": "obj M_h11"},
    ghost={"g_fed": "bytes", "g_delivered": "bytes"},
    # C10.passthrough / C13: no byte lost or duplicated across the upgrade
    inv=[("C10.passthrough", "cat(self.g_delivered, self.buffer) == self.g_fed", "C10,C13")])

# C13 "no client byte is lost across a switch": whatever h11 had buffered behind the upgrade request
# is the pass-through connection's first data
fn(WC + ".__init__", params={"h11_connection": "obj M_h11"}, inline=True,
   ensures=[("C13.ws.trailing-kept", "self.buffer == h11_connection.trailing_data[0] and same(self.h11_connection, h11_connection)", "C13,C10")],
   ghost_post=["self.g_fed = self.buffer"],
   props=("C13", "C10"))
fn(WC + ".receive_data", params={"data": "bytes"}, modifies=["self.buffer", "self.g_fed"], effect="atomic",
   ghost_pre=["self.g_fed = cat_(self.g_fed, data)"],
   ensures=[("wsconn.receive", "self.buffer == cat(old(self.buffer), data)", "C10")], props=("C10", "C13"))
fn(WC + ".next_event", params={}, modifies=["self.buffer", "self.g_delivered"], effect="atomic", returns="obj hypercorn.protocol.events:Data | sentinel h11.NEED_DATA",
   ensures=[("wsconn.next.data", "implies(len(old(self.buffer)) > 0, isinstance(result, Data) and result.data == old(self.buffer) and len(self.buffer) == 0)", "C10"),
            ("wsconn.next.need", "implies(len(old(self.buffer)) == 0, result is h11.NEED_DATA)", "C10")],
   ghost_post=["self.g_delivered = cat_(self.g_delivered, result.data) if isinstance(result, Data) else self.g_delivered"],
   props=("C10", "C13"))

# ------------------------------------------------------------------------------ H11Protocol
cls(
    H1,
    fields={
        "app": "opaque", "can_read": "Event", "client": "opaque", "config": "obj hypercorn.config:Config",
        "connection": "obj M_h11 | obj " + WC, "context": "obj hypercorn.typing:WorkerContext", "keep_alive_requests": "int",
        "send": "opaque", "server": "opaque", "ssl": "bool", "stream": "opt " + STREAM,
        "task_group": "obj hypercorn.typing:TaskGroup", "connection_state": "opaque",
    },
    ghost={"g_requests": "nat",
           "g_closed": "bool"},  # the server has told the protocol that the connection is gone (handle(Closed))
    callbacks={"send": Callback(name="send", effect="yields", record="sent")},
    inv=[
        # C06.serial: a new request can only be parsed (client IDLE) when no stream is attached
        ("C06.serial", "implies(isinstance(self.connection, h11.Connection) and self.connection.their_state is h11.IDLE, self.stream is None)", "C06,C03,C01"),
        ("C18.ka.count", "self.keep_alive_requests >= 0", "C18"),
        ("H11.inv.can_read-clearable", "not self.can_read.g_sticky", "C06"),
    ],
    rely=[("H11.rely.closed-stays", "implies(old(self.g_closed), self.g_closed)", "C06"),
          ("H11.rely.requests-monotone", "self.keep_alive_requests >= old(self.keep_alive_requests)", "C06,C18")],
    # only the reader counts requests and swaps the connection object (WebSocket upgrade)
    task_rely={"reader": [("H11.rely[reader].count", "self.keep_alive_requests == old(self.keep_alive_requests)", "C06,C18"),
                          # only the reader attaches a stream; others can only detach it
                          ("H11.rely[reader].no-new-stream", "implies(old(self.stream) is None, self.stream is None)", "C06")]},
    task_stable={"reader": ["connection", "keep_alive_requests"]},
)

fn(H1 + "._send_h11_event", params={"event": "opaque"}, inline=True, props=("C02",))
fn(H1 + "._close_stream", params={}, inline=True, props=("C03",))
fn(H1 + "._send_error_response", params={"status_code": "int"}, inline=True, props=("C04",))

fn(H1 + ".handle", params={"event": _ev.IO_EVENTS}, task="reader", model_opts={"h11_server_headers_ok": True},
   ghost_pre=["self.g_closed = self.g_closed or isinstance(event, Closed)"],
   # the servers stop feeding data once they have seen EOF (both _read_data loops)
   requires=[("h11.handle.pre.no-data-after-eof", "implies(isinstance(event, RawData) and isinstance(self.connection, h11.Connection), not self.connection.recv_closed or len(event.data) == 0)")],
   raises={"H2CProtocolRequiredError": None, "H2ProtocolAssumedError": None},
   ensures=[
       # C01.h11.feed: what was read is what the parser gets, once (segmentation is the parser's business)
       ("C01.h11.feed", "implies(isinstance(event, RawData) and isinstance(old(self.connection), h11.Connection), n_emitted('h11_in') == 1 and emitted('h11_in')[0] == event.data)", "C01"),
       # C18 "a request head still incomplete after h11_max_incomplete_size bytes is rejected": h11
       # checks the limit when it is asked for the next event, so every read is followed by the event
       # loop -- whatever the bytes look like (also C01: what was fed is looked at; C06 / C04: errors
       # and EOF are noticed when they arrive)
       ("C18.h11.every-read-parsed", "implies(isinstance(event, RawData), count_calls('H11Protocol._handle_events') == 1)", "C18,C01,C04,C06"),
   ],
   props=("C04", "C13", "C01", "C18"))

STREAM_HANDLE = "(c[0] == 'HTTPStream.handle' or c[0] == 'WSStream.handle')"
fn(H1 + "._handle_events", params={}, task="reader", model_opts={"h11_server_headers_ok": True},
   raises={"H2CProtocolRequiredError": None,
           # C07: the cleartext HTTP/2 preface is not a request: handing over to HTTP/2 must not leave
           # the connection reported busy (nothing would report it idle again until a stream has come
           # and gone, and the server has stopped its keep-alive timer on that report)
           "H2ProtocolAssumedError": {"ensures": [("C07.preface.not-left-busy", "not trace_any('sent', 'x', isinstance(x, Updated) and x.idle == False)", "C07")]}},
   loops={0: {"locals": {"event": "opaque"},
     "iter_ensures": [
       # C04: malformed input (h11 RemoteProtocolError): the connection is closed, and any response
       # head sent for it carries the status h11 hints at
       ("C04.h11.malformed-closes", "implies(n_emitted('h11_err') == 1, last_is('sent', Closed))", "C04,C06"),
       ("C04.h11.malformed-status", "implies(n_emitted('h11_err') == 1, trace_all('h11', 'x', implies(isinstance(x, h11.Response), x.status_code == emitted('h11_err')[0])))", "C04"),
       # C06 "closes after it without processing further requests" / C02: bytes that follow a request
       # which asked to close (or any other input h11 refuses while a request is being answered) must
       # not be answered *in place of* that request: no error response head goes out while a stream
       # is attached whose application has yet to send its own (finding F6c)
       ("C06.error-not-in-place-of-a-pending-response", "implies(n_emitted('h11_err') == 1 and old(self.stream) is not None, not trace_any('h11', 'x', isinstance(x, h11.Response)))", "C06,C02"),
     ],
     "body_ensures": [
       # C01.h11.events: every body event of the parser reaches the stream as the matching stream
       # event with the same bytes; the end of the message as exactly one EndBody
       ("C01.h11.data", "implies(isinstance(event, h11.Data), trace_any('calls', 'c', " + STREAM_HANDLE + " and isinstance(c[2], Body) and c[2].stream_id == 1 and c[2].data == event.data))", "C01"),
       ("C01.h11.end", "implies(isinstance(event, h11.EndOfMessage), trace_any('calls', 'c', " + STREAM_HANDLE + " and isinstance(c[2], EndBody) and c[2].stream_id == 1))", "C01"),
       # C07: the arrival of a request head reports the connection busy (the server stops the
       # keep-alive timer on that report)
       ("C07.h11.busy", "implies(isinstance(event, h11.Request), trace_any('sent', 'x', isinstance(x, Updated) and x.idle == False))", "C07"),
       ("C01.h11.request-once", "implies(isinstance(event, h11.Request), count_calls('H11Protocol._create_stream') == 1 and same(call_args('H11Protocol._create_stream')[1], event))", "C01,C06"),
   ]}},
   props=("C04", "C06", "C07", "C01"))

REQ = "obj h11:Request"

# last_hdr(hs, n, name): stripped latin-1 value of the last of the first n header lines whose
# (stripped, lower-cased) name is `name`; '' if there is none
specfn("last_hdr", ["hs:hdrs", "n:int", "name:str"], rec="n", returns="str",
       base="''",
       step="ite(hs[n - 1][0].decode('latin1').strip().lower() == name, hs[n - 1][1].decode('latin1').strip(), last_hdr(hs, n - 1, name))")

# seen_name(hs, n, name): some of the first n header lines has the (stripped, lower-cased) name
specfn("seen_name", ["hs:hdrs", "n:int", "name:str"], rec="n", returns="bool", base="False",
       step="hs[n - 1][0].decode('latin1').strip().lower() == name or seen_name(hs, n - 1, name)")
H2C_ASKED = ("(last_hdr(event.headers, len(event.headers), 'upgrade').lower() == 'h2c' and not seen_name(event.headers, len(event.headers), 'content-length') "
             "and not seen_name(event.headers, len(event.headers), 'transfer-encoding'))")
PREFACE = "(event.method == b'PRI' and event.target == b'*' and event.http_version == b'2.0')"

fn(H1 + "._check_protocol", params={"event": REQ}, task="reader", model_opts={"h11_server_headers_ok": True},
   requires=[("check.pre.request-just-read.conn", "isinstance(self.connection, h11.Connection)"),
             ("check.pre.request-just-read.state", "self.connection.our_state is h11.SEND_RESPONSE"),
             ("check.pre.request-just-read.no-stream", "self.stream is None")],
   # C13: the switch to HTTP/2 happens exactly for an Upgrade: h2c request without a body (after the
   # 101 has been sent) and for the cleartext preface; an h2c upgrade that carries a body is ignored
   raises={"H2CProtocolRequiredError": {"ensures": [
               ("C13.h2c.only-bodyless", H2C_ASKED, "C13"),
               ("C13.h2c.101-first", "(n_emitted('h11') == 1 and isinstance(emitted('h11')[0], h11.InformationalResponse) and emitted('h11')[0].status_code == 101 "
                "and emitted('h11')[0].headers[-1] == (b'upgrade', b'h2c') and emitted('h11')[0].headers[-2] == (b'connection', b'upgrade')) or self.connection.their_state is h11.ERROR", "C13"),
               ("C13.h2c.request", "count_calls('H2CProtocolRequiredError.__init__') == 1 and same(call_args('H2CProtocolRequiredError.__init__')[2], event)", "C13")]},
           "H2ProtocolAssumedError": {"ensures": [("C13.prior.only-preface", PREFACE + " and not " + H2C_ASKED, "C13")]}},
   loops={0: {"locals": {"name": "bstr", "value": "bstr", "sanitised_name": "str"},
              "invariant": [("C13.check.header-scan", "upgrade_value == last_hdr(event.headers, _i, 'upgrade') "
                             "and has_body == (seen_name(event.headers, _i, 'content-length') or seen_name(event.headers, _i, 'transfer-encoding'))", "C13")]}},
   ensures=[
       # anything that returns normally is neither
       ("C13.prior.not-missed", "not " + PREFACE, "C13"),
       ("C13.h2c.not-missed", "not " + H2C_ASKED, "C13"),
       ("C13.check.silent", "n_emitted('h11') == 0 and n_emitted('sent') == 0", "C13"),
   ],
   props=("C04", "C13"))

# C13: what makes an opening a WebSocket opening, stated on the request alone: a GET whose Upgrade
# header is "websocket" and whose Connection header lists the token "upgrade" (RFC 6455 4.2.1;
# tokens are comma separated with optional whitespace, compared case-insensitively)
WS_OPENING = ("(any(t.strip() == 'upgrade' for t in last_hdr(request.headers, len(request.headers), 'connection').lower().split(',')) "
              "and last_hdr(request.headers, len(request.headers), 'upgrade').lower() == 'websocket' "
              "and request.method.decode('ascii').upper() == 'GET')")

fn(H1 + "._create_stream", params={"request": REQ}, task="reader",
   requires=[("create.pre.no-stream", "self.stream is None"),
             ("create.pre.h11", "isinstance(self.connection, h11.Connection) and self.connection.their_state is not h11.IDLE")],
   loops={0: {"locals": {"name": "bstr", "value": "bstr", "sanitised_name": "str"},
              "invariant": [("C13.h11.header-scan", "upgrade_value == last_hdr(request.headers, _i, 'upgrade') and connection_value == last_hdr(request.headers, _i, 'connection')", "C13")],
              # trusted one-liner about the header scan: a non-empty upgrade_value came from a header
              "exit_assume": ["implies(upgrade_value != '', has_header(request.headers, b'upgrade'))"]}},
   ensures=[
       # C13.select: the Request goes to a WebSocket stream exactly for a WebSocket opening, and to
       # an HTTP stream otherwise
       ("C13.h11.ws-iff-opening", "iff(trace_any('calls', 'c', c[0] == 'WSStream.handle'), " + WS_OPENING + ")", "C13,C11"),
       ("C13.h11.http-otherwise", "iff(trace_any('calls', 'c', c[0] == 'HTTPStream.handle'), not " + WS_OPENING + ")", "C13,C11"),
       # C01.h11.request: one stream object per request, handed one Request event that reports the
       # method (upper-cased), target, version and -- unless raw headers are configured -- the header
       # list as the parser produced them, on stream 1, with the connection's state
       ("C01.h11.request", "count_calls('Stream.handle') == 1 and isinstance(call_args('Stream.handle')[1], Request) and call_args('Stream.handle')[1].stream_id == 1 "
        "and call_args('Stream.handle')[1].method == request.method.decode('ascii').upper() and call_args('Stream.handle')[1].raw_path == request.target "
        "and call_args('Stream.handle')[1].http_version == request.http_version.decode() and same(call_args('Stream.handle')[1].state, self.connection_state)", "C01"),
       ("C01.h11.request.headers", "implies(not self.config.h11_pass_raw_headers, call_args('Stream.handle')[1].headers == request.headers)", "C01"),
       ("C01.h11.request.wiring", "same(call_args('Stream.handle')[0].app, self.app) and same(call_args('Stream.handle')[0].client, self.client) and same(call_args('Stream.handle')[0].server, self.server) "
        "and call_args('Stream.handle')[0].stream_id == 1 and call_args('Stream.handle')[0].scheme == (('wss' if self.ssl else 'ws') if isinstance(call_args('Stream.handle')[0], WSStream) else ('https' if self.ssl else 'http'))", "C01"),
       # C06.close-hdr / C18: the request is counted exactly once, before the application can run
       # C18 "as soon as a worker has taken on more than max_requests": the worker's budget is
       # charged when the request is taken on -- here, not when it finishes
       ("C18.mark.on-arrival", "count_calls('WorkerContext.mark_request') == 1", "C18,C15"),
       ("C06.count", "self.keep_alive_requests == old(self.keep_alive_requests) + 1", "C06,C18"),
   ],
   props=("C04", "C01", "C06", "C11", "C18", "C13"))

fn(H1 + "._maybe_recycle", params={}, task="app",
   ensures=[
       # C06.recycle: the connection is reused only if request and response were both complete and
       # shutdown has not begun; otherwise it is closed
       # C06 "otherwise ... closes after it without processing further requests": a connection the
       # server has reported gone (EOF, reset, failed write) is not reused for the next pipelined request
       ("C06.recycle.not-after-closed", "implies(old(self.g_closed), not trace_any('h11', 'x', x == 'start_next_cycle'))", "C06,C03"),
       ("C06.recycle.only-when-done", "implies(trace_any('h11', 'x', x == 'start_next_cycle'), not old(self.context.terminated.flag))", "C06,C15"),
       ("C06.recycle.or-close", "trace_any('h11', 'x', x == 'start_next_cycle') or trace_any('sent', 'x', isinstance(x, Closed))", "C06,C07,C05"),
       ("C07.h11.idle-after-recycle", "implies(trace_any('h11', 'x', x == 'start_next_cycle'), trace_any('sent', 'x', isinstance(x, Updated) and x.idle == True))", "C07"),
       ("C06.recycle.resumes-reader", "self.can_read.flag or yielded()", "C06,C07"),
   ],
   props=("C06", "C07", "C15", "C03"))

fn(H1 + ".stream_send", params={"event": _ev.STREAM_EVENTS}, task="app",
   raises={"h11.LocalProtocolError": None},
   ensures=[
       # C06.close-hdr: "connection: close" is announced exactly when the per-connection maximum is reached
       # (one h11 event per stream event -- unless h11 refuses it because the client side is in ERROR,
       # which _send_h11_event swallows: nothing can be sent on such a connection any more)
       ("C02.h11.body", "implies(isinstance(event, Body), (n_emitted('h11') == 1 or (isinstance(self.connection, h11.Connection) and self.connection.their_state is h11.ERROR)) and trace_all('h11', 'x', isinstance(x, h11.Data) and x.data == event.data))", "C02"),
       ("C02.h11.end", "implies(isinstance(event, EndBody), (n_emitted('h11') == 1 or (isinstance(self.connection, h11.Connection) and self.connection.their_state is h11.ERROR)) and trace_all('h11', 'x', isinstance(x, h11.EndOfMessage)))", "C02"),
       ("C02.h11.raw", "trace_all('sent', 'x', isinstance(x, (RawData, Closed, Updated)))", "C02"),
       # C02.h11.headers: the application's headers come first, in order
       ("C02.h11.headers-first", "implies(isinstance(event, Response), (n_emitted('h11') == 1 or (isinstance(self.connection, h11.Connection) and self.connection.their_state is h11.ERROR)) and trace_all('h11', 'x', starts_with_seq(x.headers, event.headers)))", "C02"),
       # ... and a 1xx stays a 1xx, a final status a final response (one response head per Response event)
       ("C02.h11.kind", "implies(isinstance(event, Response), trace_all('h11', 'x', isinstance(x, h11.Response) == (event.status_code >= 200) and isinstance(x, h11.InformationalResponse) == (event.status_code < 200)))", "C02"),
       # WebSocket frames (Data events) go to the transport unchanged
       ("C10.h11.data-raw", "implies(isinstance(event, Data), n_emitted('sent') == 1 and isinstance(emitted('sent')[0], RawData) and emitted('sent')[0].data == event.data)", "C10,C02"),
       # C06.close-hdr / C18.ka.h11: close is announced on the response that reaches the maximum
       ("C18.ka.h11", "implies(isinstance(event, Response) and event.status_code >= 200 and old(self.keep_alive_requests) >= self.config.keep_alive_max_requests, "
        "trace_all('h11', 'x', x.headers[-1] == (b'connection', b'close')))", "C18,C06"),
       ("C02.h11.status", "implies(isinstance(event, Response), trace_all('h11', 'x', x.status_code == event.status_code))", "C02"),
       # C12 "raises an error into the application": what h11 refuses to send (a body before a final
       # head, more body than declared ...) is raised into the application -- a call that returns
       # normally after a refusal has swallowed it, which is right only when the client side is in
       # ERROR (its input was malformed and the connection is being torn down anyway)
       ("C12.h11.refusal-reaches-the-application", "implies(n_emitted('h11_refused') >= 1, isinstance(self.connection, h11.Connection) and self.connection.their_state is h11.ERROR)", "C12"),
       # C02 "followed only by the server's own ... headers" / C11 "accept gives 101 ... and the extra
       # headers": an informational response (the WebSocket 101) carries the stream's headers and the
       # server's own, nothing else -- no `connection: close` next to its `connection: upgrade`
       ("C11.h11.1xx-no-close", "implies(isinstance(event, Response) and event.status_code < 200, "
        "trace_all('h11', 'x', len(x.headers) == len(event.headers) + len(call_result('Config.response_headers'))))", "C11,C02,C06"),
   ],
   props=("C02", "C06", "C12"))

fn(H1 + ".__init__",
   params={"app": "opaque", "config": "obj hypercorn.config:Config", "context": "obj hypercorn.typing:WorkerContext", "task_group": "obj hypercorn.typing:TaskGroup",
           "connection_state": "opaque", "ssl": "bool", "client": "opaque", "server": "opaque", "send": "opaque"},
   ensures=[("C18.h11.size", "isinstance(self.connection, h11.Connection) and self.connection.max_incomplete_event_size == config.h11_max_incomplete_size", "C18"),
            ("H11.init", "self.stream is None and self.keep_alive_requests == 0 and isinstance(self.connection, h11.Connection) and self.connection.their_state is h11.IDLE and self.connection.our_state is h11.IDLE", "C06")],
   props=("C18", "C06"))

cls(M + "H2CProtocolRequiredError", fields={"data": "bytes", "headers": "hdrs", "settings": "str"})
# what the switch carries over: the unconsumed bytes, and the upgrade request as an HTTP/2 header
# list (method and target as pseudo-headers first, then every header line in order)
# h2c_hdrs(hs, n): the first n header lines of the upgrade request as HTTP/2 stream 1 gets them --
# every line, in order, each host line preceded by an :authority pseudo-header with its value
# (C13 "no client byte is lost or duplicated across a switch": no header line is lost either)
specfn("h2c_hdrs", ["hs:hdrs", "n:int"], rec="n", returns="hdrs", base="[]",
       step="h2c_hdrs(hs, n - 1) + ite(hs[n - 1][0].lower() == b'host', [(b':authority', hs[n - 1][1])], []) + [hs[n - 1]]")


def _h2c_native_args(rng):
    import h11

    names = [b"host", b"cookie", b"x-forwarded-for", b"accept", b"http2-settings", b"upgrade", b"connection"]
    hs = [(b"host", b"example.com")] + [(rng.choice(names[1:]), rng.choice([b"a", b"b", b"c=1", b"AAMAAABkAAQAAP__", b"h2c"])) for _ in range(rng.randrange(0, 6))]
    rng.shuffle(hs)
    req = h11.Request(method="GET", target=b"/p", headers=hs)
    from hypercorn.protocol.h11 import H2CProtocolRequiredError

    # the bytes that follow the upgrade request: anything, in particular what a client that does not
    # wait for the 101 sends next (the HTTP/2 client preface and its first frames)
    data = rng.choice([b"", b"xyz", b"PRI * HTTP/2.0\r\n\r\nSM\r\n\r\n", b"PRI * HTTP/2.0\r\n\r\nSM\r\n\r\n\x00\x00\x00\x04\x00\x00\x00\x00\x00",
                       b"PRI * HTTP/2.0\r\n", b"GET / HTTP/1.1\r\n\r\n", b"\x00\x00\x00\x04\x00\x00\x00\x00\x00"])
    return {"self": H2CProtocolRequiredError.__new__(H2CProtocolRequiredError), "data": data, "request": req}


def _h2c_native_oracle(args, result, exc=None):
    """self.headers == [(:method), (:path)] + every header line in order, each host line preceded by :authority"""
    if exc is not None:
        return isinstance(exc, UnicodeDecodeError)
    me, req = args["self"], args["request"]
    want = [(b":method", req.method), (b":path", req.target)]
    for n, v in req.headers:
        if n.lower() == b"host":
            want.append((b":authority", v))
        want.append((n, v))
    return list(me.headers) == want and me.data == args["data"]


fn(M + "H2CProtocolRequiredError.__init__", params={"data": "bytes", "request": REQ},
   raises={"UnicodeDecodeError": None},
   model_opts={"native_args": _h2c_native_args, "native_oracle": _h2c_native_oracle, "native_oracle_name": "C13.h2c.error.all-headers (native oracle)"},
   loops={0: {"locals": {"name": "bstr", "value": "bstr", "headers": "hdrs", "settings": "str"},
              "invariant": [("C13.h2c.error.scan", "headers == [(b':method', request.method), (b':path', request.target)] + h2c_hdrs(request.headers, _i)", "C13")]}},
   ensures=[("C13.h2c.error.data", "self.data == data", "C13"),
            ("C13.h2c.error.pseudo", "self.headers[0] == (b':method', request.method) and self.headers[1] == (b':path', request.target)", "C13"),
            # every header line of the upgrade request reaches stream 1, in order (repeated names included)
            ("C13.h2c.error.all-headers", "self.headers == [(b':method', request.method), (b':path', request.target)] + h2c_hdrs(request.headers, len(request.headers))", "C13,C01")],
   props=("C13", "C04"))
cls(M + "H2ProtocolAssumedError", fields={"data": "bytes"})

# ------------------------------------------------------------------------------ ProtocolWrapper
# The wrapper is a dispatcher: it sees the two protocol classes only through these ports (their
# own contracts are discharged above and in d_h2_protocol.py).  g_eof_fed: RawData(b'') has been
# handed over (H11Protocol.handle's own precondition says the same with h11's recv_closed flag).
PW = "hypercorn.protocol:ProtocolWrapper"
H1PORT, H2PORT = "pyvc:H11Port", "pyvc:H2Port"
cls(H1PORT, fields={}, ghost={"g_eof_fed": "bool"}, interface=True, view_of=H1,
    rely=[("H11Port.rely.eof", "self.g_eof_fed == old(self.g_eof_fed)", "C13")])
cls(H2PORT, fields={}, ghost={"g_initiated": "bool"}, interface=True, view_of="hypercorn.protocol.h2:H2Protocol",
    rely=[("H2Port.rely.initiated", "implies(old(self.g_initiated), self.g_initiated)", "C13")])
fn(H1PORT + ".initiate", params={}, effect="yields", assume_only=True, trusted_reason="interface of H11Protocol.initiate as seen by the wrapper")
fn(H1PORT + ".handle", params={"event": _ev.IO_EVENTS}, effect="yields", assume_only=True,
   requires=[("h11port.handle.pre.no-data-after-eof", "implies(isinstance(event, RawData) and self.g_eof_fed, len(event.data) == 0)")],
   raises={"H2CProtocolRequiredError": None, "H2ProtocolAssumedError": None},
   ghost_post=["self.g_eof_fed = self.g_eof_fed or (isinstance(event, RawData) and len(event.data) == 0)"],
   trusted_reason="interface of H11Protocol.handle as seen by the wrapper (its contract: fn H11Protocol.handle)")
fn(H2PORT + ".initiate", params={"headers": "opaque", "settings": "opaque"}, model_opts={"defaults": {"headers": None, "settings": None}},
   effect="yields", assume_only=True, ghost_post=["self.g_initiated = True"],
   trusted_reason="interface of H2Protocol.initiate as seen by the wrapper (findings F13/F13b are obligations of H2Protocol.initiate itself)")
fn(H2PORT + ".handle", params={"event": _ev.IO_EVENTS}, effect="yields", assume_only=True,
   requires=[("h2port.handle.pre.initiated", "self.g_initiated")],
   trusted_reason="interface of H2Protocol.handle as seen by the wrapper")
PW_VIEWS = {"views": {H1: H1PORT, "hypercorn.protocol.h2:H2Protocol": H2PORT}}

cls(PW, fields={"app": "opaque", "config": "obj hypercorn.config:Config", "context": "obj hypercorn.typing:WorkerContext",
                "task_group": "obj hypercorn.typing:TaskGroup", "ssl": "bool", "client": "opaque", "server": "opaque", "send": "opaque",
                "state": "opaque", "protocol": "obj " + H1PORT + " | obj " + H2PORT},
    callbacks={"send": Callback(name="send", effect="yields", record="sent")},
    # only the reader task (handle) swaps the protocol object
    task_stable={"reader": ["protocol"]})

fn(PW + ".__init__", model_opts=PW_VIEWS,
   params={"app": "opaque", "config": "obj hypercorn.config:Config", "context": "obj hypercorn.typing:WorkerContext", "task_group": "obj hypercorn.typing:TaskGroup",
           "state": "opaque", "ssl": "bool", "client": "opaque", "server": "opaque", "send": "opaque", "alpn_protocol": "opt str"},
   ensures=[("C13.alpn", "isinstance(self.protocol, H2Protocol) == (alpn_protocol == 'h2')", "C13"),
            ("C13.alpn.h11", "isinstance(self.protocol, H11Protocol) == (alpn_protocol != 'h2')", "C13"),
            # the protocol gets exactly what the server handed to the wrapper
            ("C13.alpn.wiring", "same(call_args('Protocol.__init__')[1], app) and same(call_args('Protocol.__init__')[2], config) and same(call_args('Protocol.__init__')[3], context) "
             "and same(call_args('Protocol.__init__')[4], task_group) and same(call_args('Protocol.__init__')[5], state) and call_args('Protocol.__init__')[6] == ssl "
             "and same(call_args('Protocol.__init__')[7], client) and same(call_args('Protocol.__init__')[8], server)", "C13,C14")],
   props=("C13",))

fn(PW + ".initiate", params={}, task="reader", model_opts=PW_VIEWS,
   ensures=[("C13.initiate.delegates", "call_index('Port.initiate') >= 0", "C13")], props=("C13",))

# what the wrapper needs from the two protocols
fn(PW + ".handle", params={"event": _ev.IO_EVENTS}, task="reader", model_opts=PW_VIEWS,
   requires=[("wrapper.handle.pre.no-data-after-eof", "implies(isinstance(event, RawData) and isinstance(self.protocol, H11Protocol) and self.protocol.g_eof_fed, len(event.data) == 0)"),
             ("wrapper.handle.pre.initiated", "implies(isinstance(self.protocol, H2Protocol), self.protocol.g_initiated)")],
   ensures=[
       # C13.handover: after a protocol switch the wrapper holds a new, initiated HTTP/2 protocol
       # that has been given exactly the bytes h11 had not consumed, once, and only if there are any
       ("C13.handover.h2", "implies(call_index('H2Port.initiate') >= 0, isinstance(self.protocol, H2Protocol) and self.protocol.g_initiated and not same(self.protocol, old(self.protocol)))", "C13"),
       ("C13.no-switch-keeps", "implies(call_index('H2Port.initiate') < 0, same(self.protocol, old(self.protocol)))", "C13"),
       # (C06 / C04: this includes the empty read that stands for the peer's EOF -- h11 learns that the
       # client is gone, and with it whether the connection may be reused, from nothing else)
       ("C13.handover.event-first", "call_index('Port.handle') == 0 and same(call_args('Port.handle')[0], old(self.protocol)) and same(call_args('Port.handle')[1], event)", "C13,C06,C04"),
       # ... the bytes: everything h11 had buffered and not consumed travels in the exception (they
       # may have arrived in earlier reads than the one that completed the preface / the upgrade
       # request), and that -- not the read that triggered the switch -- is what HTTP/2 is given
       ("C13.handover.bytes", "implies(call_index('H2Port.initiate') >= 0, "
        "count_calls('H2Port.handle') == (1 if len(call_raised('H11Port.handle').data) != 0 else 0) "
        "and implies(count_calls('H2Port.handle') == 1, isinstance(call_args('H2Port.handle')[1], RawData) and call_args('H2Port.handle')[1].data == call_raised('H11Port.handle').data))", "C13,C01"),
       ("C13.handover.h2c-request", "implies(call_index('H2Port.initiate') >= 0 and isinstance(call_raised('H11Port.handle'), H2CProtocolRequiredError), "
        "same(call_args('H2Port.initiate')[1], call_raised('H11Port.handle').headers) and same(call_args('H2Port.initiate')[2], call_raised('H11Port.handle').settings))", "C13"),
       ("C13.handover.only-after-h11-says-so", "implies(call_index('H2Port.initiate') >= 0, isinstance(old(self.protocol), H11Protocol))", "C13"),
   ],
   props=("C04", "C13"))
