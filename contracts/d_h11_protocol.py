"""H11Protocol / H11WSConnection / ProtocolWrapper (hypercorn/protocol/h11.py, __init__.py):
C06 keep-alive and pipelining, C07 idle reporting, C13 protocol selection, C02 h11 headers, C18."""
from pyvc.contracts import Callback, cls, fn

import importlib.util as _u, os as _o
_s = _u.spec_from_file_location("a_events", _o.path.join(_o.path.dirname(__file__), "a_events.py"))
_ev = _u.module_from_spec(_s); _s.loader.exec_module(_ev)

M = "hypercorn.protocol.h11:"
H1 = M + "H11Protocol"
WC = M + "H11WSConnection"
STREAM = "obj hypercorn.protocol.http_stream:HTTPStream | obj hypercorn.protocol.ws_stream:WSStream"

# ------------------------------------------------------------------------------ H11WSConnection
cls(WC, fields={"buffer": "bytes", "h11_connection": "obj M_h11"},
    ghost={"g_fed": "bytes", "g_delivered": "bytes"},
    # C10.passthrough / C13: no byte lost or duplicated across the upgrade
    inv=[("C10.passthrough", "cat(self.g_delivered, self.buffer) == self.g_fed", "C10,C13")])

fn(WC + ".receive_data", params={"data": "bytes"}, modifies=["self.buffer", "self.g_fed"], effect="atomic",
   ghost_pre=["self.g_fed = cat_(self.g_fed, data)"],
   ensures=[("wsconn.receive", "self.buffer == cat(old(self.buffer), data)", "C10")], props=("C10", "C13"))
fn(WC + ".next_event", params={}, modifies=["self.buffer", "self.g_delivered"], effect="atomic",
   ensures=[("wsconn.next.data", "implies(len(old(self.buffer)) > 0, isinstance(result, Data) and result.data == old(self.buffer) and len(self.buffer) == 0)", "C10"),
            ("wsconn.next.need", "implies(len(old(self.buffer)) == 0, result is h11.NEED_DATA)", "C10")],
   ghost_post=["self.g_delivered = cat_(self.g_delivered, result.data) if isinstance(result, Data) else self.g_delivered"],
   props=("C10", "C13"))

# ------------------------------------------------------------------------------ H11Protocol
cls(
    H1,
    fields={
        "app": "opaque", "can_read": "Event", "client": "opaque", "config": "obj hypercorn.config:Config",
        "connection": "obj M_h11 | obj " + WC, "context": "obj hypercorn.typing:WorkerContext", "keep_alive_requests": "int",
        "send": "opaque", "server": "opaque", "ssl": "bool", "stream": "opt " + STREAM,
        "task_group": "obj hypercorn.typing:TaskGroup", "connection_state": "opaque",
    },
    ghost={"g_requests": "nat"},
    callbacks={"send": Callback(name="send", effect="yields", record="sent")},
    inv=[
        # C06.serial: a new request can only be parsed (client IDLE) when no stream is attached
        ("C06.serial", "implies(isinstance(self.connection, h11.Connection) and self.connection.their_state is h11.IDLE, self.stream is None)", "C06"),
        ("C18.ka.count", "self.keep_alive_requests >= 0", "C18"),
    ],
    rely=[("H11.rely.requests-monotone", "self.keep_alive_requests >= old(self.keep_alive_requests)", "C06,C18")],
    task_stable={"reader": ["connection"]},
)

fn(H1 + "._send_h11_event", params={"event": "opaque"}, inline=True, props=("C02",))
fn(H1 + "._close_stream", params={}, inline=True, props=("C03",))
fn(H1 + "._send_error_response", params={"status_code": "int"}, inline=True, props=("C04",))

fn(H1 + ".handle", params={"event": _ev.IO_EVENTS}, task="reader",
   raises={"H2CProtocolRequiredError": None, "H2ProtocolAssumedError": None},
   props=("C04", "C13"))

fn(H1 + "._handle_events", params={}, task="reader",
   raises={"H2CProtocolRequiredError": None, "H2ProtocolAssumedError": None},
   props=("C04", "C06", "C07", "C01"))
