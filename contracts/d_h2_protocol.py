"""H2Protocol (hypercorn/protocol/h2.py): C04 (no client input causes an internal error), C05
(reset on failure), C08 (release), C09 (flow control, liveness surrogates), C18 (limits)."""
from pyvc.contracts import Callback, cls, fn

H2 = "hypercorn.protocol.h2:H2Protocol"
STREAM = "obj hypercorn.protocol.http_stream:HTTPStream | obj hypercorn.protocol.ws_stream:WSStream"

cls(
    H2,
    fields={
        "app": "opaque", "client": "opaque", "closed": "bool", "config": "obj hypercorn.config:Config",
        "context": "obj hypercorn.typing:WorkerContext", "task_group": "obj hypercorn.typing:TaskGroup",
        "connection_state": "opaque", "connection": "obj M_h2", "keep_alive_requests": "int", "send": "opaque",
        "server": "opaque", "ssl": "bool", "streams": "map " + STREAM, "has_data": "Event",
        "priority": "obj M_prio", "stream_buffers": "map obj hypercorn.protocol.h2:StreamBuffer",
    },
    callbacks={"send": Callback(name="send", effect="yields", record="sent")},
    inv=[
        # I1: every stream that has a send buffer is in the priority tree
        ("H2.inv.I1", "forall_int('k', implies(in_map(self.stream_buffers, k), sel(self.priority.has, k)))", "C04,C09,C02"),
        # I2: every schedulable (unblocked) stream has a send buffer
        ("H2.inv.I2", "forall_int('k', implies(k != 0 and sel(self.priority.has, k) and sel(self.priority.active, k), in_map(self.stream_buffers, k)))", "C04,C09,C02"),
        ("H2.inv.no-zero", "not in_map(self.stream_buffers, 0)", "C04"),
        ("H2.inv.has_data-clearable", "not self.has_data.g_sticky", "C09"),
    ],
    rely=[("H2.rely.closed-monotone", "implies(old(self.closed), self.closed)", "C03,C07"),
          # C18: the counter the keep-alive limit is decided on never goes down (it counts requests
          # taken on, whatever becomes of them)
          ("H2.rely.requests-monotone", "self.keep_alive_requests >= old(self.keep_alive_requests)", "C18")],
    task_rely={
        # only the reader registers client-initiated (odd) streams; application tasks register pushed
        # (even) ones.  (The request counter is also bumped by pushes, so the reader only relies on
        # its being monotone.)
        "reader": [("H2.rely[reader].client-streams", "forall_int('k', implies(k % 2 == 1 and in_map(self.streams, k), in_map(old(self.streams), k)))", "C03")],
        # only the send task removes send buffers
        "send": [("H2.rely[send].buffers-stay", "forall_int('k', implies(in_map(old(self.stream_buffers), k), in_map(self.stream_buffers, k)))", "C04,C09")],
    },
)

# h2's close_connection() sends GOAWAY *and* closes h2's connection state machine: every later
# send_headers / send_data / end_stream raises ProtocolError (which the callers swallow as "stream
# gone").  So "a request that completes within the grace period is delivered in full" (C15) and "one
# more on HTTP/2 [is] served" (C18) need: GOAWAY only when nothing is left to send.
# C15 "new HTTP/2 streams are refused": a request is taken on only if shutdown has not begun at
# that moment (a flag read before an earlier suspension does not count)
NOT_AFTER_SHUTDOWN = {"H2Protocol._create_stream": [("C15.h2.no-new-stream-after-shutdown", "not self.context.terminated.is_set()", "C15")]}
GOAWAY_LAST = {"H2Connection.close_connection": [("C15.h2.goaway-after-last", "forall_int('k', not in_map(self.stream_buffers, k))", "C15,C18,C09")]}
fn(H2 + "._flush", params={}, modifies=[], effect="yields",
   ensures=[("flush.forwards", "trace_all('sent', 'x', isinstance(x, RawData))", "C02")], props=("C04",))

fn(H2 + "._send_data", params={"stream_id": "int"}, task="send",
   # C08.release / C09: a stream is taken out of scheduling only on what is true *now*: nothing to
   # send, or no window.  (Blocking on a window value read before a suspension loses the wake-up of
   # a WINDOW_UPDATE handled in between: nobody unblocks a stream that was not yet blocked.)
   model_opts={"call_requires": {"PriorityTree.block": [("C08.block.current",
       "h2_window(self.connection, stream_id) <= 0 or h2_max_frame(self.connection) <= 0 or len(map_val(self.stream_buffers, stream_id).buffer) == 0", "C08,C09,C02")],
       # C05 "never bytes that parse as a complete response": END_STREAM goes out only for a
       # stream whose layer asked for it (EndBody / EndData), never for a buffer that was closed
       "H2Connection.end_stream": [("C05.h2.no-false-end", "map_val(self.stream_buffers, stream_id).g_end_requested", "C05,C02"),
                                   # C09: END_STREAM only after all of the stream's data has gone out
                                   ("C09.end.after-all-data", "len(map_val(self.stream_buffers, stream_id).buffer) == 0", "C09,C02")]}},
   requires=[("send_data.pre.scheduled", "stream_id != 0 and sel(self.priority.has, stream_id) and in_map(self.stream_buffers, stream_id)")],
   ensures=[
       ("C09.order.same-stream", "trace_all('h2', 'x', x[1] == stream_id)", "C09,C02"),
       # END_STREAM needs no flow-control credit: a call that ran without suspending does not
       # leave a registered buffer that is sealed and empty -- it has ended the stream (C05: also
       # the body-less 500 of a failed application is terminated promptly, whatever the windows)
       ("C09.end.when-complete", "yielded() or not in_map(self.stream_buffers, stream_id) "
        "or not (map_val(self.stream_buffers, stream_id)._complete and len(map_val(self.stream_buffers, stream_id).buffer) == 0)", "C09,C05,C02,C04,C08"),
       # what goes out as DATA is exactly what was taken from the head of the stream's buffer
       ("C09.data-is-popped", "trace_all('h2', 'x', implies(x[0] == 'send_data', x[2] == call_result('StreamBuffer.pop')))", "C09,C02"),
       # exactly one END_STREAM: it is the last thing sent for the stream, and the send buffer is
       # unregistered with it, so the stream is never scheduled (or ended) again
       ("C09.end-once", "implies(trace_any('h2', 'x', x[0] == 'end_stream'), emitted('h2')[n_emitted('h2') - 1][0] == 'end_stream' "
        "and not in_map(self.stream_buffers, stream_id))", "C09,C02"),
   ],
   props=("C04", "C09"))

import importlib.util as _u, os as _o
_s = _u.spec_from_file_location("a_events", _o.path.join(_o.path.dirname(__file__), "a_events.py"))
_ev = _u.module_from_spec(_s); _s.loader.exec_module(_ev)

fn(H2 + ".send_task", params={}, task="send",
   loops={0: {"locals": {"stream_id": "int"},
              # C09 "quiescent rather than spinning": every round of the send task either sends for a
              # schedulable stream or waits for the has_data signal (and re-arms it) -- never neither
              "body_ensures": [("C09.quiescent", "count_calls('H2Protocol._send_data') == 1 or (count_calls('Event.wait') == 1 and count_calls('Event.clear') == 1 "
                                "and call_index('Event.wait') < call_index('Event.clear'))", "C09,C08")]}},
   props=("C04", "C09"))

fn(H2 + ".handle", params={"event": _ev.IO_EVENTS}, task="reader",
   loops={0: {"invariant": [("handle.loop.closed", "self.closed"),
                            # the streams still registered are among those not yet closed by this loop
                            # (only the reader task -- this one -- registers request streams)
                            ("C03.h2.close-all.loop", "forall_int('k', implies(k % 2 == 1 and in_map(self.streams, k), in_map(old(self.streams), k) and key_pos(_it, k) >= _i))", "C03")]}},
   ensures=[
       ("C03.h2.closed-flag", "implies(isinstance(event, Closed), self.closed)", "C03,C07"),
       # C03 (per HTTP/2 stream): when the connection is reported closed -- however often -- every
       # stream that exists is closed (each gets its StreamClosed, hence its disconnect)
       ("C03.h2.close-all", "implies(isinstance(event, Closed), forall_int('k', implies(k % 2 == 1, not in_map(self.streams, k))))", "C03,C07"),
       # C08 "whenever ... the connection closes, every waiting send returns promptly": the send task
       # stops when the connection is closed, so nothing would ever release a sender blocked in
       # push()/drain() on a buffer that stays registered: when Closed has been handled no send
       # buffer is left (each was closed -- which releases its waiters -- and dropped)
       ("C08.release.on-close", "implies(isinstance(event, Closed), forall_int('k', not in_map(self.stream_buffers, k)))", "C08,C07"),
       # C01.h2.feed: what was read is what h2 gets, once
       ("C01.h2.feed", "implies(isinstance(event, RawData), n_emitted('h2_in') == 1 and emitted('h2_in')[0] == event.data)", "C01,C10"),
       # C04: a protocol violation ends the connection: what h2 queued (GOAWAY) is flushed, then Closed
       ("C04.h2.violation-closes", "implies(isinstance(event, RawData) and not trace_any('calls', 'c', c[0] == 'H2Protocol._handle_events'), "
        "count_calls('H2Protocol._flush') == 1 and last_is('sent', Closed))", "C04"),
   ],
   props=("C04",))

# C09 / C08 "none waits forever": whoever waits for a send buffer to drain has, in the same atomic
# step, made the stream schedulable and woken the send task -- drain() returns only when the send
# task pops the buffer empty, and nothing else will make it look at the stream (a buffer that never
# held data is not "empty" until a pop has said so)
DRAIN_WOKEN = {"StreamBuffer.drain": [("C09.drain.send-task-woken", "sel(self.priority.active, event.stream_id) and self.has_data.flag", "C09,C02,C08")]}
fn(H2 + ".stream_send", params={"event": _ev.STREAM_EVENTS}, task="app", model_opts={"call_requires": dict(GOAWAY_LAST, **DRAIN_WOKEN),
               # an exception out of stream_send is raised into the application (C03 "messages an application
               # sends after closure are accepted silently instead of raising") as well as a C04 matter
               "exception_props": ("C04", "C03")},
   requires=[("stream_send.pre.sid", "event.stream_id > 0")],
   ensures=[
       # C05 ("HTTP/2: the stream is reset"): when a stream layer reports that it is finished the
       # HTTP/2 stream does not stay open for ever: it was ended or reset, or the connection is
       # closed, or the end of the stream has been requested (EndBody / EndData came first) so that
       # the send task ends it once drained.  After an application failure nothing has requested
       # the end, so only a reset satisfies the clause.
       # C02 (HTTP/2): the response head carries :status first, then the application's headers in
       # order, then the server's own; one HEADERS per Response event unless h2 refuses it (stream
       # or connection already closed / header validation), which stream_send swallows
       ("C02.h2.headers", "implies(isinstance(event, (InformationalResponse, Response)), (n_emitted('h2') == 1 or n_emitted('h2_refused') >= 1) "
        "and implies(n_emitted('h2') == 1, emitted('h2')[0][0] == 'send_headers' and emitted('h2')[0][1] == event.stream_id "
        "and emitted('h2')[0][2][0] == (b':status', b'%d' % event.status_code) and starts_with_seq(emitted('h2')[0][2][1:], event.headers)))", "C02"),
       # C02 / C12: a response head h2 refuses (a connection-specific header such as
       # `connection: keep-alive`, upper-case names ...) is neither delivered nor reported: the
       # ProtocolError is swallowed as "connection has closed".  A call that returns normally for a
       # Response on an open stream has put the head on the wire
       ("C02.h2.head-not-swallowed", "implies(isinstance(event, (InformationalResponse, Response)) and h2_sendable(old(self.connection), event.stream_id), n_emitted('h2') == 1)", "C02,C12"),
       # ... body bytes go to the stream's send buffer unchanged (unless the stream is gone)
       ("C02.h2.body", "implies(isinstance(event, (Body, Data)) and in_map(old(self.stream_buffers), event.stream_id) and sel(old(self.priority.has), event.stream_id), "
        "count_calls('StreamBuffer.push') == 1 and call_args('StreamBuffer.push')[1] == event.data)", "C02,C10"),
       ("C02.h2.end", "implies(isinstance(event, (EndBody, EndData)) and in_map(old(self.stream_buffers), event.stream_id), count_calls('StreamBuffer.set_complete') == 1)", "C02"),
       ("C02.h2.trailers", "implies(isinstance(event, Trailers) and n_emitted('h2') == 1, emitted('h2')[0][0] == 'send_headers' and emitted('h2')[0][1] == event.stream_id and emitted('h2')[0][2] == event.headers)", "C02"),
       # C02 "trailers are emitted ... on HTTP/2+ to clients that sent te: trailers": h2 accepts a
       # second header block on a stream only with END_STREAM; without it the block is refused
       # *after* it went through the HPACK encoder, the error is swallowed here, the trailers are
       # lost and every later response of the connection is undecodable for the client (finding F2c)
       ("C02.h2.trailers-end-stream", "implies(isinstance(event, Trailers) and n_emitted('h2') == 1, emitted('h2')[0][3] == True)", "C02"),
       # C07 (HTTP/2): the end of a stream is reported together with the connection's idleness
       ("C07.h2.idle-report", "implies(isinstance(event, StreamClosed) and n_emitted('h2_refused') == 0, last_is('sent', Updated))", "C07"),
       ("C05.h2.reset", "implies(isinstance(event, StreamClosed), not h2_sendable(self.connection, event.stream_id) "
        "or (in_map(self.stream_buffers, event.stream_id) and map_val(self.stream_buffers, event.stream_id).g_end_requested))", "C05"),
   ],
   props=("C04", "C05"))

fn(H2 + "._handle_events", params={"events": "obj pyvc:H2Events"}, task="reader", model_opts={"call_requires": dict(GOAWAY_LAST, **NOT_AFTER_SHUTDOWN)},
   loops={0: {"body_ensures": [
       # C01/C09: every DATA frame is acknowledged for flow control with its flow-controlled
       # length, whether or not its stream still exists (otherwise the connection window drains)
       ("C09.ack", "implies(isinstance(event, h2.events.DataReceived), trace_any('h2', 'x', x[0] == 'ack' and x[1] == event.stream_id and x[2] == event.flow_controlled_length))", "C09,C04,C01,C05"),
       # C01.h2.data / C01.h2.end: the body bytes of a DATA frame and the end of the request
       # (h2 reports it as a StreamEnded event of its own, whichever frame carried END_STREAM --
       # DATA, HEADERS or trailers) reach the stream object if it still exists
       ("C01.h2.data", "implies(isinstance(event, h2.events.DataReceived) and in_map(self.streams, event.stream_id), "
        "trace_any('calls', 'c', (c[0] == 'HTTPStream.handle' or c[0] == 'WSStream.handle') and isinstance(c[2], Body) and c[2].stream_id == event.stream_id and c[2].data == event.data))", "C01,C10"),
       ("C01.h2.end", "implies(isinstance(event, h2.events.StreamEnded) and in_map(self.streams, event.stream_id), "
        "trace_any('calls', 'c', (c[0] == 'HTTPStream.handle' or c[0] == 'WSStream.handle') and isinstance(c[2], EndBody) and c[2].stream_id == event.stream_id))", "C01"),
       # C08 "whenever ... the stream is reset ... every waiting send returns promptly": a sender
       # blocked on the reset stream's buffer is released by the send task (h2 refuses the stream,
       # _send_data closes the buffer), so the stream must be schedulable and the send task woken
       ("C08.release.on-reset", "implies(isinstance(event, h2.events.StreamReset) and in_map(self.stream_buffers, event.stream_id), "
        "sel(self.priority.active, event.stream_id) and self.has_data.flag)", "C08,C09"),
       # C08 / C09 "whenever the pressure abates ... every waiting send returns": credit also arrives
       # as a changed SETTINGS_INITIAL_WINDOW_SIZE (RFC 9113 6.9.2: the difference is added to every
       # stream window): every such change makes the blocked streams schedulable again
       ("C09.wake.settings", "implies(isinstance(event, h2.events.RemoteSettingsChanged) and (h2.settings.SettingCodes.INITIAL_WINDOW_SIZE in event.changed_settings), "
        "count_calls('H2Protocol._window_updated') >= 1)", "C09,C08,C02"),
       # C07 (HTTP/2): every request that is taken on reports the connection busy, whatever the
       # other streams are doing (the server stops the keep-alive timer on that report)
       ("C07.h2.busy", "implies(isinstance(event, h2.events.RequestReceived) and count_calls('H2Protocol._create_stream') >= 1, "
        "trace_any('sent', 'x', isinstance(x, Updated) and x.idle == False))", "C07"),
       # C18.ka.h2: one more than keep_alive_max_requests are served, then the peer is told to go away
       ("C18.ka.h2", "implies(isinstance(event, h2.events.RequestReceived) and self.keep_alive_requests > self.config.keep_alive_max_requests, trace_any('h2', 'x', x[0] == 'close_connection'))", "C18"),
       ("C18.ka.h2.not-early", "implies(isinstance(event, h2.events.RequestReceived) and self.keep_alive_requests <= self.config.keep_alive_max_requests, not trace_any('h2', 'x', x[0] == 'close_connection'))", "C18"),
       # C15.h2: once shutdown has begun new streams are refused and the limit drops to zero
       ("C15.h2.refuse", "implies(isinstance(event, h2.events.RequestReceived) and trace_any('h2', 'x', x[0] == 'reset_stream'), trace_any('h2', 'x', x[0] == 'update_settings'))", "C15"),
   ]}},
   props=("C04",))

# C09 / C02 "each ... stream's data is delivered completely ... followed by exactly one END_STREAM":
# a stream may answer from inside handle(Request) (404 for an unknown server name, 400 for a bad
# WebSocket handshake), so its send side -- buffer and priority-tree node -- is registered before
# the request is handed to it (stream_send drops what it finds no buffer for)
SEND_SIDE_READY = [("C09.stream.send-side-ready", "in_map(self.stream_buffers, request.stream_id) and sel(self.priority.has, request.stream_id)", "C09,C02,C04")]
fn(H2 + "._create_stream", params={"request": "obj h2.events:RequestReceived"}, task="reader",
   model_opts={"call_requires": {"HTTPStream.handle": SEND_SIDE_READY, "WSStream.handle": SEND_SIDE_READY}},
   loops={0: {"locals": {"method": "str", "raw_path": "bstr"},
              # the regular headers (after the pseudo-headers) do not change what was taken from :method / :path
              "invariant": [("C01.h2.scan", "method == old(method) and raw_path == old(raw_path)", "C01")]}},
   ensures=[
       # C01.h2.request: one stream object per request, handed one Request event with the method
       # (upper-cased) and path of the pseudo-headers, the filtered header list, version "2", the
       # request's stream id and the connection's state
       ("C01.h2.request", "count_calls('Stream.handle') == 1 and isinstance(call_args('Stream.handle')[1], Request) and call_args('Stream.handle')[1].stream_id == request.stream_id "
        "and call_args('Stream.handle')[1].http_version == '2' and same(call_args('Stream.handle')[1].state, self.connection_state) "
        "and call_args('Stream.handle')[1].method == pseudo(request.headers, b':method').decode('ascii').upper() "
        "and call_args('Stream.handle')[1].raw_path == pseudo(request.headers, b':path')", "C01"),
       ("C01.h2.request.headers", "count_calls('filter_pseudo_headers') == 1 and call_args('filter_pseudo_headers')[0] == request.headers "
        "and call_args('Stream.handle')[1].headers == call_result('filter_pseudo_headers')", "C01"),
       ("C01.h2.request.wiring", "same(call_args('Stream.handle')[0].app, self.app) and same(call_args('Stream.handle')[0].client, self.client) and same(call_args('Stream.handle')[0].server, self.server) "
        "and call_args('Stream.handle')[0].stream_id == request.stream_id "
        "and call_args('Stream.handle')[0].scheme == (('wss' if self.ssl else 'ws') if isinstance(call_args('Stream.handle')[0], WSStream) else ('https' if self.ssl else 'http'))", "C01"),
       # C11 "an upgrade is attempted only for ... HTTP/2 extended CONNECT with version 13": a request
       # is handed to a WebSocket stream only if it is an extended CONNECT for the websocket
       # protocol (RFC 8441: :protocol = websocket); finding F11c: every CONNECT is
       ("C11.h2.ws-only-extended-connect", "implies(isinstance(call_args('Stream.handle')[0], WSStream), pseudo(request.headers, b':method').decode('ascii').upper() == 'CONNECT' "
        "and pseudo(request.headers, b':protocol') == b'websocket')", "C11"),
       ("C18.mark.on-arrival", "count_calls('WorkerContext.mark_request') == 1", "C18,C15"),
       ("C18.ka.h2.counted", "self.keep_alive_requests >= old(self.keep_alive_requests) + 1", "C18")],
   props=("C04", "C01", "C18", "C11"))

fn(H2 + "._window_updated", params={"stream_id": "opt int"}, task="reader",
   loops={0: {"invariant": [
       ("window.loop.buffers-unchanged", "map_same(self.stream_buffers, old(self.stream_buffers))"),
       ("window.loop.processed-unblocked", "forall_int('k', implies(in_map(old(self.stream_buffers), k) and key_pos(_it, k) < _i, sel(self.priority.active, k)))"),
   ]}},
   ensures=[
       # C09.wake: new credit on the connection (stream 0) or a changed initial window makes every
       # stream with buffered data schedulable again, and the send task is woken
       ("C09.wake.all", "implies(stream_id is None or stream_id == 0, forall_int('k', implies(in_map(old(self.stream_buffers), k), sel(self.priority.active, k))))", "C09,C08,C02"),
       ("C09.wake.one", "implies(stream_id is not None and stream_id != 0 and in_map(old(self.stream_buffers), stream_id), sel(self.priority.active, stream_id))", "C09,C08,C02"),
       ("C09.wake.signal", "self.has_data.flag", "C09,C08,C02"),
       ("window.buffers-unchanged", "map_same(self.stream_buffers, old(self.stream_buffers))", "C09"),
   ],
   props=("C04", "C09"))
fn(H2 + "._priority_updated", params={"event": "obj h2.events:PriorityUpdated"}, task="reader",
   ensures=[
       # C08 / C09 "every waiting send returns": a PRIORITY frame for a stream that is already in the
       # tree changes where it hangs, not whether the send task may pick it -- nothing would
       # unblock a stream whose buffer still holds data the windows allow
       ("C09.priority.keeps-schedulability", "implies(sel(old(self.priority.has), event.stream_id), "
        "sel(self.priority.active, event.stream_id) == sel(old(self.priority.active), event.stream_id))", "C09,C08"),
   ],
   props=("C04", "C09"))
# inlined at its call sites (a pop and two awaits): what it does is judged in the task that calls it
fn(H2 + "._close_stream", params={"stream_id": "int"}, inline=True, props=("C04", "C03"))
# raised into stream_send, which swallows the ProtocolError family (stream ids exhausted)
fn(H2 + "._create_server_push", params={"stream_id": "int", "path": "bstr", "headers": "hdrs"}, task="app",
   raises={"h2.ProtocolError": None}, props=("C04",))
fn(H2 + ".initiate", params={"headers": "opt hdrs", "settings": "opt str"}, task="reader",
   # what the wrapper hands over on an h2c upgrade: the request's headers together with the value of
   # its HTTP2-Settings header, '' when there is none (H2CProtocolRequiredError.__init__)
   requires=[("initiate.pre.h2c-has-settings", "implies(headers is not None, settings is not None)")],
   # C13 "answered 101 and then served as HTTP/2 stream 1": a connection that continues an h2c
   # upgrade is started in h2's upgrade mode (which is what creates stream 1) whatever the
   # HTTP2-Settings header was -- absent and empty included; the plain start is for connections
   # that carry no upgrade request.  (Stated at the call: with the installed h2 the upgrade path
   # never returns normally, findings F13 / F13b.)
   model_opts={"call_requires": {"H2Connection.initiate_connection": [("C13.h2c.upgrade-connection", "headers is None", "C13")]}},
   props=("C04", "C13"))
fn(H2 + ".idle", params={}, returns="bool", modifies=[], props=("C07",))

fn(H2 + ".__init__", inline=True,
   params={"app": "opaque", "config": "obj hypercorn.config:Config", "context": "obj hypercorn.typing:WorkerContext", "task_group": "obj hypercorn.typing:TaskGroup",
           "connection_state": "opaque", "ssl": "bool", "client": "opaque", "server": "opaque", "send": "opaque"},
   ensures=[
       ("C18.h2.settings", "self.connection.local_settings.initial_values[lib_h2.settings.SettingCodes.MAX_CONCURRENT_STREAMS] == config.h2_max_concurrent_streams "
        "and self.connection.local_settings.initial_values[lib_h2.settings.SettingCodes.MAX_HEADER_LIST_SIZE] == config.h2_max_header_list_size", "C18"),
       # ... and the header-list limit also reaches the decoder that enforces it (initial values of
       # the local settings are advertised but never copied there by h2)
       ("C18.h2.header-list-enforced", "self.connection.decoder.max_header_list_size == config.h2_max_header_list_size", "C18"),
       ("C18.h2.frame", "self.connection.DEFAULT_MAX_INBOUND_FRAME_SIZE == config.h2_max_inbound_frame_size", "C18"),
       ("H2.init", "not self.closed and self.keep_alive_requests == 0", "C18"),
       # C09 "a stalled or reset stream never stops other streams": the send task's priority tree
       # holds, besides the open streams, the root, placeholders of PRIORITY frames and streams that
       # are finished or reset but not yet taken out by the send task; it is built with the
       # library's own capacity, not with one tied to the advertised stream concurrency (beyond
       # even that capacity: finding F4d)
       ("C09.init.priority-capacity", "self.priority.capacity >= 1000", "C09,C04"),
       # C02 "reach the client as one well-formed response": the application's header names are
       # lower-cased and connection-specific headers dropped by h2 on the way out, and what h2 would
       # not accept is refused there (stream_send turns a refusal into silence: finding F2b) -- the
       # connection is configured as a server with h2's outbound normalisation and validation on
       ("C02.h2.config", "self.connection.config.client_side == False and self.connection.config.normalize_outbound_headers == True "
        "and self.connection.config.validate_outbound_headers == True and self.connection.config.validate_inbound_headers == True "
        "and self.connection.config.normalize_inbound_headers == True", "C02,C12,C04"),
   ],
   props=("C18",))
