"""hypercorn/utils.py: pure helpers."""
from pyvc.contracts import specfn, cls, fn

U = "hypercorn.utils:"

fn(U + "suppress_body", params={"method": "str", "status_code": "int"}, returns="bool", modifies=[], effect="atomic", inline=True,
   ensures=[("C02.suppress", "result == (method == 'HEAD' or (100 <= status_code and status_code < 200) or status_code == 204 or status_code == 304)", "C02")],
   props=("C02",))

# C01.filter: host taken from :authority (else the last host header, else empty); every other
# non-pseudo header kept in order.  Requires what h2/h3 guarantee: no empty header name.
# kept_hdrs(hs, n): the header lines among the first n that are neither pseudo-headers nor host,
# in order; last_raw(hs, n, name): raw value of the last of the first n lines named `name` (b'' if
# none); seen_hdr(hs, n, name): some line among the first n is named `name`
specfn("kept_hdrs", ["hs:hdrs", "n:int"], rec="n", returns="hdrs", base="[]",
       step="kept_hdrs(hs, n - 1) + ite(hs[n - 1][0] != b':authority' and hs[n - 1][0] != b'host' and hs[n - 1][0][0] != b':'[0], [hs[n - 1]], [])")
specfn("last_raw", ["hs:hdrs", "n:int", "name:bstr"], rec="n", returns="bstr", base="b''",
       step="ite(hs[n - 1][0] == name, hs[n - 1][1], last_raw(hs, n - 1, name))")
specfn("seen_hdr", ["hs:hdrs", "n:int", "name:bstr"], rec="n", returns="bool", base="False",
       step="hs[n - 1][0] == name or seen_hdr(hs, n - 1, name)")
fn(U + "filter_pseudo_headers", params={"headers": "hdrs"}, returns="hdrs", modifies=[], effect="atomic",
   requires=[("filter.pre.nonempty-names", "names_nonempty(headers)")],
   loops={0: {"locals": {"authority": "opt bstr", "host": "bstr", "filtered_headers": "hdrs"},
              "invariant": [("filter.loop.first-is-host", "len(filtered_headers) >= 1"),
                            ("C01.filter.loop", "filtered_headers == [(b'host', b'')] + kept_hdrs(headers, _i) and host == last_raw(headers, _i, b'host') "
                             "and (authority is None) == (not seen_hdr(headers, _i, b':authority')) and implies(authority is not None, authority == last_raw(headers, _i, b':authority'))", "C01")]}},
   ensures=[("C01.filter.host-first", "len(result) >= 1 and result[0][0] == b'host'", "C01"),
            # the whole result: host from :authority (else the last host header, else empty), then
            # every other non-pseudo header in the client's order
            ("C01.filter.all", "result == [(b'host', last_raw(headers, len(headers), b':authority') if seen_hdr(headers, len(headers), b':authority') else last_raw(headers, len(headers), b'host'))] "
             "+ kept_hdrs(headers, len(headers))", "C01")],
   props=("C01",))

# Application-supplied header list -> validated list.  Callers see: either a list of (bytes, bytes)
# pairs, or an exception raised into the application (before anything is emitted).
# C12.headers is transcribed from the statement: CR, LF or NUL never reach the wire.
fn(U + "build_and_validate_headers", params={"headers": "anyhdr"}, returns="hdrs", modifies=[], effect="atomic",
   raises={"Exception": None},
   loops={0: {"locals": {"name": "anyhdr", "value": "anyhdr", "validated_headers": "hdrs"},
              "invariant": [("C12.headers.loop", "no_ctl_chars(validated_headers)", "C12")]}},
   ensures=[("C12.headers.no-ctl", "no_ctl_chars(result)", "C12")],
   props=("C12",))
