"""hypercorn/utils.py: pure helpers."""
from pyvc.contracts import specfn, cls, fn

U = "hypercorn.utils:"

fn(U + "suppress_body", params={"method": "str", "status_code": "int"}, returns="bool", modifies=[], effect="atomic", inline=True,
   ensures=[("C02.suppress", "result == (method == 'HEAD' or (100 <= status_code and status_code < 200) or status_code == 204 or status_code == 304)", "C02")],
   props=("C02",))

# C01.filter: host taken from :authority (else the last host header, else empty); every other
# non-pseudo header kept in order.  Requires what h2/h3 guarantee: no empty header name.
# kept_hdrs(hs, n): the header lines among the first n that are neither pseudo-headers nor host,
# in order; last_raw(hs, n, name): raw value of the last of the first n lines named `name` (b'' if
# none); seen_hdr(hs, n, name): some line among the first n is named `name`
specfn("kept_hdrs", ["hs:hdrs", "n:int"], rec="n", returns="hdrs", base="[]",
       step="kept_hdrs(hs, n - 1) + ite(hs[n - 1][0] != b':authority' and hs[n - 1][0] != b'host' and hs[n - 1][0][0] != b':'[0], [hs[n - 1]], [])")
specfn("last_raw", ["hs:hdrs", "n:int", "name:bstr"], rec="n", returns="bstr", base="b''",
       step="ite(hs[n - 1][0] == name, hs[n - 1][1], last_raw(hs, n - 1, name))")
specfn("seen_hdr", ["hs:hdrs", "n:int", "name:bstr"], rec="n", returns="bool", base="False",
       step="hs[n - 1][0] == name or seen_hdr(hs, n - 1, name)")
fn(U + "filter_pseudo_headers", params={"headers": "hdrs"}, returns="hdrs", modifies=[], effect="atomic",
   requires=[("filter.pre.nonempty-names", "names_nonempty(headers)")],
   loops={0: {"locals": {"authority": "opt bstr", "host": "bstr", "filtered_headers": "hdrs"},
              "invariant": [("filter.loop.first-is-host", "len(filtered_headers) >= 1"),
                            ("C01.filter.loop", "filtered_headers == [(b'host', b'')] + kept_hdrs(headers, _i) and host == last_raw(headers, _i, b'host') "
                             "and (authority is None) == (not seen_hdr(headers, _i, b':authority')) and implies(authority is not None, authority == last_raw(headers, _i, b':authority'))", "C01")]}},
   ensures=[("C01.filter.host-first", "len(result) >= 1 and result[0][0] == b'host'", "C01"),
            # the whole result: host from :authority (else the last host header, else empty), then
            # every other non-pseudo header in the client's order
            ("C01.filter.all", "result == [(b'host', last_raw(headers, len(headers), b':authority') if seen_hdr(headers, len(headers), b':authority') else last_raw(headers, len(headers), b'host'))] "
             "+ kept_hdrs(headers, len(headers))", "C01")],
   props=("C01",))

# Application-supplied header list -> validated list.  Callers see: either a list of (bytes, bytes)
# pairs, or an exception raised into the application (before anything is emitted).
# C12.headers is transcribed from the statement: CR, LF or NUL never reach the wire.
fn(U + "build_and_validate_headers", params={"headers": "anyhdr"}, returns="hdrs", modifies=[], effect="atomic",
   raises={"Exception": None},
   loops={0: {"locals": {"name": "anyhdr", "value": "anyhdr", "validated_headers": "hdrs"},
              "invariant": [("C12.headers.loop", "no_ctl_chars(validated_headers)", "C12"),
                            ("C12.headers.loop.no-pseudo", "no_pseudo_names(validated_headers)", "C12")]}},
   ensures=[("C12.headers.no-ctl", "no_ctl_chars(result)", "C12"),
            # pseudo-headers supplied by the application never get through (a name that starts with ':')
            ("C12.headers.no-pseudo", "no_pseudo_names(result)", "C12")],
   props=("C12",))


# C01 "exactly one application instance is started": with server_names configured the request is
# served iff its Host header -- the first header line whose name is "host" in any letter case, as
# raw header names keep the client's spelling -- names one of them (an undecodable value names none)
def _vsn_args(rng):
    from hypercorn.config import Config
    from hypercorn.protocol.events import Request

    pool = ["a.example", "b.example", "", "caf\u00e9"]
    cfg = Config()
    cfg.server_names = [rng.choice(pool) for _ in range(rng.choice([0, 1, 1, 2]))]
    hs = []
    for _ in range(rng.choice([0, 1, 2, 3])):
        nm = rng.choice([b"host", b"Host", b"HOST", b"x-host", b"accept"])
        vl = rng.choice([p.encode() for p in pool] + [b"\xff"])
        hs.append((nm, vl))
    return {"config": cfg, "request": Request(stream_id=1, headers=hs, http_version="1.1", method="GET", raw_path=b"/", state={})}


def _vsn_oracle(args, result, exc=None):
    """no server names: served; else served iff the value of the first header named host (any
    letter case) decodes to one of them ('' when there is no such header)"""
    if exc is not None:
        return False  # the function never raises
    names = args["config"].server_names
    if len(names) == 0:
        return result is True
    host = ""
    for n, v in args["request"].headers:
        if n.lower() == b"host":
            try:
                host = v.decode()
            except UnicodeDecodeError:
                return result is False
            break
    return result == (host in names)


NOHOST_BEFORE = "forall_int('i', implies(0 <= i and i < %s, request.headers[i][0].lower() != b'host'))"
fn(U + "valid_server_name", params={"config": "obj hypercorn.config:Config", "request": "obj hypercorn.protocol.events:Request"}, returns="bool", modifies=[], effect="atomic",
   # used only when the function leaves the verifier's subset (bounded native search, labelled)
   model_opts={"native_args": _vsn_args, "native_oracle": _vsn_oracle, "native_oracle_name": "C01.server-name.spec"},
   loops={0: {"locals": {"name": "bstr", "value": "bstr", "host": "str"},
              "invariant": [("C01.server-name.scan", "host == '' and " + NOHOST_BEFORE % "_i", "C01")]}},
   # (quantifiers only in positive positions: the encoder eliminates them by skolemisation /
   # instantiation and does not track polarity)
   ensures=[
       ("C01.server-name.spec",
        "(len(config.server_names) == 0 and result) "
        "or (len(config.server_names) > 0 and " + NOHOST_BEFORE % "len(request.headers)" + " and result == ('' in config.server_names)) "
        "or (len(config.server_names) > 0 and exists_int('j', 0 <= j and j < len(request.headers) and request.headers[j][0].lower() == b'host' and " + NOHOST_BEFORE % "j"
        + " and (not is_ascii(request.headers[j][1]) or result == (request.headers[j][1].decode() in config.server_names))))", "C01"),
   ],
   props=("C01", "C04"))


# C01 "scheme and peer/server addresses exactly": what the servers put into scope["client"] /
# scope["server"] is (host, port) -- for IPv6 the first two items of the kernel's 4-tuple
fn(U + "parse_socket_addr", params={"family": "int", "address": "tuple(str;int) | tuple(str;int;int;int)"}, modifies=[], effect="atomic", inline=True,
   # what the kernel returns: (host, port) for AF_INET, (host, port, flowinfo, scope_id) for AF_INET6
   requires=[("addr.pre.kernel-shape", "implies(family == socket.AF_INET, len(address) == 2) and implies(family == socket.AF_INET6, len(address) == 4)")],
   ensures=[("C01.addr.host-port", "implies(family == socket.AF_INET or family == socket.AF_INET6, result is not None and len(result) == 2 and result[0] == address[0] and result[1] == address[1])", "C01"),
            ("C01.addr.other-family", "implies(family != socket.AF_INET and family != socket.AF_INET6, result is None)", "C01")],
   # (family, address) pairs as the kernel returns them (the precondition above)
   model_opts={"native_args": lambda rng: rng.choice([{"family": __import__("socket").AF_INET, "address": ("10.0.0.1", 80)}, {"family": __import__("socket").AF_INET, "address": ("0.0.0.0", 0)},
                                                      {"family": __import__("socket").AF_INET6, "address": ("::1", 8080, 0, 0)}, {"family": __import__("socket").AF_INET6, "address": ("fe80::1", 1, 7, 3)},
                                                      {"family": __import__("socket").AF_UNIX, "address": "/tmp/sock"}]),
               "native_oracle": lambda args, result, exc=None: exc is None and (
                   result == args["address"][:2] if args["family"] in (__import__("socket").AF_INET, __import__("socket").AF_INET6) and isinstance(args["address"], tuple)
                   else (result is None if args["family"] == __import__("socket").AF_UNIX else True)),
               "native_oracle_name": "C01.addr.host-port"},
   props=("C01",))
