"""hypercorn/utils.py: pure helpers."""
from pyvc.contracts import cls, fn

U = "hypercorn.utils:"

fn(U + "suppress_body", params={"method": "str", "status_code": "int"}, returns="bool", modifies=[], effect="atomic", inline=True,
   ensures=[("C02.suppress", "result == (method == 'HEAD' or (100 <= status_code and status_code < 200) or status_code == 204 or status_code == 304)", "C02")],
   props=("C02",))

# C01.filter: host taken from :authority (else the last host header, else empty); every other
# non-pseudo header kept in order.  Requires what h2/h3 guarantee: no empty header name.
fn(U + "filter_pseudo_headers", params={"headers": "hdrs"}, returns="hdrs", modifies=[], effect="atomic",
   requires=[("filter.pre.nonempty-names", "names_nonempty(headers)")],
   loops={0: {"locals": {"authority": "opt bstr", "host": "bstr"},
              "invariant": [("filter.loop.first-is-host", "len(filtered_headers) >= 1")]}},
   ensures=[("C01.filter.host-first", "len(result) >= 1 and result[0][0] == b'host'", "C01")],
   props=("C01",))

# Application-supplied header list -> validated list.  Callers see: either a list of (bytes, bytes)
# pairs, or an exception raised into the application (before anything is emitted).
# C12.headers is transcribed from the statement: CR, LF or NUL never reach the wire.
fn(U + "build_and_validate_headers", params={"headers": "anyhdr"}, returns="hdrs", modifies=[], effect="atomic",
   raises={"Exception": None},
   loops={0: {"locals": {"name": "anyhdr", "value": "anyhdr", "validated_headers": "hdrs"},
              "invariant": [("C12.headers.loop", "no_ctl_chars(validated_headers)", "C12")]}},
   ensures=[("C12.headers.no-ctl", "no_ctl_chars(result)", "C12")],
   props=("C12",))
