"""asyncio / trio worker_context.py, task_group.py: the two implementations of the runtime
interfaces (C16), request counting (C18), application failure containment (C05)."""
from pyvc.contracts import Callback, cls, fn

for W, short in (("hypercorn.asyncio.worker_context", "asyncio"), ("hypercorn.trio.worker_context", "trio")):
    WC = W + ":WorkerContext"
    cls(WC, fields={"max_requests": "opt int", "requests": "int", "terminate": "Event", "terminated": "Event"},
        immutable=["max_requests", "terminate", "terminated"],
        inv=[("WorkerContext.inv.requests", "self.requests >= 0", "C18"),
             # the two shutdown events are never cleared (nobody may: Event.clear requires not g_sticky)
             ("WorkerContext.inv.sticky", "self.terminated.g_sticky and self.terminate.g_sticky", "C15,C07")])
    fn(WC + ".mark_request", params={}, effect="atomic",
       modifies=["self.requests", "self.terminate.flag"],
       ensures=[
           # C18.mark: one more request taken on; the graceful exit begins as soon as the worker has
           # taken on more than max_requests
           ("C18.mark.count", "implies(self.max_requests is not None, self.requests == old(self.requests) + 1)", "C18"),
           ("C18.mark.terminate", "implies(self.max_requests is not None and self.requests > self.max_requests, self.terminate.flag)", "C18,C15"),
           ("C18.mark.not-early", "implies(not old(self.terminate.flag) and (self.max_requests is None or self.requests <= self.max_requests), not self.terminate.flag)", "C18"),
           ("C18.mark.disabled", "implies(self.max_requests is None, self.requests == old(self.requests))", "C18"),
           # C15: counting a request only *asks* for the graceful exit (terminate); that shutdown
           # has begun (terminated: connections stop taking requests, idle ones close at once) is
           # announced by worker_serve alone, after the trigger -- not from inside a request
           ("C15.mark.does-not-announce", "self.terminated.flag == old(self.terminated.flag)", "C15,C18"),
       ],
       props=("C18", "C16", "C15"))
    fn(WC + ".__init__", params={"max_requests": "opt int"}, ghost_post=["self.terminate.g_sticky = True", "self.terminated.g_sticky = True"],
       ensures=[("C18.ctx.init", "self.requests == 0 and not self.terminate.is_set() and not self.terminated.is_set()", "C18,C16"),
                ("C18.ctx.budget", "self.max_requests == max_requests", "C18,C16")],
       props=("C18", "C16"))

# ------------------------------------------------------------------------------------------------
# C16: the two EventWrapper classes refine the same interface contract (hypercorn.typing:Event);
# the abstract flag is the flag of the wrapped runtime event.
for W, EV in (("hypercorn.asyncio.worker_context", "asyncio:Event"), ("hypercorn.trio.worker_context", "trio:Event")):
    EW = W + ":EventWrapper"
    cls(EW, fields={"_event": "obj " + EV}, ghost={"g_sticky": "bool"},
        # g_sticky (ghost): declared never-cleared by its owner; everybody respects it (clear() requires not g_sticky)
        rely=[("EventWrapper.rely.sticky", "implies(old(self.g_sticky), self.g_sticky and implies(old(self._event.flag), self._event.flag))", "C15,C07")])
    fn(EW + ".__init__", params={}, ensures=[("C16.Event.init", "not self._event.flag", "C16")], props=("C16",))
    fn(EW + ".set", params={}, effect="atomic", modifies=["self._event.flag"],
       ensures=[("C16.Event.set", "self._event.flag", "C16")], props=("C16",))
    fn(EW + ".clear", params={}, effect="atomic", modifies=["self._event", "self._event.flag"],
       # the interface precondition (hypercorn.typing:Event.clear): never-cleared events are not cleared
       requires=[("C16.Event.clear.pre.not-sticky", "not self._event.sticky and not self.g_sticky")],
       ensures=[("C16.Event.clear", "not self._event.flag", "C16")], props=("C16",))
    fn(EW + ".is_set", params={}, effect="atomic", modifies=[], returns="bool",
       ensures=[("C16.Event.is_set", "result == self._event.flag", "C16")], props=("C16",))
    fn(EW + ".wait", params={}, modifies=[], ensures=[("C16.Event.wait", "yielded()", "C16")], props=("C16",))

# C05 / C16: both _handle wrappers contain an application failure the same way
HANDLE_PARAMS = {"config": "obj hypercorn.config:Config", "scope": "opaque", "receive": "opaque",
                 "send": "callable{record:send_calls}", "sync_spawn": "opaque", "call_soon": "opaque"}
fn("hypercorn.asyncio.task_group:_handle",
   params=dict(HANDLE_PARAMS, app="callable{record:app_calls;raises:Exception,asyncio.CancelledError}"),
   raises={"asyncio.CancelledError": {"ensures": [("C05.handle.cancel-still-finishes", "n_emitted('send_calls') >= 1", "C05")]}},
   ensures=[
       # C05.handle: the stream is always told that the application is done, the failure is logged
       # exactly when the application raised, and nothing escapes
       ("C05.handle.finishes", "n_emitted('send_calls') >= 1 and trace_all('send_calls', 'x', x is None)", "C05,C16"),
       ("C05.handle.app-once", "n_emitted('app_calls') == 1", "C05,C17,C16"),
       ("C05.handle.logged", "n_emitted('send_calls') == 1 and trace_all('calls', 'x', x[0] != 'Logger.exception') or trace_any('calls', 'x', x[0] == 'Logger.exception')", "C05"),
   ],
   props=("C05", "C16"))
fn("hypercorn.trio.task_group:_handle",
   params=dict(HANDLE_PARAMS, app="callable{record:app_calls;raises:Exception,trio.Cancelled,BaseExceptionGroup}"),
   # C15 "then cancels what remains ... always within graceful_timeout plus shutdown_timeout": nothing
   # the application task does on its way out is shielded from the cancellation at the deadline
   # (its last send(None) can wait on the application's queue for ever)
   raises={"trio.Cancelled": {"ensures": [("C05.handle.cancel-still-finishes", "n_emitted('send_calls') >= 1", "C05"), ("C15.handle.not-shielded", "n_emitted('shielded') == 0", "C15,C16")]},
           "BaseExceptionGroup": {"ensures": [("C05.handle.group-still-finishes", "n_emitted('send_calls') >= 1", "C05"), ("C15.handle.not-shielded", "n_emitted('shielded') == 0", "C15,C16")]}},
   ensures=[
       ("C05.handle.finishes", "n_emitted('send_calls') >= 1 and trace_all('send_calls', 'x', x is None)", "C05,C16"),
       ("C05.handle.app-once", "n_emitted('app_calls') == 1", "C05,C17,C16"),
       ("C15.handle.not-shielded", "n_emitted('shielded') == 0", "C15,C16"),
   ],
   props=("C05", "C16"))


# ------------------------------------------------------------------------------------------------
# TaskGroup.spawn_app / spawn (C16: same interface contract on both workers; C01: one application
# task per call; C17: the WSGI application is reached only through sync_spawn, i.e. off the loop)
SPAWN_PARAMS = {"app": "opaque", "config": "obj hypercorn.config:Config", "scope": "opaque", "send": "opaque"}
cls("hypercorn.asyncio.task_group:TaskGroup", fields={"_loop": "opaque", "_task_group": "obj asyncio:TaskGroup"})
cls("hypercorn.trio.task_group:TaskGroup", fields={"_nursery": "opt obj trio:Nursery", "_nursery_manager": "opt obj trio:NurseryManager"},
    # assumed (structural): a task group is only used by tasks that run inside its `async with`
    # block, and __aexit__ waits for all of them, so an entered group stays entered for its users
    rely=[("TaskGroup.rely.entered-stays", "implies(old(self._nursery) is not None, self._nursery is not None) and implies(old(self._nursery_manager) is not None, self._nursery_manager is not None)", "C07,C16")])
for TG in ("hypercorn.asyncio.task_group:TaskGroup", "hypercorn.trio.task_group:TaskGroup"):
    fn(TG + ".spawn_app", params=SPAWN_PARAMS, effect="atomic", returns=None,
       requires=[("spawn_app.pre.entered", "True" if "asyncio" in TG else "self._nursery is not None")],
       ensures=[("C16.spawn_app.one-task", "n_emitted('spawned') == 1", "C16,C01"),
                # C08 / C16: the queue between the connection and the application holds at most
                # max_app_queue_size messages on both workers (the reader is held back when it is full)
                ("C16.spawn_app.bounded-queue", "n_emitted('queues') == 1 and emitted('queues')[0][1] == config.max_app_queue_size", "C16,C08")] +
               ([("C17.call_soon.waits", "bridge_waits(local('_call_soon'))", "C17,C16,C08")] if "asyncio" in TG else []) +
               # C03 "nothing ever delivered after it" / C01 "in order": what the protocol layer gets to
               # deliver messages with is the queue's own blocking put -- delivery order is call order,
               # and a full queue holds the caller back (no detour through tasks that can overtake)
               [("C03.spawn_app.put-is-the-queue", "is_method_of(result, local('app_queue'), 'put')" if "asyncio" in TG else "is_method_of(result, local('app_send_channel'), 'send')", "C03,C01,C16")],
       props=("C16", "C01"))


# ------------------------------------------------------------------------------------------------
# SingleTask (C07 timer ownership, C16 same interface on both workers).  g_live counts the tasks
# started through the object and not cancelled since (maintained by the runtime model at
# create_task / nursery.start / cancel); both implementations keep it at most one and equal to
# "the handle is set and not cancelled".  All writes happen under self._lock (lock-discipline
# obligation), so the protected fields are stable across the suspensions inside restart/stop.
ACTION = "callable{record:action_calls;coro:1}"
for ST, HANDLE, TG in (
    ("hypercorn.asyncio.worker_context:AsyncioSingleTask", "asyncio:Task", "hypercorn.asyncio.task_group:TaskGroup"),
    ("hypercorn.trio.worker_context:TrioSingleTask", "trio:CancelScope", "hypercorn.trio.task_group:TaskGroup"),
):
    cls(ST, fields={"_handle": "opt obj " + HANDLE, "_lock": "obj " + HANDLE.split(":")[0] + ":Lock"}, ghost={"g_live": "int"},
        lock_protected={"_lock": ["_handle", "g_live"]},
        monitor_inv={"_lock": [("SingleTask.at-most-one", "self.g_live == (1 if (self._handle is not None and not self._handle.cancelled) else 0)", "C07,C16,C15")]})
    fn(ST + ".__init__", params={}, ensures=[("SingleTask.init", "self._handle is None and self.g_live == 0", "C07,C16,C15")], props=("C07", "C16", "C15"))
    fn(ST + ".restart", params={"task_group": "obj " + TG, "action": ACTION},
       requires=[("restart.pre.entered", "True" if "asyncio" in ST else "task_group._nursery is not None")] ,
       ensures=[
           # exactly one timer afterwards: the previous one (if any) cancelled, one new task that runs `action`
           ("C07.single.restart.one-live", "self.g_live == 1", "C07,C16,C15"),
           ("C07.single.restart.spawned", "n_emitted('spawned') == 1 and runs_action(emitted('spawned')[0], action)", "C07,C16,C15"),
           ("C07.single.restart.cancels-at-most-one", "n_emitted('cancelled') <= 1", "C07,C16,C15"),
       ],
       props=("C07", "C16", "C15"))
    fn(ST + ".stop", params={},
       ensures=[
           ("C07.single.stop.none-live", "self.g_live == 0 and self._handle is None", "C07,C16,C15"),
           ("C07.single.stop.cancels-at-most-one", "n_emitted('cancelled') <= 1", "C07,C16,C15"),
           ("C07.single.stop.spawns-nothing", "n_emitted('spawned') == 0", "C07,C16,C15"),
       ],
       props=("C07", "C16", "C15"))


# ------------------------------------------------------------------------------------------------
# (inlined at their call sites, as before; each is also a unit of its own)
# The rest of the two TaskGroup classes (C16: the same interface on both workers; C07 "the
# connection's handler finishes ... as soon as its applications return": leaving the group waits
# for every task it started and for nothing else).
ATGC, TTGC = "hypercorn.asyncio.task_group:TaskGroup", "hypercorn.trio.task_group:TaskGroup"
FUNC = "callable{record:func_calls;coro:1}"
fn(ATGC + ".__init__", params={"loop": "opaque"}, inline=True,
   ensures=[("C16.TaskGroup.init", "same(self._loop, loop) and trace_any('created', 'c', same(c, self._task_group))", "C16")], props=("C16",))
fn(TTGC + ".__init__", params={}, inline=True,
   ensures=[("C16.TaskGroup.init", "self._nursery is None and self._nursery_manager is None", "C16")], props=("C16",))
for TG in (ATGC, TTGC):
    # spawn(func, *args): exactly one task, running func(*args), in this group
    fn(TG + ".spawn", params={"func": FUNC, "args": "args"}, effect="atomic", inline=True,
       requires=[("spawn.pre.entered", "True" if "asyncio" in TG else "self._nursery is not None")],
       ensures=[("C16.spawn.one-task", "n_emitted('spawned') == 1 and runs_action(emitted('spawned')[0], func)", "C16,C07")],
       props=("C16", "C07"))
    fn(TG + ".__aenter__", params={}, returns=None, inline=True,
       ensures=[("C16.TaskGroup.enter", "same(result, self)" + ("" if "asyncio" in TG else " and self._nursery is not None and self._nursery_manager is not None"), "C16")],
       props=("C16",))
    # leaving the group joins the underlying task group / nursery exactly once (that join is what
    # waits for the applications and the keep-alive timer of the connection)
    fn(TG + ".__aexit__", params={"exc_type": "opaque", "exc_value": "opaque", "tb": "opaque"}, inline=True,
       model_opts={} if "asyncio" in TG else {"ends_sharing": {"TaskGroup.rely.entered-stays": "__aexit__ has joined the nursery: every task that used the group has finished when the manager is dropped"}},
       requires=[("aexit.pre.entered", "True" if "asyncio" in TG else "self._nursery_manager is not None")],
       raises={"BaseExceptionGroup": None},
       ensures=[("C16.TaskGroup.exit-joins", "n_emitted('joined') == 1", "C16,C07")],
       props=("C16", "C07"))
