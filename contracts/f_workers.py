"""asyncio / trio worker_context.py, task_group.py: the two implementations of the runtime
interfaces (C16), request counting (C18), application failure containment (C05)."""
from pyvc.contracts import Callback, cls, fn

for W, short in (("hypercorn.asyncio.worker_context", "asyncio"), ("hypercorn.trio.worker_context", "trio")):
    WC = W + ":WorkerContext"
    cls(WC, fields={"max_requests": "opt int", "requests": "int", "terminate": "Event", "terminated": "Event"},
        inv=[("WorkerContext.inv.requests", "self.requests >= 0", "C18")])
    fn(WC + ".mark_request", params={}, effect="atomic",
       modifies=["self.requests", "self.terminate.flag"],
       ensures=[
           # C18.mark: one more request taken on; the graceful exit begins as soon as the worker has
           # taken on more than max_requests
           ("C18.mark.count", "implies(self.max_requests is not None, self.requests == old(self.requests) + 1)", "C18"),
           ("C18.mark.terminate", "implies(self.max_requests is not None and self.requests > self.max_requests, self.terminate.flag)", "C18,C15"),
           ("C18.mark.not-early", "implies(not old(self.terminate.flag) and (self.max_requests is None or self.requests <= self.max_requests), not self.terminate.flag)", "C18"),
           ("C18.mark.disabled", "implies(self.max_requests is None, self.requests == old(self.requests))", "C18"),
       ],
       props=("C18", "C16"))
    fn(WC + ".__init__", params={"max_requests": "opt int"},
       ensures=[("C18.ctx.init", "self.requests == 0 and not self.terminate.flag and not self.terminated.flag", "C18")],
       props=("C18", "C16"))
