"""hypercorn/middleware: proxy_fix, dispatcher, http_to_https (C20)."""
from pyvc.contracts import specfn, Callback, cls, fn

PF = "hypercorn.middleware.proxy_fix:"

# fwd_values(hs, n, name): the comma separated values of the first n header lines named `name`,
# left to right, each latin-1 decoded and stripped -- the list the property counts hops in
specfn("fwd_values", ["hs:hdrs", "n:int", "name:bstr"], rec="n", returns="strs",
       base="[]",
       step="fwd_values(hs, n - 1, name) + ite(hs[n - 1][0].lower() == name, [v.decode('latin1').strip() for v in hs[n - 1][1].split(b',')], [])")

fn(PF + "_get_trusted_value", params={"name": "bstr", "headers": "hdrs", "trusted_hops": "int"}, returns="opt str", modifies=[], effect="atomic",
   requires=[("trusted.pre.hops", "trusted_hops >= 0")],
   loops={0: {"locals": {"header_name": "bstr", "header_value": "bstr", "values": "strs"},
              "invariant": [("C20.trusted.scan", "values == fwd_values(headers, _i, name)", "C20")]}},
   ensures=[
       # C20.trusted: zero trusted hops or too few values => nothing is trusted
       ("C20.trusted.zero", "implies(trusted_hops == 0, result is None)", "C20"),
       ("C20.trusted.too-few", "implies(trusted_hops > 0 and len(fwd_values(headers, len(headers), name)) < trusted_hops, result is None)", "C20"),
       # ... otherwise exactly the value `trusted_hops` from the RIGHT end of all values of all
       # matching header lines in order (whatever a client prepends only shifts untrusted positions)
       ("C20.trusted.from-right", "implies(trusted_hops > 0 and len(fwd_values(headers, len(headers), name)) >= trusted_hops, "
        "result is not None and result == fwd_values(headers, len(headers), name)[len(fwd_values(headers, len(headers), name)) - trusted_hops])", "C20"),
   ],
   props=("C20",))

WWW = "dict{type:str;path:str;raw_path:bstr;query_string:bstr;root_path:str;scheme:str;http_version:str;headers:hdrs;client:opaque;server:opaque;extensions:msg}"
APP = "callable{record:app}"
SEND = "callable{record:asgi_sent}"
RECV = "callable{record:asgi_received;returns:opaque}"

# ------------------------------------------------------------------------------ ProxyFixMiddleware
cls(PF + "ProxyFixMiddleware", fields={"app": APP, "mode": "str", "trusted_hops": "int"}, immutable=["app", "mode", "trusted_hops"])

fn(PF + "ProxyFixMiddleware.__call__", params={"scope": WWW, "receive": RECV, "send": SEND},
   requires=[("proxy.pre.hops", "self.trusted_hops >= 0")],
   loops={0: {"locals": {"part": "str", "client": "opt str", "host": "opt str", "scheme": "opt str"}}},
   ensures=[
       # C20.proxy: the caller's scope is never written
       ("C20.proxy.no-mutation", "scope == old(scope)", "C20"),
       ("C20.proxy.app-once", "nogap('app') and n_emitted('app') == 1", "C20"),
       # nothing trusted (too few values, zero hops) => the application sees the scope unchanged
       ("C20.proxy.untouched", "implies(scope['type'] in ('http', 'websocket') and local('client') is None and local('scheme') is None and local('host') is None, emitted('app')[0][0] == scope)", "C20"),
       ("C20.proxy.zero-hops", "implies(self.trusted_hops == 0, emitted('app')[0][0] == scope)", "C20"),
       ("C20.proxy.other-scope-types", "implies(not (scope['type'] == 'http' or scope['type'] == 'websocket'), same(emitted('app')[0][0], scope))", "C20"),
       # only trusted values are written
       ("C20.proxy.client", "implies(scope['type'] in ('http', 'websocket') and local('client') is not None, emitted('app')[0][0]['client'] == (local('client'), 0))", "C20"),
       ("C20.proxy.scheme", "implies(scope['type'] in ('http', 'websocket') and local('scheme') is not None, emitted('app')[0][0]['scheme'] == local('scheme'))", "C20"),
   ],
   props=("C20",))

# ------------------------------------------------------------------------------ Dispatcher
DM = "hypercorn.middleware.dispatcher:"
cls(DM + "_DispatcherMiddleware", fields={"mounts": "obj pyvc:Mounts"}, immutable=["mounts"])
fn(DM + "_DispatcherMiddleware.__call__", params={"scope": WWW, "receive": RECV, "send": SEND},
   requires=[("dispatch.pre.not-lifespan", "scope['type'] != 'lifespan'")],
   loops={0: {"locals": {"path": "str"},
              "invariant": [
                  # no mount before position _i matches the request path
                  ("C20.dispatch.loop", "forall_int('j', implies(0 <= j and j < _i, not starts_with(scope['path'], self.mounts.keys[j])))", "C20"),
                  ("C20.dispatch.loop.path-unchanged", "scope['path'] == old(scope['path'])", "C20"),
              ]}},
   ensures=[
       # C20.dispatch: the first mount (dict order) whose prefix matches gets the request with the
       # prefix stripped (never empty); no match => 404
       ("C20.dispatch.first-match", "implies(n_after_gap('mounted_app') == 1, "
        "starts_with(old(scope['path']), self.mounts.keys[after_gap('mounted_app')[0][0]]) "
        "and forall_int('j', implies(0 <= j and j < after_gap('mounted_app')[0][0], not starts_with(old(scope['path']), self.mounts.keys[j]))))", "C20"),
       ("C20.dispatch.stripped", "implies(n_after_gap('mounted_app') == 1, "
        "after_gap('mounted_app')[0][1]['path'] != '' and (after_gap('mounted_app')[0][1]['path'] == suffix_after(old(scope['path']), self.mounts.keys[after_gap('mounted_app')[0][0]]) "
        "or (after_gap('mounted_app')[0][1]['path'] == '/' and suffix_after(old(scope['path']), self.mounts.keys[after_gap('mounted_app')[0][0]]) == '')))", "C20"),
       ("C20.dispatch.404", "implies(n_after_gap('mounted_app') == 0, n_after_gap('asgi_sent') == 2 and after_gap('asgi_sent')[0]['status'] == 404 "
        "and forall_int('j', implies(0 <= j and j < seq_len(self.mounts.keys), not starts_with(old(scope['path']), self.mounts.keys[j]))))", "C20"),
   ],
   props=("C20",))

# ------------------------------------------------------------------------------ HTTPToHTTPSRedirect
RM = "hypercorn.middleware.http_to_https:HTTPToHTTPSRedirectMiddleware"
cls(RM, fields={"app": APP, "host": "opt str"}, immutable=["app", "host"])

fn(RM + "._new_url", params={"scheme": "str", "scope": WWW}, returns="str", modifies=[], effect="atomic",
   # ASGI: raw_path and query_string are percent-encoded, i.e. ASCII
   requires=[("new_url.pre.ascii", "is_ascii(scope['raw_path']) and is_ascii(scope['query_string'])")],
   raises={"ValueError": None},
   loops={0: {"locals": {"key": "bstr", "value": "bstr", "host": "opt str"}}},
   ensures=[
       # C20.redirect: same host (configured, else the request's Host header), root_path + raw_path, same query
       ("C20.redirect.url", "result == urlunsplit_((scheme, local('host'), scope['root_path'] + latin1(scope['raw_path']), latin1(scope['query_string']), ''))", "C20"),
       ("C20.redirect.configured-host", "implies(self.host is not None, local('host') == self.host)", "C20"),
   ],
   props=("C20",))

fn(RM + ".__call__", params={"scope": WWW, "receive": RECV, "send": SEND},
   requires=[("redirect.pre.ascii", "is_ascii(scope['raw_path']) and is_ascii(scope['query_string'])")],
   raises={"ValueError": None},
   ensures=[
       # cleartext http => 307 to https; cleartext ws => 307 through the response extension (wss, or
       # https on HTTP/2) or websocket.close; anything secure is passed through unchanged
       ("C20.redirect.http", "implies(scope['type'] == 'http' and scope['scheme'] == 'http', n_emitted('app') == 0 and n_emitted('asgi_sent') == 2 "
        "and emitted('asgi_sent')[0]['type'] == 'http.response.start' and emitted('asgi_sent')[0]['status'] == 307 and emitted('asgi_sent')[0]['headers'][0][0] == b'location')", "C20"),
       # (the 307 itself is the postcondition of _send_websocket_redirect, which is called through its contract)
       ("C20.redirect.ws", "implies(scope['type'] == 'websocket' and scope['scheme'] == 'ws', n_emitted('app') == 0 and "
        "((call_index('_send_websocket_redirect') >= 0 and n_emitted('asgi_sent') == 0) or (call_index('_send_websocket_redirect') < 0 and n_emitted('asgi_sent') == 1 and emitted('asgi_sent')[0]['type'] == 'websocket.close')))", "C20"),
       ("C20.redirect.passthrough", "implies(not (scope['type'] == 'http' and scope['scheme'] == 'http') and not (scope['type'] == 'websocket' and scope['scheme'] == 'ws'), "
        "n_emitted('asgi_sent') == 0 and n_emitted('app') == 1 and same(emitted('app')[0][0], scope) and same(emitted('app')[0][1], receive) and same(emitted('app')[0][2], send))", "C20"),
       ("C20.redirect.no-mutation", "scope == old(scope)", "C20"),
   ],
   props=("C20",))

fn(RM + "._send_http_redirect", params={"scope": WWW, "send": SEND}, inline=True, props=("C20",))
fn(RM + "._send_websocket_redirect", params={"scope": WWW, "send": SEND}, raises={"ValueError": None},
   requires=[("ws_redirect.pre.ascii", "is_ascii(scope['raw_path']) and is_ascii(scope['query_string'])")],
   ensures=[("C20.redirect.ws-scheme", "n_emitted('asgi_sent') == 2 and emitted('asgi_sent')[0]['status'] == 307", "C20")],
   props=("C20",))

# constructors of the middlewares: what __call__ decides on is what the caller configured (C20 "zero
# trusted hops ... the scope is left untouched": a configured 0 stays 0)
fn(PF + "ProxyFixMiddleware.__init__", params={"app": APP, "mode": "str", "trusted_hops": "int"},
   ensures=[("C20.proxy.init", "same(self.app, app) and self.mode == mode and self.trusted_hops == trusted_hops", "C20")], props=("C20",))
fn(DM + "_DispatcherMiddleware.__init__", params={"mounts": "obj pyvc:Mounts"},
   ensures=[("C20.dispatch.init", "same(self.mounts, mounts)", "C20")], props=("C20",))
fn(RM + ".__init__", params={"app": APP, "host": "opt str"},
   ensures=[("C20.redirect.init", "same(self.app, app) and self.host == host", "C20")], props=("C20",))

# ------------------------------------------------------------------------------ lifespan fan-out
# C20 "fans lifespan out so that startup/shutdown complete only when every mount has completed":
# send(path, send, message) of both dispatcher classes marks the mount's own flag and forwards the
# completion exactly when -- with that mark -- every flag of the table is set.  The tables are
# str -> bool maps of any size (pyvc:FlagTable); all(table.values()) is the predicate
# all_flags_true(has, val), defined by instances (models.flags_all).  What stays with the bounded
# stand-in standins/dispatcher_lifespan.py: _handle_lifespan itself (one task and one queue per
# mount, every lifespan message handed to every mount, the tables initialised for every mount).
FSEND = "callable{record:asgi_sent;yields:1}"
for _DC in ("AsyncioDispatcherMiddleware", "TrioDispatcherMiddleware"):
    cls(DM + _DC, fields={"mounts": "obj pyvc:Mounts", "startup_complete": "obj pyvc:FlagTable", "shutdown_complete": "obj pyvc:FlagTable"}, immutable=["mounts"])
    fn(DM + _DC + ".send", params={"path": "str", "send": FSEND, "message": "dict{type:str}"},
       ensures=[
           ("C20.fanout.startup", "implies(message['type'] == 'lifespan.startup.complete', n_emitted('asgi_sent') == (1 if flags_all_marked(old(self.startup_complete), path) else 0) "
            "and implies(n_emitted('asgi_sent') == 1, emitted('asgi_sent')[0]['type'] == 'lifespan.startup.complete'))", "C20"),
           ("C20.fanout.shutdown", "implies(message['type'] == 'lifespan.shutdown.complete', n_emitted('asgi_sent') == (1 if flags_all_marked(old(self.shutdown_complete), path) else 0) "
            "and implies(n_emitted('asgi_sent') == 1, emitted('asgi_sent')[0]['type'] == 'lifespan.shutdown.complete'))", "C20"),
           ("C20.fanout.other-messages", "implies(message['type'] != 'lifespan.startup.complete' and message['type'] != 'lifespan.shutdown.complete', n_emitted('asgi_sent') == 0)", "C20"),
           # the mount's own completion is recorded (stated for the calls that do not suspend: after a
           # forward the tables are whatever the other mounts' calls have made of them meanwhile)
           ("C20.fanout.marks-own", "implies(not yielded() and message['type'] == 'lifespan.startup.complete', flag(self.startup_complete, path)) "
            "and implies(not yielded() and message['type'] == 'lifespan.shutdown.complete', flag(self.shutdown_complete, path))", "C20"),
       ],
       props=("C20",))
