"""StreamBuffer (hypercorn/protocol/h2.py): C02 FIFO, C08 bound and release, C09 order."""
from pyvc.contracts import cls, fn

cls(
    "hypercorn.protocol.h2:StreamBuffer",
    fields={"buffer": "bytes", "_complete": "bool", "_is_empty": "Event", "_paused": "Event"},
    # the stream layer has asked for the end of the stream (EndBody / EndData reached set_complete)
    # -- as opposed to a buffer sealed by close(), which is being thrown away
    ghost={"g_end_requested": "bool"},
    # C05 (I3 of H2Protocol, stated on the element): a buffer that is registered in a protocol's
    # table -- held at a suspension point or at exit -- is sealed only because the stream layer
    # asked for the end of the stream.  close() seals a buffer that is being thrown away; such a
    # buffer must not stay registered, or the send task would END_STREAM a response that was
    # never completed.  (Proved for every element a unit touched, assumed for every element it
    # takes out of the table.)
    published_inv=[("StreamBuffer.published.sealed-by-request", "implies(self._complete, self.g_end_requested)", "C05,C02")],
    inv=[("StreamBuffer.inv.events-clearable", "not self._is_empty.g_sticky and not self._paused.g_sticky", "C08")],
    rely=[("StreamBuffer.rely.complete-monotone", "implies(old(self._complete), self._complete)"),
          ("StreamBuffer.rely.end-requested-monotone", "implies(old(self.g_end_requested), self.g_end_requested)")],
)

fn(
    "hypercorn.protocol.h2:StreamBuffer.pop",
    params={"max_length": "int"},
    returns="bytes",
    requires=[("pop.pre.nonneg", "max_length >= 0")],
    ensures=[
        ("pop.len", "len(result) == min(len(old(self.buffer)), max_length)", "C09,C02"),
        ("pop.fifo", "cat(result, self.buffer) == old(self.buffer)", "C02,C09"),
        ("pop.empty-signalled", "implies(len(self.buffer) == 0, self._is_empty.flag)", "C08,C02,C09"),
        # C08, transcribed from the statement: once the waiting send is released the data the
        # server still holds for the stream is below the fixed bound
        # C08 "whenever the pressure abates ... every waiting send returns promptly": a pop that
        # could not fill a low-water-mark chunk (the window or the buffer ran short) and leaves the
        # buffer under the bound releases the waiting push -- the empty pop included (it is what
        # the send task does right after a full final frame)
        ("C08.release.pop", "implies(len(result) < BUFFER_LOW_WATER and len(self.buffer) < BUFFER_HIGH_WATER, self._paused.flag)", "C08,C09"),
        ("C08.bound.pop", "implies(self._paused.flag and not old(self._paused.flag), len(self.buffer) < BUFFER_HIGH_WATER)", "C08"),
        # C16 / C08: the two events are waited on by the sending application's task (push, drain)
        # and are cleared only by that task (push); pop -- run by the send task -- only ever sets
        # them.  On the trio worker clear() replaces the underlying event, so a clear by another
        # task while the application is parked in drain() / push() would strand it for ever.
        ("C16.pop.clears-nothing", "count_calls('Event.clear') == 0", "C16,C08,C09"),
    ],
    modifies=["self.buffer", "self._paused.flag", "self._is_empty.flag"],
    effect="atomic",
    props=("C08",),
)

fn(
    "hypercorn.protocol.h2:StreamBuffer.__init__",
    params={"event_class": "evclass"},
    ensures=[
        ("init.empty", "len(self.buffer) == 0 and not self._complete and not self.g_end_requested"),
        ("init.flags", "not self._is_empty.flag and not self._paused.flag"),
    ],
    props=("C08",),
)

fn(
    "hypercorn.protocol.h2:StreamBuffer.push",
    params={"data": "bytes"},
    ensures=[
        # C08: a send returns only when the data held is below the bound, or the buffer was
        # force-closed meanwhile (released, never stuck)
        ("C08.bound.push", "len(self.buffer) < BUFFER_HIGH_WATER or not self._paused.flag or self._complete", "C08"),
        # C12 / C02: nothing is appended once the end of the body was requested -- a push that
        # returns normally found the buffer unsealed (whether or not sealed data is still queued)
        ("C12.push.sealed-rejects", "not old(self._complete)", "C12,C02,C08"),
        # C08 "every waiting send returns promptly -- none waits forever": a push clears the
        # wake-up event only after it has itself been woken from it (it consumes its own wake-up).
        # Clearing it at any other moment takes the wake-up -- on the trio worker the event object
        # itself -- away from another send of the same stream that is parked on it.
        ("C08.push.clears-only-its-own-wake-up", "trace_all('event_clears', 'c', implies(same(c[0], self._paused), c[1]))", "C08,C16"),
    ],
    raises={"BufferCompleteError": {"when": "self._complete", "ensures": [("push.raise.unchanged", "self.buffer == old(self.buffer)", "C02")]}},
    props=("C08",),
)

fn(
    "hypercorn.protocol.h2:StreamBuffer.set_complete",
    params={},
    ensures=[("set_complete.post", "self._complete and self.g_end_requested")],
    ghost_post=["self.g_end_requested = True"],
    modifies=["self._complete", "self.g_end_requested"],
    effect="atomic",
    props=("C02",),
)

fn(
    "hypercorn.protocol.h2:StreamBuffer.close",
    params={},
    ensures=[
        ("C08.release.close", "self._is_empty.flag and self._paused.flag", "C08"),
        ("close.post", "self._complete and len(self.buffer) == 0", "C08,C05"),
    ],
    modifies=["self._complete", "self.buffer", "self._is_empty.flag", "self._paused.flag"],
    effect="atomic",
    props=("C08",),
)

fn(
    "hypercorn.protocol.h2:StreamBuffer.complete",
    params={},
    returns="bool",
    ensures=[("complete.post", "result == (self._complete and len(self.buffer) == 0)", "C02,C09")],
    modifies=[],
    effect="atomic",
    props=("C09",),
)

fn("hypercorn.protocol.h2:StreamBuffer.drain", params={}, modifies=[], effect="yields",
   # C09 "followed by exactly one END_STREAM" / C02: drain() is what keeps the application's task
   # behind the send task -- it always waits for the empty signal, which only a pop by the send task
   # gives (a buffer that holds nothing has not been looked at by the send task yet: END_STREAM for a
   # bodiless response is still to come)
   ensures=[("C09.drain.waits-for-the-send-task", "count_calls('Event.wait') == 1", "C09,C02,C08")],
   # drain() is called on a registered buffer (by stream_send, after set_complete)
   requires=[("drain.pre.registered", "implies(self._complete, self.g_end_requested)")],
   props=("C08",))
