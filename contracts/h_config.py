"""hypercorn/config.py and __main__.py (C19; response_headers also C02)."""
from pyvc.contracts import cls, fn

CF = "hypercorn.config:Config"

# response_headers: date (iff include_date_header), server (iff include_server_header), alt-svc*
fn(CF + ".response_headers", params={"protocol": "str"}, returns="hdrs", modifies=[], effect="atomic",
   requires=[("response_headers.pre.no-quic", "not truthy(self._quic_addresses)"),
             ("response_headers.pre.protocol", "is_ascii(protocol)")],
   loops={0: {"locals": {"alt_svc_header": "str", "headers": "hdrs"},
              "invariant": [("C02.cfg.loop", "len(headers) == (1 if self.include_date_header else 0) + (1 if self.include_server_header else 0) + _i "
                             "and implies(self.include_date_header, headers[0][0] == b'date') "
                             "and implies(self.include_server_header, headers[1 if self.include_date_header else 0] == (b'server', ('hypercorn-' + protocol).encode('latin-1')))", "C02,C19")]}},
   ensures=[
       ("C02.cfg.count", "len(result) == (1 if self.include_date_header else 0) + (1 if self.include_server_header else 0) + len(self.alt_svc_headers)", "C02,C19"),
       ("C02.cfg.date-first", "implies(self.include_date_header, result[0][0] == b'date')", "C02,C19"),
       ("C02.cfg.server", "implies(self.include_server_header, result[1 if self.include_date_header else 0] == (b'server', ('hypercorn-' + protocol).encode('latin-1')))", "C02,C19"),
   ],
   props=("C02", "C19"))

# ------------------------------------------------------------------------------------------------
# Command line: each flag sets exactly its own setting to exactly the given value, nothing else.
# Oracle: the option table of docs/how_to_guides/configuring.rst (setting <-> option strings) and
# argparse's own dest rule (read from the real parser built by main()).
import os as _os
import re as _re


def _cli_table():
    import argparse

    from pyvc.source import repo_root

    doc = open(_os.path.join(repo_root(), "docs", "how_to_guides", "configuring.rst")).read()
    rows = {}
    for line in doc.splitlines():
        m = _re.match(r"^([a-z_0-9]+)\s+((?:``[^`]+``(?:,\s*)?)+|N/A)\s", line)
        if m:
            rows[m.group(1)] = _re.findall(r"``([^`]+)``", m.group(2))
    import hypercorn.__main__ as M

    cap = {}
    orig = argparse.ArgumentParser.parse_args

    def fake(self, *a, **k):
        cap["p"] = self
        raise SystemExit(0)

    argparse.ArgumentParser.parse_args = fake
    try:
        try:
            M.main([])
        except SystemExit:
            pass
    finally:
        argparse.ArgumentParser.parse_args = orig
    dest_of = {}
    for act in cap["p"]._actions:
        for o in act.option_strings:
            dest_of[o] = act.dest
    return rows, dest_of


try:
    _ROWS, _DEST = _cli_table()
    _CLI_OK = True
except Exception as _e:  # docs table / parser not available: only C19's check is affected
    _ROWS, _DEST, _CLI_OK = {}, {}, False
_STORAGE = {"bind": "_bind", "insecure_bind": "_insecure_bind", "quic_bind": "_quic_bind", "root_path": "_root_path"}
_SKIP = {"logger_class", "logconfig_dict", "log"}
_cli_ensures = [("C19.cli.run-once", "n_emitted('run') == 1 and same(emitted('run')[0], local('config'))", "C19")]
from hypercorn.config import Config as _Config

_settings = [k for k, v in vars(_Config).items() if not k.startswith("__") and not callable(v) and not isinstance(v, (property, classmethod, staticmethod))]
_flagged = {}
for _attr, _opts in _ROWS.items():
    _dests = sorted({_DEST[o] for o in _opts if o in _DEST})
    if _dests:
        _flagged[_STORAGE.get(_attr, _attr)] = (_attr, _dests[0])
for _field in _settings:
    if _field in _SKIP or _field == "application_path":
        continue
    if _field in _flagged:
        _attr, _d = _flagged[_field]
        _val = "given_value(local('args'), '%s')" % _d
        if _attr == "root_path":
            _val += ".rstrip('/')"
        _cli_ensures.append(("C19.cli.%s" % _attr,
                             "ite(given(local('args'), '%s'), local('config').%s == %s, local('config').%s == call_result('_load_config').%s)" % (_d, _field, _val, _field, _field), "C19"))
    else:
        _cli_ensures.append(("C19.cli.untouched.%s" % _field, "local('config').%s == call_result('_load_config').%s" % (_field, _field), "C19"))

# the three file loaders as seen by _load_config (their bodies -- importlib, exec of a file, tomllib,
# then one setattr loop -- are not under contract); what is proved is that the route and the name
# handed over are exactly what the -c value says
for _ld in ("from_object", "from_pyfile", "from_toml"):
    fn(CF + "." + _ld, params={"cls": "opaque", "arg": "str"}, returns="fullconfig", modifies=[], effect="atomic", assume_only=True,
       trusted_reason="Config.%s: loader body not under contract" % _ld)
# (no effect="atomic": units declared atomic are replayed natively, and running the real loaders on a
# counter-model would import / execute whatever the model names)
fn("hypercorn.__main__:_load_config", params={"config_path": "opt str"}, returns="fullconfig", modifies=[], assume_only=False,
   ensures=[
       ("C19.load.none", "implies(config_path is None, (count_calls('Config.from_object') + count_calls('Config.from_pyfile') + count_calls('Config.from_toml')) == 0)", "C19"),
       ("C19.load.python", "implies(config_path is not None and config_path.startswith('python:'), (count_calls('Config.from_object') + count_calls('Config.from_pyfile') + count_calls('Config.from_toml')) == 1 and count_calls('Config.from_object') == 1 "
        "and call_args('Config.from_object')[-1] == config_path[7:])", "C19"),
       ("C19.load.file", "implies(config_path is not None and not config_path.startswith('python:') and config_path.startswith('file:'), (count_calls('Config.from_object') + count_calls('Config.from_pyfile') + count_calls('Config.from_toml')) == 1 and count_calls('Config.from_pyfile') == 1 "
        "and call_args('Config.from_pyfile')[-1] == config_path[5:])", "C19"),
       ("C19.load.toml", "implies(config_path is not None and not config_path.startswith('python:') and not config_path.startswith('file:'), (count_calls('Config.from_object') + count_calls('Config.from_pyfile') + count_calls('Config.from_toml')) == 1 and count_calls('Config.from_toml') == 1 "
        "and call_args('Config.from_toml')[-1] == config_path)", "C19"),
   ],
   props=("C19",))

if _CLI_OK:
  fn("hypercorn.__main__:main", params={"sys_args": "const None"},
   # deprecated aliases that the documentation no longer lists are out of scope (assumed not given)
   model_opts={"cli_not_given": ["cert_reqs", "access_log", "error_log"]},
   requires=[],
   ensures=_cli_ensures,
   props=("C19",))

# ------------------------------------------------------------------------------ setters / loaders
fn(CF + ".bind.setter", params={"value": "str | strs"}, modifies=["self._bind"], effect="atomic",
   ensures=[("C19.setters.bind", "(len(self._bind) == 1 and self._bind[0] == value) if isinstance(value, str) else self._bind == value", "C19")], props=("C19",))
fn(CF + ".insecure_bind.setter", params={"value": "str | strs"}, modifies=["self._insecure_bind"], effect="atomic",
   ensures=[("C19.setters.insecure_bind", "(len(self._insecure_bind) == 1 and self._insecure_bind[0] == value) if isinstance(value, str) else self._insecure_bind == value", "C19")], props=("C19",))
fn(CF + ".quic_bind.setter", params={"value": "str | strs"}, modifies=["self._quic_bind"], effect="atomic",
   ensures=[("C19.setters.quic_bind", "(len(self._quic_bind) == 1 and self._quic_bind[0] == value) if isinstance(value, str) else self._quic_bind == value", "C19")], props=("C19",))
fn(CF + ".root_path.setter", params={"value": "str"}, modifies=["self._root_path"], effect="atomic",
   ensures=[("C19.setters.root_path", "not self._root_path.endswith('/') and starts_with(value, self._root_path)", "C19")], props=("C19",))


# C19 "the server/alt-svc values the configuration asks for": the QUIC addresses advertised through
# alt-svc are those of this configuration's own sockets -- the list is started afresh on every call
# (the attribute's class-level default is a list shared by every Config)
fn(CF + "._set_quic_addresses", params={"sockets": "obj pyvc:ObjList"}, modifies=["self._quic_addresses"],
   loops={0: {"locals": {"sock": "obj io:ListenSocket", "name": "opaque"}}},
   ensures=[("C19.quic.own-list", "not same(self._quic_addresses, old(self._quic_addresses))", "C19")],
   props=("C19",))
