"""hypercorn/asyncio/tcp_server.py and hypercorn/trio/tcp_server.py (C07 timers and release, C16
same behaviour on both workers, C13 ALPN hand-over, C14 per-connection state copy).

The two TCPServer classes see the protocol only through the port contract below (the protocol
classes themselves are verified in d_h11_protocol.py / d_h2_protocol.py); the clauses named C16.*
are textually the same for both classes and are discharged against both bodies."""
from pyvc.contracts import Callback, cls, fn

import importlib.util as _u, os as _o
_s = _u.spec_from_file_location("a_events", _o.path.join(_o.path.dirname(__file__), "a_events.py"))
_ev = _u.module_from_spec(_s); _s.loader.exec_module(_ev)

# ------------------------------------------------------------------------------------------------
# What a server needs from ProtocolWrapper.  g_eof_fed: the peer's EOF (RawData(b'')) has been
# handed over; after that no further bytes may be fed (h11 raises on data after EOF).
PORT = "pyvc:ProtocolPort"
cls(PORT, fields={}, ghost={"g_initiated": "bool", "g_eof_fed": "bool", "g_closed_fed": "bool"}, interface=True,
    # only the connection's single read loop feeds RawData (obligation C16.single-feeder on the
    # other methods), so for everybody else -- and across the reader's own suspensions -- the
    # EOF flag does not move
    rely=[("Port.rely.monotone", "self.g_eof_fed == old(self.g_eof_fed) and implies(old(self.g_closed_fed), self.g_closed_fed) and implies(old(self.g_initiated), self.g_initiated)", "C16")])
fn(PORT + ".initiate", params={}, effect="yields", assume_only=True, ghost_post=["self.g_initiated = True"],
   trusted_reason="interface of ProtocolWrapper.initiate as seen by the servers")
fn(PORT + ".handle", params={"event": _ev.IO_EVENTS}, effect="yields", assume_only=True,
   requires=[("port.handle.pre.initiated", "self.g_initiated"),
             ("port.handle.pre.no-data-after-eof", "implies(isinstance(event, RawData) and self.g_eof_fed, len(event.data) == 0)")],
   ghost_post=["self.g_eof_fed = self.g_eof_fed or (isinstance(event, RawData) and len(event.data) == 0)",
               "self.g_closed_fed = self.g_closed_fed or isinstance(event, Closed)"],
   trusted_reason="interface of ProtocolWrapper.handle as seen by the servers (same precondition as the wrapper's own contract)")

VIEWS = {"views": {"hypercorn.protocol:ProtocolWrapper": PORT}}
# C16 / C08: every write to the transport is made while the connection's send lock is held -- several
# tasks of one connection write (the application tasks, the HTTP/2 send task, the reader answering a
# ping or an error); asyncio would interleave a second writer's drain, a trio stream refuses a
# second sender with BusyResourceError
SEND_VIEWS = dict(VIEWS, call_requires={"transport.write": [("C16.send.under-lock", "self.send_lock.locked()", "C16,C08,C02")]})

COMMON_FIELDS = {"app": "opaque", "config": "obj hypercorn.config:Config", "context": "obj hypercorn.typing:WorkerContext",
                 "protocol": "maybe obj " + PORT, "state": "dict{}"}

HANDLE_CLOSED = "trace_any('calls', 'c', c[0] == 'ProtocolPort.handle' and isinstance(c[2], Closed))"

# clauses shared verbatim by both classes --------------------------------------------------------
def send_clauses(single):
    return [
        # C16.send.raw: exactly the event's bytes go to the transport, once
        ("C16.send.raw", "implies(isinstance(event, RawData), len(net_written()) == 1 and net_written()[0] == event.data)", "C16,C02"),
        ("C16.send.only-raw-writes", "implies(not isinstance(event, RawData), len(net_written()) == 0)", "C16"),
        # C07.release: a failed write tells the protocol that the connection is gone
        ("C07.send.write-failure-closes", "implies(isinstance(event, RawData) and any(o.startswith('error:') for o in net_ops()), " + HANDLE_CLOSED + ")", "C07,C16,C03"),
        # C07.arm: the protocol's idle reports arm / disarm the keep-alive timer
        ("C07.arm.idle", "implies(isinstance(event, Updated) and event.idle, call_index('" + single + ".restart') >= 0 and call_index('" + single + ".stop') < 0)", "C07,C16,C15"),
        ("C07.arm.busy", "implies(isinstance(event, Updated) and not event.idle, call_index('" + single + ".stop') >= 0 and call_index('" + single + ".restart') < 0)", "C07,C16"),
        ("C07.arm.timer-action", "implies(isinstance(event, Updated) and event.idle, is_method_of(call_args('" + single + ".restart')[2], self, '_idle_timeout'))", "C07,C16"),
        ("C16.single-feeder", "not trace_any('calls', 'c', c[0] == 'ProtocolPort.handle' and isinstance(c[2], RawData))", "C16"),
        # C16.send.closed: the server's decision to close closes the transport
        ("C16.send.closed", "implies(isinstance(event, Closed), call_index('TCPServer._close') >= 0)", "C16,C07,C06"),
        # C06 "closes after it" / C07 "the transport is closed": the server's decision to close is
        # carried out on the transport first; telling the protocol (which tells the streams, which
        # may have to wait for their applications' queues) comes after and cannot hold it up
        ("C06.send.closed.transport-first", "implies(isinstance(event, Closed) and call_index('ProtocolPort.handle') >= 0, "
         "call_index('TCPServer._close') >= 0 and call_index('TCPServer._close') < call_index('ProtocolPort.handle'))", "C06,C07,C16"),
    ]

# ------------------------------------------------------------------------------------ asyncio
A = "hypercorn.asyncio.tcp_server:TCPServer"
AST = "hypercorn.asyncio.worker_context:AsyncioSingleTask"
cls(A, fields=dict(COMMON_FIELDS, loop="opaque", reader="obj asyncio:StreamReader", writer="obj asyncio:StreamWriter", send_lock="obj asyncio:Lock",
                   idle_task="obj " + AST, _task_group="maybe obj hypercorn.asyncio.task_group:TaskGroup"),
    immutable=["app", "config", "context", "loop", "reader", "writer", "send_lock", "state", "idle_task"],
    write_once=["protocol", "_task_group"])

fn(A + ".protocol_send", params={"event": _ev.IO_EVENTS}, model_opts=SEND_VIEWS,
   requires=[("send.pre.running", "has(self, 'protocol') and has(self, '_task_group') and value_of(self, 'protocol').g_initiated")],
   ensures=send_clauses("AsyncioSingleTask") + [
       # C08 (transport paused): a send returns only after the transport has taken the data or
       # said that it is not paused -- every write is followed by its drain, under the send lock
       # (trio's send_all waits by itself)
       ("C08.send.waits-for-transport", "implies(isinstance(event, RawData) and 'write' in net_ops() and not any(o.startswith('error:') for o in net_ops()), "
        "len(net_ops()) >= 2 and net_ops()[0] == 'write' and net_ops()[1] == 'drain')", "C08,C16"),
   ], props=("C04", "C16", "C07", "C03", "C06", "C08", "C15"))

fn(A + "._close", params={}, model_opts=VIEWS,
   ensures=[
       # C07.release: the transport is closed and the keep-alive timer is gone, on every path
       ("C07.close.transport", "'close' in net_ops()", "C07,C16,C06"),
       ("C07.close.timer-stopped", "call_index('AsyncioSingleTask.stop') >= 0", "C07,C16"),
   ],
   props=("C04", "C07", "C16"))

fn(A + "._read_data", params={}, model_opts=VIEWS,
   requires=[("read.pre.running", "has(self, 'protocol') and value_of(self, 'protocol').g_initiated and not value_of(self, 'protocol').g_eof_fed"),
             ("read.pre.timeout", "self.config.read_timeout is None or self.config.read_timeout >= 0")],
   loops={0: {"locals": {"data": "bytes"},
              "invariant": [("C16.read.inv", "has(self, 'protocol') and value_of(self, 'protocol').g_initiated and not value_of(self, 'protocol').g_eof_fed", "C16")],
              # C16.read.forward: what was read is handed to the protocol, unchanged -- the empty
              # end-of-stream chunk included (C16.read.eof-fed: the protocol is told about the EOF)
              "iter_ensures": [("C16.read.forward", "implies(n_after_gap('reads') == 1, trace_any('calls', 'c', c[0] == 'ProtocolPort.handle' and isinstance(c[2], RawData) and c[2].data == after_gap('reads')[0]))", "C16,C01")],
              # C16.read.eof-fed: the loop is only left by `break` (a failed read, or after the empty
              # chunk was handed over); should it ever end by its test, the end of the stream must
              # have been reported to the protocol (vacuous for `while True`; finding F16a, fixed)
              "exit_ensures": [("C16.read.eof-fed", "value_of(self, 'protocol').g_eof_fed", "C16,C04")]}},
   ensures=[
       # C07.finally: whatever ended the loop, the protocol is told last that the connection is gone
       ("C07.read.closed-last", "n_after_gap('calls') >= 1 and after_gap('calls')[-1][0] == 'ProtocolPort.handle' and isinstance(after_gap('calls')[-1][2], Closed)", "C07,C16"),
   ],
   props=("C04", "C16", "C07"))

fn(A + "._initiate_server_close", params={}, model_opts=VIEWS,
   requires=[("isc.pre.running", "has(self, 'protocol') and value_of(self, 'protocol').g_initiated")],
   ensures=[("C07.timeout.closes", HANDLE_CLOSED + " and 'close' in net_ops()", "C07,C15"),
            ("C16.single-feeder", "not trace_any('calls', 'c', c[0] == 'ProtocolPort.handle' and isinstance(c[2], RawData))", "C16")],
   props=("C04", "C07", "C15"))

fn(A + "._idle_timeout", params={}, model_opts=dict(VIEWS, clock=True),
   requires=[("idle.pre.running", "has(self, 'protocol') and value_of(self, 'protocol').g_initiated"),
             ("idle.pre.sticky", "self.context.terminated.g_sticky"),
             ("idle.pre.timeout", "self.config.keep_alive_timeout >= 0")],
   ensures=[
       # C07.timer: started at t0 the timer makes the server close at min(shutdown, t0 +
       # keep_alive_timeout): never later, and earlier only because shutdown has begun
       ("C07.timer.closes", "call_index('TCPServer._initiate_server_close') >= 0", "C07,C15,C16"),
       ("C07.timer.not-late", "call_time('TCPServer._initiate_server_close') <= clock0() + self.config.keep_alive_timeout", "C07,C15,C16"),
       ("C07.timer.not-early", "call_time('TCPServer._initiate_server_close') == clock0() + self.config.keep_alive_timeout or self.context.terminated.flag", "C07,C15,C16"),
   ],
   props=("C04", "C07", "C15"))

RUN_CLAUSES = lambda single: [
    # C07.finally: the transport is closed on every way out of run()
    ("C07.finally.closed", "call_index('TCPServer._close') >= 0", "C07,C16"),
    # C07.arm: the keep-alive timer is armed after the protocol was initiated and before the first read
    ("C07.arm.order", "implies(call_index('TCPServer._read_data') >= 0, 0 <= call_index('ProtocolPort.initiate') and call_index('ProtocolPort.initiate') < call_index('" + single + ".restart') "
     "and call_index('" + single + ".restart') < call_index('TCPServer._read_data'))", "C07,C16"),
    # C14.copy: each connection's protocol gets its own copy of the lifespan state
    ("C14.copy", "implies(call_index('ProtocolWrapper.__init__') >= 0, not same(call_args('ProtocolWrapper.__init__')[5], self.state) and call_args('ProtocolWrapper.__init__')[5] == self.state)", "C14,C16"),
    # C07.release: when the connection's task group is joined no keep-alive timer is left running
    # (the join would wait for it for up to keep_alive_timeout)
    ("C07.join.no-live-timer", "trace_all('joined', 'j', j[1] == 0)", "C07"),
]

fn(A + ".run", params={}, model_opts=VIEWS,
   requires=[("run.pre.once", "not has(self, 'protocol') and not has(self, '_task_group') and self.idle_task.g_live == 0"),
             ("run.pre.timeout", "self.config.read_timeout is None or self.config.read_timeout >= 0")],
   ensures=RUN_CLAUSES("AsyncioSingleTask") + [
       # C13.alpn: the protocol is chosen from what TLS negotiated; cleartext connections are HTTP/1.1 openings
       ("C13.alpn.server", "implies(call_index('ProtocolWrapper.__init__') >= 0, "
        "call_args('ProtocolWrapper.__init__')[6] == (self.writer.ssl_object is not None) and "
        "implies(self.writer.ssl_object is None, call_args('ProtocolWrapper.__init__')[10] == 'http/1.1') and "
        # ... and under TLS exactly what was negotiated (nothing negotiated = HTTP/1.x, not a server-side preference)
        "implies(self.writer.ssl_object is not None, call_args('ProtocolWrapper.__init__')[10] == self.writer.ssl_object.selected_alpn_protocol()))", "C13,C16"),
   ],
   props=("C04", "C07", "C16", "C14", "C13"))

# ------------------------------------------------------------------------------------ trio
T = "hypercorn.trio.tcp_server:TCPServer"
TST = "hypercorn.trio.worker_context:TrioSingleTask"
cls(T, fields=dict(COMMON_FIELDS, stream="obj trio:Stream", send_lock="obj trio:Lock", idle_task="obj " + TST, _task_group="maybe obj hypercorn.trio.task_group:TaskGroup"),
    immutable=["app", "config", "context", "stream", "send_lock", "state", "idle_task"],
    write_once=["protocol", "_task_group"])

fn(T + ".protocol_send", params={"event": _ev.IO_EVENTS}, model_opts=SEND_VIEWS,
   requires=[("send.pre.running", "has(self, 'protocol') and has(self, '_task_group') and value_of(self, 'protocol').g_initiated and value_of(self, '_task_group')._nursery is not None")],
   ensures=send_clauses("TrioSingleTask"), props=("C04", "C16", "C07", "C03", "C06", "C08", "C15"))

fn(T + "._close", params={}, model_opts=VIEWS,
   ensures=[
       ("C07.close.transport", "'aclose' in net_ops()", "C07,C16,C06"),
       # (the asyncio class stops the keep-alive timer here; the trio class does not: finding F7d
       # is stated where it matters, at the join in run())
   ],
   props=("C04", "C07", "C16"))

fn(T + "._read_data", params={}, model_opts=VIEWS,
   requires=[("read.pre.running", "has(self, 'protocol') and value_of(self, 'protocol').g_initiated and not value_of(self, 'protocol').g_eof_fed"),
             ("read.pre.timeout", "self.config.read_timeout is None or self.config.read_timeout >= 0")],
   loops={0: {"locals": {"data": "bytes"},
              "invariant": [("C16.read.inv", "has(self, 'protocol') and value_of(self, 'protocol').g_initiated and not value_of(self, 'protocol').g_eof_fed", "C16")],
              "iter_ensures": [("C16.read.forward", "implies(n_after_gap('reads') == 1, trace_any('calls', 'c', c[0] == 'ProtocolPort.handle' and isinstance(c[2], RawData) and c[2].data == after_gap('reads')[0]))", "C16,C01")],
              # C16.read.eof-fed: the loop is only left by `break` (a failed read, or after the empty
              # chunk was handed over); should it ever end by its test, the end of the stream must
              # have been reported to the protocol (vacuous for `while True`; finding F16a, fixed)
              "exit_ensures": [("C16.read.eof-fed", "value_of(self, 'protocol').g_eof_fed", "C16,C04")]}},
   ensures=[
       ("C07.read.closed-last", "n_after_gap('calls') >= 1 and after_gap('calls')[-1][0] == 'ProtocolPort.handle' and isinstance(after_gap('calls')[-1][2], Closed)", "C07,C16"),
   ],
   props=("C04", "C16", "C07"))

fn(T + "._initiate_server_close", params={}, model_opts=VIEWS,
   requires=[("isc.pre.running", "has(self, 'protocol') and value_of(self, 'protocol').g_initiated")],
   ensures=[("C07.timeout.closes", HANDLE_CLOSED + " and 'aclose' in net_ops()", "C07,C15"),
            ("C16.single-feeder", "not trace_any('calls', 'c', c[0] == 'ProtocolPort.handle' and isinstance(c[2], RawData))", "C16")],
   props=("C04", "C07", "C15"))

fn(T + "._idle_timeout", params={}, model_opts=dict(VIEWS, clock=True),
   requires=[("idle.pre.running", "has(self, 'protocol') and value_of(self, 'protocol').g_initiated"),
             ("idle.pre.sticky", "self.context.terminated.g_sticky"),
             ("idle.pre.timeout", "self.config.keep_alive_timeout >= 0")],
   ensures=[
       ("C07.timer.closes", "call_index('TCPServer._initiate_server_close') >= 0", "C07,C15,C16"),
       ("C07.timer.not-late", "call_time('TCPServer._initiate_server_close') <= clock0() + self.config.keep_alive_timeout", "C07,C15,C16"),
       ("C07.timer.not-early", "call_time('TCPServer._initiate_server_close') == clock0() + self.config.keep_alive_timeout or self.context.terminated.flag", "C07,C15,C16"),
   ],
   props=("C04", "C07", "C15"))

fn(T + ".run", params={}, model_opts=VIEWS,
   requires=[("run.pre.once", "not has(self, 'protocol') and not has(self, '_task_group') and self.idle_task.g_live == 0"),
             ("run.pre.timeout", "self.config.ssl_handshake_timeout >= 0 and (self.config.read_timeout is None or self.config.read_timeout >= 0)")],
   # a TLS handshake that fails or times out makes run() return before anything is wired; the
   # stream is then closed by trio.serve_listeners, which closes it when the handler returns (assumed)
   ensures=[c if c[0] != "C07.finally.closed" else ("C07.finally.closed", "call_index('TCPServer._close') >= 0 or (self.stream.is_ssl and 'handshake' not in net_ops())", "C07,C16") for c in RUN_CLAUSES("TrioSingleTask")] + [
       ("C13.alpn.server", "implies(call_index('ProtocolWrapper.__init__') >= 0, "
        "call_args('ProtocolWrapper.__init__')[6] == self.stream.is_ssl and implies(not self.stream.is_ssl, call_args('ProtocolWrapper.__init__')[10] == 'http/1.1') "
        "and implies(self.stream.is_ssl, call_args('ProtocolWrapper.__init__')[10] == self.stream.alpn))", "C13,C16"),
   ],
   props=("C04", "C07", "C16", "C14", "C13"))

# ------------------------------------------------------------------------------------ constructors
# Base case of what the other units assume about a server object: a lock and a keep-alive timer
# slot of its own (C08 "blocks neither other streams nor other connections", C07 one timer per
# connection), no protocol yet, and the caller's application / configuration / worker context /
# lifespan state / transport wired through unchanged (C14: the state every connection copies).
fn(A + ".__init__", inline=True, params={"app": "opaque", "loop": "opaque", "config": "obj hypercorn.config:Config", "context": "obj hypercorn.typing:WorkerContext",
                            "state": "dict{}", "reader": "obj asyncio:StreamReader", "writer": "obj asyncio:StreamWriter"},
   ensures=[
       ("C16.init.wiring", "same(self.app, app) and same(self.config, config) and same(self.context, context) and same(self.state, state)", "C16,C14"),
       ("C16.init.transport", "same(self.reader, reader) and same(self.writer, writer) and same(self.loop, loop)", "C16"),
       ("C08.init.own-lock", "trace_any('created', 'c', same(c, self.send_lock))", "C08,C16"),
       ("C07.init.no-timer", "self.idle_task._handle is None and self.idle_task.g_live == 0", "C07,C16"),
       ("C16.init.no-protocol", "not has(self, 'protocol')", "C16"),
   ],
   props=("C16", "C07", "C08", "C14"))
fn(T + ".__init__", inline=True, params={"app": "opaque", "config": "obj hypercorn.config:Config", "context": "obj hypercorn.typing:WorkerContext",
                            "state": "dict{}", "stream": "obj trio:Stream"},
   ensures=[
       ("C16.init.wiring", "same(self.app, app) and same(self.config, config) and same(self.context, context) and same(self.state, state)", "C16,C14"),
       ("C16.init.transport", "same(self.stream, stream)", "C16"),
       ("C08.init.own-lock", "trace_any('created', 'c', same(c, self.send_lock))", "C08,C16"),
       ("C07.init.no-timer", "self.idle_task._handle is None and self.idle_task.g_live == 0", "C07,C16"),
       ("C16.init.no-protocol", "not has(self, 'protocol')", "C16"),
   ],
   props=("C16", "C07", "C08", "C14"))


# an exception escaping a server unit breaks every property the unit is listed for (a write that
# raises into the application: C03; a close that raises: C07, C16 ...), not only C04
from pyvc.contracts import REG as _REG
for _q, _fc in list(_REG.fns.items()):
    if _q.startswith(A + ".") or _q.startswith(T + "."):
        _fc.model_opts = dict(_fc.model_opts or {}, exception_props=tuple(_fc.props))
