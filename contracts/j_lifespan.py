"""hypercorn/asyncio/lifespan.py and hypercorn/trio/lifespan.py (C14; the clauses are the same
for both classes and also count for C16).

startup / shutdown are never cleared (ghost `sticky` of the runtime event model, set by the
constructor contract; the model makes clear() on a sticky event an obligation), so once released a
waiter stays released."""
from pyvc.contracts import cls, fn

MSG = "msg(message:short)"
COMPLETE = "('lifespan.startup.complete', 'lifespan.shutdown.complete')"
FAILED = "('lifespan.startup.failed', 'lifespan.shutdown.failed')"

for MOD, EV, CANCEL, extra in (
    ("hypercorn.asyncio.lifespan", "asyncio:Event", "asyncio.CancelledError", {"app_queue": "obj asyncio:Queue", "loop": "opaque", "_started": "obj asyncio:Event"}),
    ("hypercorn.trio.lifespan", "trio:Event", "trio.Cancelled", {"app_send_channel": "obj trio:SendChannel", "app_receive_channel": "obj trio:ReceiveChannel"}),
):
    L = MOD + ":Lifespan"
    TYPES = "(LifespanFailureError, lib_asyncio.CancelledError)" if "asyncio" in MOD else "(LifespanFailureError, lib_trio.Cancelled)"
    cls(L, fields=dict({"app": "callable{record:app_calls;raises:Exception,LifespanFailureError," + CANCEL + ",BaseExceptionGroup}",
                        "config": "obj hypercorn.config:Config", "startup": "obj " + EV, "shutdown": "obj " + EV, "supported": "bool", "state": "dict{}"}, **extra),
        # g_startup_returned: wait_for_startup() has returned normally (the startup phase is over)
        ghost={"g_startup_returned": "bool"},
        inv=[("Lifespan.inv.sticky", "self.startup.sticky and self.shutdown.sticky", "C14")],
        # support is only ever withdrawn
        rely=[("Lifespan.rely.supported-monotone", "implies(not old(self.supported), not self.supported) and implies(old(self.g_startup_returned), self.g_startup_returned)", "C14")])

    fn(L + ".asgi_send", params={"message": MSG}, effect="atomic",
       raises={"LifespanFailureError": {"ensures": [
                   # C14.send: a failure reported by the application becomes LifespanFailureError
                   ("C14.send.failed", "message['type'] in " + FAILED, "C14,C16")] + ([
                   # C14 "startup.failed ... aborts the server with an error and nothing is served"
                   # (asyncio): worker_serve learns of the failure from the finished lifespan task,
                   # so the startup waiter must not be released before that task has ended -- an
                   # application that is still unwinding (an await in a finally block) would
                   # otherwise be served.  handle_lifespan's finally clause releases it.  (On trio
                   # the failing child cancels the worker through its nursery.)  Fixed in /repo cc29582.
                   ("C14.send.failed-does-not-release", "implies(message['type'] == 'lifespan.startup.failed', self.startup.flag == old(self.startup.flag))", "C14")] if "asyncio" in MOD else [])},
               "UnexpectedMessageError": {"ensures": [
                   ("C14.send.unknown", "message['type'] not in " + COMPLETE + " and message['type'] not in " + FAILED, "C14,C16")]}},
       ensures=[
           # a call that returns normally was a completion message and released the matching waiter
           ("C14.send.complete", "message['type'] in " + COMPLETE, "C14,C16"),
           ("C14.send.startup", "implies(message['type'] == 'lifespan.startup.complete', self.startup.flag)", "C14,C16"),
           ("C14.send.shutdown", "implies(message['type'] == 'lifespan.shutdown.complete', self.shutdown.flag)", "C14,C16"),
           ("C14.send.nothing-else", "implies(message['type'] == 'lifespan.startup.complete', self.shutdown.flag == old(self.shutdown.flag)) and implies(message['type'] == 'lifespan.shutdown.complete', self.startup.flag == old(self.startup.flag))", "C14,C16"),
       ],
       props=("C14", "C16"))

    for which, other in (("startup", "shutdown"), ("shutdown", "startup")):
        fn(L + ".wait_for_" + which, params={}, model_opts={"clock": True}, ghost_post=(["self.g_startup_returned = True"] if which == "startup" else []),
           requires=[("wait.pre.timeout", "self.config." + which + "_timeout >= 0")],
           raises={"LifespanTimeoutError": {"ensures": [
                       # C14.timeout: the wait is given up no earlier than <which>_timeout after the call
                       ("C14." + which + ".timeout.not-early", "clock() >= clock0() + self.config." + which + "_timeout", "C14,C16"),
                       ("C14." + which + ".timeout.asked", "n_emitted('app_msgs') == 1", "C14,C16")]}},
           ensures=[
               # the application is asked exactly once -- or not at all when it does not support lifespan
               ("C14." + which + ".asked-once", "n_emitted('app_msgs') <= 1 and trace_all('app_msgs', 'm', m['type'] == 'lifespan." + which + "')", "C14,C16"),
               ("C14." + which + ".unsupported-silent", "implies(n_emitted('app_msgs') == 0, not self.supported)", "C14,C16"),
               # C14.before: returning normally after asking means the application completed this
               # phase (or its lifespan task has ended, which releases both events)
               ("C14." + which + ".released", "implies(n_emitted('app_msgs') == 1, self." + which + ".flag)", "C14,C16"),
               # C14 "exceeding startup_timeout aborts the server": the wait never lasts longer than
               # the configured timeout, whatever its value (a timeout of 0 is a timeout, not "for ever")
               ("C14." + which + ".timeout.not-late", "implies(n_emitted('app_msgs') == 1, clock() <= call_time('wait:" + which + "') + self.config." + which + "_timeout)", "C14,C16,C15"),
           ],
           props=("C14", "C16"))

    fn(L + ".handle_lifespan", params={} if "asyncio" in MOD else {"task_status": "obj trio:TaskStatus"},
       raises={"LifespanFailureError": {"ensures": [("C14.handle.failure.releases", "self.startup.flag and self.shutdown.flag", "C14,C16")]},
               CANCEL: {"ensures": [("C14.handle.cancel.releases", "self.startup.flag and self.shutdown.flag", "C14,C16")]},
               "BaseExceptionGroup": {"ensures": [("C14.handle.group.releases", "self.startup.flag and self.shutdown.flag", "C14,C16")]}},
       ensures=[
           # whatever the application does, nobody is left waiting for it
           ("C14.handle.releases", "self.startup.flag and self.shutdown.flag", "C14,C16"),
           ("C14.handle.app-once", "n_emitted('app_calls') == 1", "C14,C16"),
           # C14.failure: a reported failure (alone or inside an exception group) is never swallowed:
           # the task ends with it, which is what aborts the server
           ("C14.handle.failure-propagates", "not trace_any('app_calls_raised', 'x', isinstance(x, LifespanFailureError) or (isinstance(x, BaseExceptionGroup) and group_has(x, " + TYPES + ")))", "C14,C16"),
           # any other error means: continue without lifespan support
           ("C14.handle.unsupported", "implies(n_emitted('app_calls_raised') == 1, not self.supported)", "C14,C16"),
       ],
       props=("C14", "C16"))

    fn(L + ".__init__", params={"app": "opaque", "config": "obj hypercorn.config:Config", "state": "dict{}"} if "trio" in MOD else
       {"app": "opaque", "config": "obj hypercorn.config:Config", "loop": "opaque", "lifespan_state": "dict{}"},
       inline=True, ghost_post=["self.startup.sticky = True", "self.shutdown.sticky = True"],
       ensures=[("C14.init", "self.supported and not self.startup.flag and not self.shutdown.flag and same(self.state, " + ("state" if "trio" in MOD else "lifespan_state") + ")", "C14,C16")],
       props=("C14", "C16"))
