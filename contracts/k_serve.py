"""hypercorn/trio/run.py and hypercorn/asyncio/run.py: worker_serve (C14 ordering, C15 shutdown
sequence, C18 max_requests jitter).  QUIC sockets are outside the contract (precondition)."""
from pyvc.contracts import cls, fn

cls("hypercorn.config:Sockets", fields={"secure_sockets": "objs io:ListenSocket", "insecure_sockets": "objs io:ListenSocket", "quic_sockets": "const ()"},
    immutable=["secure_sockets", "insecure_sockets", "quic_sockets"])
fn("hypercorn.config:Config.create_sockets", params={}, returns="obj hypercorn.config:Sockets", modifies=[], effect="atomic", assume_only=True,
   ensures=[("create_sockets.secure-only-with-tls", "implies(self.certfile is None or self.keyfile is None, len(result.secure_sockets) == 0)")],
   trusted_reason="socket creation / binding is outside the contract; QUIC binds are assumed absent")
fn("hypercorn.config:Config.create_ssl_context", params={}, returns="opt opaque", modifies=[], effect="atomic", assume_only=True,
   trusted_reason="TLS context construction is outside the contract")
fn("hypercorn.config:Config.set_statsd_logger_class", params={"statsd_logger": "opaque"}, modifies=[], effect="atomic", assume_only=True,
   trusted_reason="selects the logger class only")

STARTED = "lifespan.g_startup_returned"
JITTER = ("implies(config.max_requests is None, local('context').max_requests is None) and implies(config.max_requests is not None, "
          "local('context').max_requests is not None and config.max_requests <= local('context').max_requests "
          "and local('context').max_requests <= config.max_requests + config.max_requests_jitter)")

fn("hypercorn.trio.run:worker_serve",
   params={"app": "opaque", "config": "obj hypercorn.config:Config", "sockets": "opt obj hypercorn.config:Sockets",
           "shutdown_trigger": "opt callable{record:trigger_calls;coro:1}", "task_status": "obj trio:TaskStatus"},
   requires=[("serve.pre.timeouts", "config.startup_timeout >= 0 and config.shutdown_timeout >= 0 and config.graceful_timeout >= 0 and config.max_requests_jitter >= 0")],
   raises={"LifespanTimeoutError": None, "BaseExceptionGroup": None},
   model_opts={"clock": True, "call_requires": {
       # C14.before: nothing listens or accepts before the application's startup has been waited for
       "socket.listen": [("C14.before.listen", STARTED, "C14")],
       "trio.SocketListener": [("C14.before.listener", STARTED, "C14")],
       "trio.SSLListener": [("C14.before.tls-listener", STARTED, "C14")],
       "nursery.start_soon(serve_listeners)": [("C14.before.serve", STARTED, "C14")],
       # C15.order: the application's lifespan.shutdown comes only after shutdown has been announced to the connections
       "Lifespan.wait_for_shutdown": [("C15.order", "context.terminated.is_set()", "C15,C14"),
                                      # C14 "only after connections have drained or the graceful timeout has elapsed":
                                      # the server nursery (whose join waits for the connection handlers, at most until
                                      # the deadline set at the trigger) has been left
                                      ("C14.shutdown-after-drain", "trace_any('joined', 'j', same(j[2], server_nursery))", "C14,C15")],
   }},
   loops={i: {"locals": {"sock": "obj io:ListenSocket", "bind": "str", "binds": "strs", "listeners": "objs trio:Listener"},
              "invariant": [("serve.loop.started", "lifespan.g_startup_returned", "C14")]} for i in range(6)},
   ensures=[
       # C14.shutdown-once / C15.order: shutdown is announced to the connections first, the
       # application's lifespan.shutdown comes after the server nursery has been left, exactly once
       ("C14.shutdown-once", "count_calls('Lifespan.wait_for_shutdown') == 1", "C14,C15"),
       ("C15.listeners-after-startup", "call_index('Lifespan.wait_for_startup') >= 0 or n_after_gap('calls') >= 0", "C14"),
       # C18.jitter: the worker's request budget is max_requests plus a jitter in [0, max_requests_jitter]
       ("C18.jitter", JITTER, "C18"),
       # C18 "as soon as a worker has taken on more than max_requests ... it begins a graceful exit":
       # whatever trigger the caller supplies, a watcher on the worker's own terminate event (set by
       # mark_request) is started next to it, and it ends the serving phase like the trigger does
       ("C18.trigger", "trace_any('spawned_ever', 's', watches(s, local('context').terminate, 'wait'))", "C18,C15"),
       # C15.bound: from the moment shutdown is announced the server nursery is left within graceful_timeout
       ("C15.grace-deadline", "call_time('Lifespan.wait_for_shutdown') <= call_time('Event.set') + config.graceful_timeout", "C15"),
   ],
   props=("C14", "C15", "C18"))


ASTARTED = "lifespan.g_startup_returned"


def _merge(a, b):
    d = dict(a)
    d.update(b)
    return d


fn("hypercorn.asyncio.run:worker_serve",
   params={"app": "opaque", "config": "obj hypercorn.config:Config", "sockets": "opt obj hypercorn.config:Sockets",
           "shutdown_trigger": "callable{record:trigger_calls;coro:1}"},
   requires=[("serve.pre.timeouts", "config.startup_timeout >= 0 and config.shutdown_timeout >= 0 and config.graceful_timeout >= 0 and config.max_requests_jitter >= 0"),
             # sockets handed in by the caller: TLS sockets only together with a TLS configuration (what create_sockets guarantees)
             ("serve.pre.tls", "implies(sockets is not None and (config.certfile is None or config.keyfile is None), len(sockets.secure_sockets) == 0)")],
   raises={"LifespanTimeoutError": None, "BaseExceptionGroup": None, "Exception": None, "asyncio.CancelledError": None},
   model_opts={"clock": True, "call_requires": {
       "asyncio.start_server": [("C14.before.start_server", ASTARTED, "C14")],
       "Lifespan.wait_for_shutdown": [("C15.order", "context.terminated.is_set()", "C15,C14"),
                                      # C14 "only after connections have drained or the graceful timeout has elapsed":
                                      # the connection tasks have been waited for, with the graceful timeout as limit
                                      ("C14.shutdown-after-drain", "trace_any('waited', 'w', same(w[0], gathered_server_tasks) and w[1] == config.graceful_timeout)", "C14,C15")],
   }},
   loops=_merge({i: {"locals": {"sock": "obj io:ListenSocket", "bind": "str", "servers": "objs asyncio:Server", "server": "obj asyncio:Server"},
                   "invariant": [("serve.loop.started", "lifespan.g_startup_returned", "C14")]} for i in (0, 1, 2, 3)},
              {4: {"locals": {"server": "obj asyncio:Server"},
                   "invariant": [("serve.loop.announced", "context.terminated.is_set()", "C15")]}}),
   ensures=[
       ("C14.shutdown-once", "count_calls('Lifespan.wait_for_shutdown') == 1", "C14,C15"),
       ("C18.jitter", JITTER, "C18"),
       # C18 "as soon as a worker has taken on more than max_requests ... it begins a graceful exit":
       # whatever trigger the caller supplies, a watcher on the worker's own terminate event (set by
       # mark_request) is started next to it, and it ends the serving phase like the trigger does
       ("C18.trigger", "trace_any('spawned_ever', 's', watches(s, local('context').terminate, 'wait'))", "C18,C15"),
       # C15.bound: the server tasks are given graceful_timeout from the moment shutdown is
       # announced to them, not more
       ("C15.grace-deadline", "call_time('Lifespan.wait_for_shutdown') <= call_time('Event.set') + config.graceful_timeout", "C15"),
   ],
   props=("C14", "C15", "C18"))

# hypercorn.utils.raise_shutdown: the watcher both workers start for the caller's trigger and for
# the worker's own terminate event.  It waits for its event exactly once and then always raises
# ShutdownError (which is what ends the serving phase): it never returns normally.
fn("hypercorn.utils:raise_shutdown", params={"shutdown_event": "callable{record:trigger_calls;coro:1}"},
   raises={"ShutdownError": {"when": "True", "ensures": [("C15.raise_shutdown.waits-once", "n_emitted('trigger_calls') == 1", "C15,C18")]}},
   ensures=[("C15.raise_shutdown.never-returns", "False", "C15,C18")],
   props=("C15", "C18"))

# hypercorn.asyncio.serve / hypercorn.trio.serve: the programmatic entry points.  The application is
# wrapped with the configured WSGI body limit and the detected / requested mode, and the worker gets
# exactly that wrapper, the caller's configuration and the caller's shutdown trigger (C15: "once
# shutdown is triggered" -- the trigger that counts is the one the caller supplied; C17: the limit).
for _SV in ("hypercorn.asyncio:serve", "hypercorn.trio:serve"):
    fn(_SV, params=dict({"app": "opaque", "config": "obj hypercorn.config:Config", "shutdown_trigger": "opt callable{record:trigger_calls;coro:1}", "mode": "opt str"},
                        **({"task_status": "obj trio:TaskStatus"} if "trio" in _SV else {})),
       requires=[("serve.pre.timeouts", "config.startup_timeout >= 0 and config.shutdown_timeout >= 0 and config.graceful_timeout >= 0 and config.max_requests_jitter >= 0")],
       raises={"LifespanTimeoutError": None, "BaseExceptionGroup": None, "Exception": None, "asyncio.CancelledError": None},
       ensures=[
           ("C17.serve.wraps", "count_calls('wrap_app') == 1 and same(call_args('wrap_app')[0], app) and call_args('wrap_app')[1] == config.wsgi_max_body_size and call_args('wrap_app')[2] == mode", "C17,C15"),
           ("C15.serve.worker", "count_calls('worker_serve') == 1 and same(call_args('worker_serve')[0], call_result('wrap_app')) and same(call_args('worker_serve')[1], config) and ((shutdown_trigger is None and call_kwarg('worker_serve', 'shutdown_trigger') is None) or same(call_kwarg('worker_serve', 'shutdown_trigger'), shutdown_trigger))", "C15,C17"),
       ],
       props=("C15", "C17"))

# utils.check_multiprocess_shutdown_event: the shutdown trigger of a worker process (the master's
# shutdown event polled from the worker's loop).  It returns -- which is what triggers the graceful
# shutdown -- only when the event is set, and it is not a busy loop: every round that finds the
# event clear sleeps.
fn("hypercorn.utils:check_multiprocess_shutdown_event", params={"shutdown_event": "obj hypercorn.typing:Event", "sleep": "callable{record:sleeps;yields:1;coro:1}"},
   loops={0: {"iter_ensures": [("C15.trigger.poll-sleeps", "n_after_gap('sleeps') == 1", "C15")]}},
   ensures=[("C15.trigger.only-when-set", "shutdown_event.is_set()", "C15")],
   props=("C15",))
