"""hypercorn/app_wrappers.py (WSGIWrapper) and hypercorn/middleware/wsgi.py (C17)."""
from pyvc.contracts import cls, fn

W = "hypercorn.app_wrappers:WSGIWrapper"
# what the server puts on the application queue for an http scope: {"type": "http.request", "body": bytes, "more_body": bool} / http.disconnect
RECV = "callable{record:received;returns:msg(body:payload=bytes;more_body:short=bool)}"
SEND = "callable{record:asgi_sent}"
# sync_spawn runs the WSGI application in a thread and re-raises what it raised
SPAWN = "callable{record:spawned_sync;raises:Exception;yields:1}"
SCOPE = "dict{type:str;path:str;root_path:str;method:str;query_string:bstr;http_version:str;scheme:str;headers:hdrs;server:opt tuple(str;int);client:opt tuple(str;int)}"

cls(W, fields={"app": "obj pyvc:WSGIApp", "max_body_size": "int"}, immutable=["app", "max_body_size"])

fn(W + ".__call__", params={"scope": SCOPE, "receive": RECV, "send": SEND, "sync_spawn": SPAWN, "call_soon": "opaque"},
   requires=[("call.pre.ascii", "is_ascii(scope['query_string']) and is_ascii(scope['root_path']) and is_ascii(scope['path'])")],
   raises={"Exception": None},
   ensures=[
       # C17.ws: a WebSocket request is refused
       ("C17.ws.refused", "implies(scope['type'] == 'websocket', n_emitted('asgi_sent') == 1 and emitted('asgi_sent')[0]['type'] == 'websocket.close' and call_index('WSGIWrapper.handle_http') < 0)", "C17"),
       ("C17.http.handled", "implies(scope['type'] == 'http', call_index('WSGIWrapper.handle_http') == 0 and n_emitted('asgi_sent') == 0)", "C17"),
       ("C17.lifespan.ignored", "implies(scope['type'] == 'lifespan', n_emitted('asgi_sent') == 0 and call_index('WSGIWrapper.handle_http') < 0)", "C17"),
   ],
   props=("C17",))

fn(W + ".handle_http", params={"scope": SCOPE, "receive": RECV, "send": SEND, "sync_spawn": SPAWN, "call_soon": "opaque"},
   requires=[("http.pre.ascii", "is_ascii(scope['query_string']) and is_ascii(scope['root_path']) and is_ascii(scope['path'])")],
   loops={0: {"locals": {"message": "msg(body:payload=bytes;more_body:short=bool)", "body": "bytes"}}},
   # C05 "never bytes that parse as a complete response": when the application (its iterable) fails,
   # the failure is passed on -- the caller answers 500 or cuts the response short -- and this
   # function itself sends nothing more, in particular not the final empty body that would
   # complete the response
   raises={"Exception": {"ensures": [("C05.wsgi.no-final-body-on-error", "n_after_gap('asgi_sent') == 0", "C05,C17")]}},
   ensures=[
       # C17.once: the application is reached at most once, only through sync_spawn(self.run_app, ...) (off the event loop)
       ("C17.once", "n_after_gap('spawned_sync') <= 1 and trace_all('spawned_sync', 's', is_method_of(s[0], self, 'run_app'))", "C17"),
       # C17.too-large: a body over wsgi_max_body_size is answered 400 and the application is never called
       ("C17.too-large", "implies(len(local('body')) > self.max_body_size, n_after_gap('spawned_sync') == 0 and n_after_gap('asgi_sent') == 2 "
        "and after_gap('asgi_sent')[0]['type'] == 'http.response.start' and after_gap('asgi_sent')[0]['status'] == 400 "
        "and after_gap('asgi_sent')[1]['type'] == 'http.response.body' and after_gap('asgi_sent')[1]['more_body'] == False)", "C17"),
       # otherwise the response is closed by exactly one final empty body message
       ("C17.final-body", "implies(len(local('body')) <= self.max_body_size, n_after_gap('asgi_sent') >= 1 and after_gap('asgi_sent')[-1]['type'] == 'http.response.body' "
        "and after_gap('asgi_sent')[-1]['body'] == b'' and after_gap('asgi_sent')[-1]['more_body'] == False)", "C17"),
       ("C17.spawned-with-body", "implies(n_after_gap('spawned_sync') == 1, call_index('_build_environ') >= 0 and same(after_gap('spawned_sync')[0][1], call_result('_build_environ')))", "C17"),
   ],
   props=("C17",))

START_IS = lambda m: ("%s['type'] == 'http.response.start' and %s['status'] == wsgi_body().code "
                      "and %s['headers'] == [(name.lower().encode('latin-1'), value.encode('latin-1')) for name, value in wsgi_body().headers]" % (m, m, m))

# Executable statement of what C17 says about run_app, used only when run_app leaves the verifier's
# subset (bounded native search, labelled): scripted PEP 3333 applications -- eager or lazy
# start_response, 0..3 chunks, a failure before / at any chunk -- run through the real run_app.
class _ScriptedBody:
    def __init__(self, script, start_response, lazy):
        self.script, self.start_response, self.lazy = list(script), start_response, lazy
        self.closed = 0
        self.i = 0

    def __iter__(self):
        return self

    def __next__(self):
        if self.lazy:
            self.start_response("200 OK", [("X-A", "b")])
            self.lazy = False
        if self.i >= len(self.script):
            raise StopIteration
        x = self.script[self.i]
        self.i += 1
        if x is None:
            raise RuntimeError("application failed while producing a chunk")
        return x

    def close(self):
        self.closed += 1


def _run_app_args(rng):
    from hypercorn.app_wrappers import WSGIWrapper

    script = [rng.choice([b"a", b"bc", b"", None]) for _ in range(rng.choice([0, 1, 1, 2, 3]))]
    lazy = rng.random() < 0.5
    never = rng.random() < 0.1
    box = {}

    def app(environ, start_response):
        if not lazy and not never:
            start_response("200 OK", [("X-A", "b")])
        box["body"] = _ScriptedBody(script, start_response, lazy and not never)
        return box["body"]

    sent = []
    w = WSGIWrapper(app, 1024)
    return {"self": w, "environ": {"REQUEST_METHOD": "GET"}, "send": sent.append, "_box": box, "_sent": sent, "_script": script, "_never": never}


def _run_app_oracle(args, result, exc=None):
    """close() of the iterable is called exactly once, also when the application fails; the chunks
    produced before a failure are forwarded unchanged, in order, after exactly one response start"""
    body = args["_box"].get("body")
    if body is None or body.closed != 1:
        return False
    sent = args["_sent"]
    good = []
    for x in args["_script"]:
        if x is None:
            break
        good.append(x)
    if args["_never"]:
        return exc is not None and len(sent) == 0
    starts = [m for m in sent if m["type"] == "http.response.start"]
    bodies = [m["body"] for m in sent if m["type"] == "http.response.body"]
    failed = None in args["_script"]
    if not failed and (exc is not None or len(starts) != 1):
        return False
    return bodies == good[:len(bodies)] and (failed or bodies == good) and len(starts) <= 1 and (not bodies or sent[0]["type"] == "http.response.start")


fn(W + ".run_app", params={"environ": "opaque", "send": "callable{record:sent_sync;yields:0}"}, effect="atomic",
   model_opts={"native_args": _run_app_args, "native_oracle": _run_app_oracle, "native_oracle_name": "C17.close+chunks (native oracle)"},
   raises={"RuntimeError": {"ensures": [
       # C17.lazy: start_response may be called lazily, when the first chunk is produced (PEP 3333);
       # giving up is right only for an application that never calls it
       ("C17.lazy", "wsgi_body().mode == 'never'", "C17"),
       # C17.close: even then the iterable is closed
       ("C17.close.on-error", "implies(wsgi_body().has_close, wsgi_body().n_close == 1)", "C17")]},
       "ValueError": None},
   loops={0: {"locals": {"output": "bytes", "first_chunk": "bool", "response_started": "bool"},
              "also_modifies": ["response_started"],
              # the flag start_response sets is the application's "started"; the start message goes out with the first chunk
              "invariant": [("C17.started-flag", "response_started == wsgi_body().started", "C17")],
              "iter_ensures": [
                  # C17.start / C17.chunks: the first chunk is preceded by exactly one http.response.start carrying the
                  # application's status and headers; every chunk becomes one body message, unchanged, more_body=True
                  ("C17.chunks.count", "n_after_gap('wsgi_chunks') == 1 and n_after_gap('sent_sync') == (2 if at_iter_start('first_chunk') else 1)", "C17"),
                  ("C17.start.first", "implies(at_iter_start('first_chunk'), " + START_IS("after_gap('sent_sync')[0]") + ")", "C17"),
                  ("C17.chunks.body", "after_gap('sent_sync')[-1]['type'] == 'http.response.body' and after_gap('sent_sync')[-1]['more_body'] == True "
                   "and after_gap('sent_sync')[-1]['body'] == after_gap('wsgi_chunks')[0]", "C17"),
                  ("C17.start.once", "not first_chunk", "C17")]}},
   ensures=[
       ("C17.app-once", "wsgi_body() is not None", "C17"),
       # an application that produced no chunk still gets its response start
       ("C17.start.empty-body", "implies(local('first_chunk'), n_after_gap('sent_sync') == 1 and " + START_IS("after_gap('sent_sync')[0]") + ")", "C17"),
       # C17.close: close() of the returned iterable is called exactly once when it has one
       ("C17.close", "implies(wsgi_body().has_close, wsgi_body().n_close == 1) and implies(not wsgi_body().has_close, wsgi_body().n_close == 0)", "C17"),
   ],
   props=("C17",))

CNAME = ("('CONTENT_LENGTH' if latin1(h[0]) == 'content-length' else ('CONTENT_TYPE' if latin1(h[0]) == 'content-type' else 'HTTP_' + latin1(h[0]).upper().replace('-', '_')))")
# the comma-join over the whole header list, as recursive spec functions (used as the oracle of the
# bounded native search; the proved form is the per-header step C17.environ.header-step)
from pyvc.contracts import specfn
specfn("env_has", ["hs:hdrs", "n:int", "key:str"], rec="n", returns="bool", base="False",
       step="(" + CNAME.replace("h[0]", "hs[n - 1][0]") + " == key) or env_has(hs, n - 1, key)")
specfn("env_join", ["hs:hdrs", "n:int", "key:str"], rec="n", returns="str", base="''",
       step="ite(" + CNAME.replace("h[0]", "hs[n - 1][0]") + " == key, ite(env_has(hs, n - 1, key), env_join(hs, n - 1, key) + ',' + latin1(hs[n - 1][1]), latin1(hs[n - 1][1])), env_join(hs, n - 1, key))")
fn("hypercorn.app_wrappers:_build_environ", params={"scope": SCOPE, "body": "bytes"}, modifies=[], effect="atomic",
   returns="dict{REQUEST_METHOD:str;SCRIPT_NAME:str;PATH_INFO:str;QUERY_STRING:str;SERVER_PROTOCOL:str;wsgi.url_scheme:str;wsgi.input:obj io:IOBuf}",
   # ASGI: query_string is percent-encoded, i.e. ASCII; root_path / path are taken as ASCII here (the
   # utf-8 -> latin-1 transcoding of PEP 3333 is the identity on ASCII and uninterpreted otherwise)
   requires=[("environ.pre.ascii", "is_ascii(scope['query_string']) and is_ascii(scope['root_path']) and is_ascii(scope['path'])")],
   raises={"InvalidPathError": {"ensures": [("C17.environ.invalid-path", "not scope['path'].startswith(scope['root_path'])", "C17")]}},
   loops={0: {"locals": {"raw_name": "bstr", "raw_value": "bstr", "name": "str", "value": "str", "corrected_name": "str"},
              # the request line variables are not touched by the header loop (no header maps onto them)
              "invariant": [("C17.environ.fixed.method", "environ['REQUEST_METHOD'] == scope['method']", "C17"),
                            ("C17.environ.fixed.script", "environ['SCRIPT_NAME'] == scope['root_path']", "C17"),
                            ("C17.environ.fixed.query", "environ['QUERY_STRING'] == latin1(scope['query_string'])", "C17"),
                            ("C17.environ.fixed.protocol", "environ['SERVER_PROTOCOL'] == 'HTTP/' + scope['http_version']", "C17"),
                            ("C17.environ.fixed.scheme", "environ['wsgi.url_scheme'] == scope['scheme']", "C17"),
                            ("C17.environ.fixed.path", "environ['PATH_INFO'] == path", "C17"),
                            ("C17.environ.fixed.input", "environ['wsgi.input'].content == body and not environ['wsgi.input'].is_text", "C17")],
              # C17.environ.headers: each header line sets its variable (CONTENT_LENGTH, CONTENT_TYPE, HTTP_<NAME>) to its value,
              # or appends ',' + value when the variable is already there (repeated headers are comma-joined, in order)
              "iter_ensures": [("C17.environ.header-step",
                                "environ[" + CNAME.replace("h[0]", "raw_name") + "] == "
                                "((at_iter_start('environ')[" + CNAME.replace("h[0]", "raw_name") + "] + ',' + latin1(raw_value)) "
                                "if (" + CNAME.replace("h[0]", "raw_name") + " in at_iter_start('environ')) else latin1(raw_value))", "C17")]}},
   ensures=[
       # C17.environ: method, script name / path info split by root_path, query string, protocol, scheme, input
       ("C17.environ.request-line", "result['REQUEST_METHOD'] == scope['method'] and result['SCRIPT_NAME'] == scope['root_path'] "
        "and result['QUERY_STRING'] == latin1(scope['query_string']) and result['SERVER_PROTOCOL'] == 'HTTP/' + scope['http_version'] and result['wsgi.url_scheme'] == scope['scheme']", "C17"),
       # PEP 3333: PATH_INFO is empty or starts with "/" -- the request path is split at root_path
       # on a segment boundary ("/application/x" is not under the root "/app")
       ("C17.environ.path-rooted", "result['PATH_INFO'] == '' or result['PATH_INFO'].startswith('/')", "C17"),
       ("C17.environ.path-info", "scope['path'].startswith(scope['root_path']) and result['PATH_INFO'] == (scope['path'][len(scope['root_path']):] if scope['path'] != scope['root_path'] else '/')", "C17"),
       ("C17.environ.input", "result['wsgi.input'].content == body and not result['wsgi.input'].is_text", "C17"),
   ],
   # bounded (native search only, not proved): every header's variable holds the comma-join, in
   # order, of the values of all header lines that map onto it
   oracle_ensures=[("C17.environ.headers-joined", "all(result[" + CNAME + "] == env_join(scope['headers'], len(scope['headers']), " + CNAME + ") for h in scope['headers'])", "C17")],
   props=("C17",))

# ------------------------------------------------------------------------------------------------
# the thread -> event loop bridges: run_app hands every message to call_soon(send, message) and
# relies on the message having been sent when the call returns (ordering, backpressure, errors)
for MW in ("hypercorn.middleware.wsgi:AsyncioWSGIMiddleware", "hypercorn.middleware.wsgi:TrioWSGIMiddleware"):
    cls(MW, fields={"wsgi_app": "obj pyvc:BridgeProbe", "max_body_size": "int"}, immutable=["wsgi_app", "max_body_size"])
    fn(MW + ".__call__", params={"scope": "opaque", "receive": "opaque", "send": "opaque"},
       ensures=[("C17.middleware.delegates", "n_emitted('wsgi_app_calls') == 1 and same(emitted('wsgi_app_calls')[0][0], scope) and same(emitted('wsgi_app_calls')[0][1], receive) and same(emitted('wsgi_app_calls')[0][2], send)", "C17")],
       props=("C17",))

# ------------------------------------------------------------------------------------------------
# How an application gets its wrapper (C17 "a body larger than wsgi_max_body_size is answered 400":
# the limit the wrapper enforces is the configured one; C01/C05: an ASGI application is called
# with exactly the scope / receive / send the server built).
AWR = "hypercorn.app_wrappers:ASGIWrapper"
cls(AWR, fields={"app": "callable{record:app_calls;yields:1}"}, immutable=["app"])
fn(AWR + ".__init__", params={"app": "callable{record:app_calls;yields:1}"}, inline=True,
   ensures=[("C01.wrapper.app", "same(self.app, app)", "C01,C17")], props=("C01", "C17"))
fn(AWR + ".__call__", params={"scope": "opaque", "receive": "opaque", "send": "opaque", "sync_spawn": "opaque", "call_soon": "opaque"},
   ensures=[("C01.wrapper.pass-through", "n_emitted('app_calls') == 1 and same(emitted('app_calls')[0][0], scope) and same(emitted('app_calls')[0][1], receive) and same(emitted('app_calls')[0][2], send)", "C01,C05,C17")],
   props=("C01", "C05", "C17"))
fn(W + ".__init__", params={"app": "opaque", "max_body_size": "int"}, inline=True,
   ensures=[("C17.wrapper.limit", "same(self.app, app) and self.max_body_size == max_body_size", "C17")], props=("C17",))
fn("hypercorn.utils:wrap_app", params={"app": "opaque", "wsgi_max_body_size": "int", "mode": "opt str"},
   ensures=[
       # an explicit mode decides; the WSGI wrapper carries the configured body limit
       ("C17.wrap.wsgi", "implies(mode == 'wsgi', isinstance(result, WSGIWrapper) and same(result.app, app) and result.max_body_size == wsgi_max_body_size)", "C17"),
       ("C17.wrap.asgi", "implies(mode == 'asgi', isinstance(result, ASGIWrapper) and same(result.app, app))", "C17,C01"),
       ("C17.wrap.detected", "implies(mode is None, same(result.app, app) and implies(isinstance(result, WSGIWrapper), result.max_body_size == wsgi_max_body_size))", "C17"),
   ],
   props=("C17",))


# utils.is_asgi decides, when no mode is given, whether an application is called as ASGI (a
# coroutine function, or an object whose __call__ is one) or as WSGI (anything else, called in a
# thread with (environ, start_response)).  C17 "a WSGI application is called ... off the event
# loop, with an environ": a synchronous callable is WSGI however it is decorated -- what counts is
# how *it* is called, not what it wraps.  Symbolically the answer of inspect.iscoroutinefunction is
# not modelled (either); the executable statement below is used when the unit leaves the subset.
def _is_asgi_args(rng):
    import functools

    async def coro_app(scope, receive, send):
        pass

    def wsgi_app(environ, start_response):
        return []

    class AsyncCallable:
        async def __call__(self, scope, receive, send):
            pass

    class SyncCallable:
        def __call__(self, environ, start_response):
            return []

    @functools.wraps(coro_app)
    def sync_wrapper_of_coroutine(environ, start_response):  # a WSGI adapter around an async handler
        return []

    @functools.wraps(wsgi_app)
    async def async_wrapper_of_function(scope, receive, send):
        pass

    class SyncCallableWrapping:
        __wrapped__ = coro_app

        def __call__(self, environ, start_response):
            return []

    apps = [(coro_app, True), (wsgi_app, False), (AsyncCallable(), True), (SyncCallable(), False), (sync_wrapper_of_coroutine, False),
            (async_wrapper_of_function, True), (SyncCallableWrapping(), False), (functools.partial(wsgi_app), False), (42, False)]
    app, want = rng.choice(apps)
    return {"app": app, "_want": want}


fn("hypercorn.utils:is_asgi", params={"app": "opaque"}, returns="bool", modifies=[], effect="atomic",
   model_opts={"native_args": _is_asgi_args, "native_oracle": lambda args, result, exc=None: exc is None and result == args["_want"],
               "native_oracle_name": "C17.is_asgi.by-calling-convention (native oracle)"},
   props=("C17",))
