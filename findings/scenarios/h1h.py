"""Native harness: the real ProtocolWrapper/H11Protocol of the tree under test fed with raw bytes."""
import asyncio

from hypercorn.app_wrappers import ASGIWrapper
from hypercorn.asyncio.task_group import TaskGroup
from hypercorn.asyncio.worker_context import WorkerContext
from hypercorn.config import Config
from hypercorn.events import Closed, RawData, Updated
from hypercorn.protocol import ProtocolWrapper
from hypercorn.typing import ConnectionState


class Log:
    def __init__(self):
        self.records = []
        self.errors = []

    async def access(self, req, resp, t):
        self.records.append((req["type"], None if resp is None else resp["status"]))

    async def exception(self, *a, **k):
        self.errors.append(a)

    async def warning(self, *a, **k):
        pass

    async def info(self, *a, **k):
        pass


class H1:
    def __init__(self, app, config=None, alpn="http/1.1", fail_write_at=None):
        self.app = app
        self.config = config or Config()
        self.out = []
        self.wire = b""
        self.closed = False
        self.idle = None
        self.log = Log()
        self.config._log = self.log
        self.alpn = alpn
        self.fail_write_at = fail_write_at  # index of the RawData write that fails (peer gone)
        self.n_writes = 0

    async def send(self, event):
        self.out.append(event)
        if isinstance(event, RawData):
            self.n_writes += 1
            if self.fail_write_at is not None and self.n_writes >= self.fail_write_at:
                # what both TCPServer.protocol_send do on a failed write
                await self.proto.handle(Closed())
                return
            self.wire += event.data
        elif isinstance(event, Closed):
            self.closed = True
        elif isinstance(event, Updated):
            self.idle = event.idle

    async def run(self, script):
        self.ctx = WorkerContext(None)
        async with TaskGroup(asyncio.get_running_loop()) as tg:
            self.proto = ProtocolWrapper(ASGIWrapper(self.app), self.config, self.ctx, tg, ConnectionState({}), False, ("1.1.1.1", 1), ("2.2.2.2", 2), self.send, self.alpn)
            await self.proto.initiate()
            return await script(self)

    async def feed(self, data):
        await self.proto.handle(RawData(data))
        await self.settle()

    async def settle(self):
        for _ in range(30):
            await asyncio.sleep(0)


def run_h1(app, script, timeout=5, **kw):
    h = H1(app, **kw)
    try:
        r = asyncio.run(asyncio.wait_for(h.run(script), timeout))
        return h, r, None
    except BaseException as e:  # noqa
        return h, None, e


def flatten(e):
    if isinstance(e, BaseExceptionGroup):
        out = []
        for x in e.exceptions:
            out.extend(flatten(x))
        return out
    return [e]


def names(exc):
    return [type(x).__name__ for x in flatten(exc)] if exc is not None else []
