"""Native demonstrations (real h2, real H2Protocol) of the known findings on the HTTP/2 path.
Each function returns (reproduced: bool, detail: str)."""
import asyncio

import h2.events

from h2h import GET, Harness, flatten, quiet_config, run_scenario


async def ok_app(scope, receive, send):
    await send({"type": "http.response.start", "status": 200, "headers": []})
    await send({"type": "http.response.body", "body": b"hi"})


def _names(exc):
    return [type(x).__name__ for x in flatten(exc)] if exc is not None else []


def F4a():
    """DATA arriving after the response completed: KeyError escapes the connection handler"""
    async def sc(h):
        h.client.send_headers(1, GET + [(b"content-length", b"5")], end_stream=False)
        await h.flush()  # app answers without reading the body; stream object is dropped
        h.client.send_data(1, b"hello", end_stream=True)
        await h.flush()
        return True
    h, r, exc = run_scenario(ok_app, sc)
    return ("KeyError" in _names(exc)), f"exception escaping handle(): {_names(exc)}"


def F4b():
    """plain CONNECT without :path: UnboundLocalError"""
    async def sc(h):
        h.client.send_headers(1, [(b":method", b"CONNECT"), (b":authority", b"x:80")], end_stream=False)
        await h.flush()
        return True
    h, r, exc = run_scenario(ok_app, sc)
    return ("UnboundLocalError" in _names(exc)), f"exception escaping handle(): {_names(exc)}"


def F4c():
    """non-ASCII :path: UnicodeDecodeError escapes"""
    async def sc(h):
        h.client.send_headers(1, [(b":method", b"GET"), (b":scheme", b"http"), (b":authority", b"x"), (b":path", b"/\xff")], end_stream=True)
        await h.flush()
        return True
    h, r, exc = run_scenario(ok_app, sc)
    n = _names(exc)
    return ("UnicodeDecodeError" in n or "AttributeError" in n), f"exception escaping handle(): {n} (UnicodeDecodeError on the request, then AttributeError: scope on close)"


def F4c_method():
    """non-ASCII :method: UnicodeDecodeError escapes _create_stream"""
    async def sc(h):
        h.client.send_headers(1, [(b":method", b"G\xffT"), (b":scheme", b"http"), (b":authority", b"x"), (b":path", b"/")], end_stream=True)
        await h.flush()
        return True
    h, r, exc = run_scenario(ok_app, sc)
    return ("UnicodeDecodeError" in _names(exc)), f"exception escaping handle(): {_names(exc)}"


def F4d():
    """PRIORITY frames for > 1000 distinct idle streams: priority.TooManyStreamsError escapes"""
    async def sc(h):
        for i in range(1001):
            h.client.prioritize(2 * i + 1, weight=10)
        await h.flush()
        return True
    h, r, exc = run_scenario(ok_app, sc, timeout=20)
    return ("TooManyStreamsError" in _names(exc)), f"exception escaping handle(): {_names(exc)}"


def F5():
    """application raises after the response start: no RST_STREAM / END_STREAM reaches the client"""
    async def crash(scope, receive, send):
        await send({"type": "http.response.start", "status": 200, "headers": [(b"content-length", b"10")]})
        await send({"type": "http.response.body", "body": b"hi", "more_body": True})
        raise RuntimeError("boom")

    async def sc(h):
        h.client.send_headers(1, GET, end_stream=True)
        await h.flush()
        await h.flush()
        return [type(e).__name__ for e in h.events]
    h, r, exc = run_scenario(crash, sc)
    evs = r or []
    ended = ("StreamReset" in evs) or ("StreamEnded" in evs)
    return (exc is None and "ResponseReceived" in evs and not ended), f"client saw {evs}"


def F8b():
    """connection closes while a send is blocked on flow control: the send never returns"""
    progress = []
    finished = []

    async def big(scope, receive, send):
        await send({"type": "http.response.start", "status": 200, "headers": []})
        for i in range(100):
            progress.append(i)
            await send({"type": "http.response.body", "body": b"a" * 30000, "more_body": True})
        finished.append(True)

    async def sc(h):
        from hypercorn.events import Closed
        h.client.send_headers(1, GET, end_stream=True)
        await h.flush()
        await h.flush()
        await h.proto.handle(Closed())
        for _ in range(200):
            await asyncio.sleep(0)
        await asyncio.sleep(0.2)
        return bool(finished)
    h, r, exc = run_scenario(big, sc, timeout=3)
    return (not finished), f"0.2 s after Closed the application was still blocked in send() at chunk {progress[-1:]} (run ended with {_names(exc) or 'timeout/cancel'})"


def F13():
    """h2c upgrade: h2.events.RequestReceived() needs stream_id with the installed h2"""
    async def sc(h):
        return True
    h = Harness(ok_app)

    async def go():
        from hypercorn.asyncio.task_group import TaskGroup
        from hypercorn.protocol.h2 import H2Protocol
        from hypercorn.app_wrappers import ASGIWrapper
        from hypercorn.typing import ConnectionState
        async with TaskGroup(asyncio.get_running_loop()) as tg:
            p = H2Protocol(ASGIWrapper(ok_app), h.config, h.ctx, tg, ConnectionState({}), False, None, None, h.send)
            try:
                await p.initiate([(b":method", b"GET"), (b":path", b"/"), (b":authority", b"x"), (b"host", b"x")], "")
            finally:
                await p.handle(__import__("hypercorn.events", fromlist=["Closed"]).Closed())
    try:
        asyncio.run(asyncio.wait_for(go(), 5))
        return False, "initiate(headers) succeeded"
    except BaseException as e:
        return ("TypeError" in _names(e)), f"initiate(headers) raised {_names(e)}"


def F13b():
    """h2c upgrade with a malformed HTTP2-Settings header: binascii / hyperframe error escapes"""
    h = Harness(ok_app)
    out = []

    async def go(settings):
        from hypercorn.asyncio.task_group import TaskGroup
        from hypercorn.protocol.h2 import H2Protocol
        from hypercorn.app_wrappers import ASGIWrapper
        from hypercorn.typing import ConnectionState
        async with TaskGroup(asyncio.get_running_loop()) as tg:
            p = H2Protocol(ASGIWrapper(ok_app), h.config, h.ctx, tg, ConnectionState({}), False, None, None, h.send)
            await p.initiate(None, settings)
            await p.handle(__import__("hypercorn.events", fromlist=["Closed"]).Closed())
    for s in ("abc", "AAAA"):
        try:
            asyncio.run(asyncio.wait_for(go(s), 5))
            out.append("ok")
        except BaseException as e:
            out.append(_names(e))
    rep = any(isinstance(o, list) and ("Error" in o or "InvalidFrameError" in o or "ValueError" in o) for o in out)
    return rep, f"initiate(None, settings) for 'abc', 'AAAA': {out}"




def F4g():
    """two requests in one read, the first exceeds keep_alive_max_requests (GOAWAY sent, h2 state
    CLOSED) while shutdown begins: reset_stream for the second raises ProtocolError out of the
    connection handler"""
    cfg = quiet_config()
    cfg.keep_alive_max_requests = 0
    hh = {}

    async def app(scope, receive, send):
        await hh["h"].ctx.terminated.set()  # shutdown begins while request 1 is being set up
        await send({"type": "http.response.start", "status": 200, "headers": []})
        await send({"type": "http.response.body", "body": b"hi"})

    async def sc(h):
        hh["h"] = h
        orig = h.proto.task_group.spawn_app

        async def spawn_app(app_, config, scope, send_):
            r = await orig(app_, config, scope, send_)
            await asyncio.sleep(0)  # let the application start
            await asyncio.sleep(0)
            return r
        h.proto.task_group.spawn_app = spawn_app
        h.client.send_headers(1, GET, end_stream=True)
        h.client.send_headers(3, GET, end_stream=True)
        await h.flush()
        return True
    h = Harness(app, cfg)
    try:
        asyncio.run(asyncio.wait_for(h.run(sc), 5))
        exc = None
    except BaseException as e:
        exc = e
    return ("ProtocolError" in _names(exc)), f"exception escaping handle(): {_names(exc)}"


def F4f():
    """client resets stream 1 and opens stream 3 (h2 forgets 1), the application of stream 1 keeps
    sending (its buffer is force-closed and removed), the client sends PRIORITY for stream 1
    (re-inserted in the priority tree), the application sends again: stream 1 is unblocked in the
    tree without a send buffer and the send task dies with KeyError"""
    state = {"n": 0}

    async def app(scope, receive, send):
        await send({"type": "http.response.start", "status": 200, "headers": []})
        if scope["path"] != "/one":
            await send({"type": "http.response.body", "body": b"ok"})
            return
        state["g1"], state["g2"] = asyncio.Event(), asyncio.Event()
        await state["g1"].wait()
        await send({"type": "http.response.body", "body": b"a" * 10, "more_body": True})
        state["n"] = 1
        await state["g2"].wait()
        await send({"type": "http.response.body", "body": b"b" * 10, "more_body": True})
        state["n"] = 2

    async def sc(h):
        one = [(b":method", b"GET"), (b":scheme", b"http"), (b":authority", b"x"), (b":path", b"/one")]
        h.client.send_headers(1, one, end_stream=True)
        await h.flush()
        h.client.reset_stream(1)
        await h.flush()
        h.client.send_headers(3, GET, end_stream=True)
        await h.flush()
        state["g1"].set()
        await h.flush()
        h.client.prioritize(1, weight=10)
        await h.flush()
        state["g2"].set()
        for _ in range(100):
            await asyncio.sleep(0)
        await asyncio.sleep(0.1)
        return [type(e).__name__ for e in h.events]
    h, r, exc = run_scenario(app, sc, timeout=4)
    return ("KeyError" in _names(exc)), f"exception in the connection's task group: {_names(exc)}; app progress {state['n']}"

def F18b():
    """keep_alive_max_requests = 1: the second request on the connection ("one more on HTTP/2") is
    taken on -- its application runs -- but GOAWAY is sent first, which closes h2's state machine:
    its response can never be written (ProtocolError, swallowed); the client gets GOAWAY only"""
    cfg = quiet_config()
    cfg.keep_alive_max_requests = 1
    ran = []

    async def app(scope, receive, send):
        ran.append(scope["path"])
        await send({"type": "http.response.start", "status": 200, "headers": []})
        await send({"type": "http.response.body", "body": b"hello"})

    async def sc(h):
        per_stream = {}
        for sid in (1, 3):
            h.client.send_headers(sid, GET, end_stream=True)
            await h.flush()
            await h.flush()
        for e in h.events:
            sid = getattr(e, "stream_id", None)
            if sid:
                per_stream.setdefault(sid, []).append(type(e).__name__)
        return per_stream
    h, r, exc = run_scenario(app, sc, config=cfg)
    r = r or {}
    return (exc is None and len(ran) == 2 and "ResponseReceived" in r.get(1, []) and "ResponseReceived" not in r.get(3, [])), f"applications run: {len(ran)}; client events per stream: {r}"


def F15b():
    """shutdown has begun while a request is in flight: when its stream finishes, GOAWAY is sent
    (close_connection) while the send task is still between send_data and end_stream (a transport
    write suspends): END_STREAM is refused by h2 afterwards, the response arrives truncated"""
    import asyncio as _a
    from hypercorn.events import RawData

    async def app(scope, receive, send):
        await send({"type": "http.response.start", "status": 200, "headers": []})
        await send({"type": "http.response.body", "body": b"x" * 2000})

    class Slow(Harness):
        async def send(self, event):
            await _a.sleep(0)  # a real transport write suspends
            await Harness.send(self, event)

    h = Slow(app)

    async def script(h):
        h.client.send_headers(1, GET, end_stream=True)
        t = _a.ensure_future(h.proto.handle(RawData(h.client.data_to_send())))
        await _a.sleep(0)
        await h.ctx.terminated.set()  # shutdown begins while the request is being served
        await t
        for _ in range(200):
            await _a.sleep(0)
        return [type(e).__name__ for e in h.events]
    try:
        r, exc = _a.run(_a.wait_for(h.run(script), 5)), None
    except BaseException as e:  # noqa
        r, exc = None, e
    r = r or []
    return (exc is None and "DataReceived" in r and "ConnectionTerminated" in r and "StreamEnded" not in r), f"client saw {r}"

def F2b():
    """the application's response carries a header h2 refuses to send (here `te: gzip`): on HTTP/2 h2
    refuses the head, stream_send swallows the ProtocolError: the application is told nothing and
    the client gets no response head at all"""
    raised = []

    async def app(scope, receive, send):
        try:
            await send({"type": "http.response.start", "status": 200, "headers": [(b"te", b"gzip")]})
            await send({"type": "http.response.body", "body": b"hello"})
        except Exception as e:  # noqa
            raised.append(type(e).__name__)

    async def sc(h):
        h.client.send_headers(1, GET, end_stream=True)
        await h.flush()
        await h.flush()
        return [type(e).__name__ for e in h.events]
    h, r, exc = run_scenario(app, sc)
    r = r or []
    return (exc is None and not raised and "ResponseReceived" not in r), f"application saw {raised or 'no error'}; client saw {r}"

def F11c():
    """a plain HTTP/2 CONNECT (a tunnelling request: no :protocol pseudo-header, so not the extended
    CONNECT of RFC 8441) that happens to carry sec-websocket-version: 13 is taken for a WebSocket
    handshake: the application is started with a websocket scope and the request is answered 200"""
    seen = {}

    async def app(scope, receive, send):
        seen["type"] = scope["type"]
        await receive()
        if scope["type"] == "websocket":
            await send({"type": "websocket.accept"})

    async def sc(h):
        h.client.send_headers(1, [(b":method", b"CONNECT"), (b":authority", b"proxy.example:443"), (b"sec-websocket-version", b"13")])
        await h.flush()
        return [dict(e.headers).get(b":status") for e in h.events if isinstance(e, h2.events.ResponseReceived)]
    h, r, exc = run_scenario(app, sc)
    return (seen.get("type") == "websocket" and r == [b"200"]), f"plain CONNECT without :protocol: application scope type {seen.get('type')!r}, response status {r}"


def F2c():
    """HTTP/2, a client that sent te: trailers, an application that sends http.response.trailers:
    the trailers never arrive, and the NEXT response on the connection cannot be decoded by the
    client (h2 ran the refused trailer block through its HPACK encoder: 'Invalid table index')"""
    from hypercorn.events import Closed as _Closed, RawData as _RawData

    errs = []

    class H(Harness):
        async def send(self, event):
            if isinstance(event, _RawData):
                try:
                    self.events.extend(self.client.receive_data(event.data))
                except Exception as e:  # the client cannot decode what the server wrote
                    errs.append(repr(e))
            elif isinstance(event, _Closed):
                self.closed = True
            self.out.append(event)

    async def app(scope, receive, send):
        await send({"type": "http.response.start", "status": 200, "headers": [(b"x-a", b"1")], "trailers": True})
        await send({"type": "http.response.body", "body": b"hello", "more_body": False})
        await send({"type": "http.response.trailers", "headers": [(b"x-trailer-one", b"abc")], "more_trailers": False})

    async def sc(h):
        h.client.send_headers(1, GET + [(b"te", b"trailers")], end_stream=True)
        await h.flush()
        first = [type(e).__name__ for e in h.events]
        n = len(h.events)
        h.client.send_headers(3, GET + [(b"te", b"trailers")], end_stream=True)
        await h.flush()
        return first, [type(e).__name__ for e in h.events[n:]]

    h = H(app)
    try:
        first, second = asyncio.run(asyncio.wait_for(h.run(sc), 5))
    except BaseException as e:  # noqa
        return False, f"scenario did not complete: {e!r}"
    lost = "TrailersReceived" not in first
    broken = "ResponseReceived" not in second and any("decoding header block" in x for x in errs)
    return (lost and broken), f"first response events {first[2:]}; second response events {second}; client errors {errs[:1]}"


def F9a():
    """HTTP/2: the reader task hands request body data to a stream by awaiting a put on that
    stream's bounded application queue (max_app_queue_size).  A stream whose application is not
    reading -- busy, or itself stalled in send() on flow control -- therefore stops the reader after
    max_app_queue_size chunks: no other stream's frames (and no WINDOW_UPDATE) are processed until
    that application reads."""
    gate = {}

    async def app(scope, receive, send):
        if scope["path"] == "/slow":
            gate["ev"] = asyncio.Event()
            await gate["ev"].wait()  # busy: has not started reading its body yet
            while (await receive()).get("more_body"):
                pass
        await send({"type": "http.response.start", "status": 200, "headers": []})
        await send({"type": "http.response.body", "body": b"ok"})

    async def sc(h):
        h.client.send_headers(1, [(b":method", b"POST"), (b":scheme", b"http"), (b":authority", b"x"), (b":path", b"/slow")])
        for _ in range(12):
            h.client.send_data(1, b"x" * 10)
        h.client.send_headers(3, [(b":method", b"GET"), (b":scheme", b"http"), (b":authority", b"x"), (b":path", b"/fast")], end_stream=True)
        feed = asyncio.ensure_future(h.flush())
        await asyncio.sleep(0.5)
        before = [e.stream_id for e in h.events if isinstance(e, h2.events.ResponseReceived)]
        blocked = not feed.done()
        gate["ev"].set()  # the slow application starts reading: the reader is released
        h.client.end_stream(1)
        await feed
        await h.flush()
        after = [e.stream_id for e in h.events if isinstance(e, h2.events.ResponseReceived)]
        return blocked, before, after
    h, r, exc = run_scenario(app, sc, timeout=8)
    if r is None:
        return False, f"scenario did not complete: {exc!r}"
    blocked, before, after = r
    return (blocked and 3 not in before and 3 in after), f"while stream 1's application was not reading: reader blocked={blocked}, responses received {before}; after it started reading: {after}"


SCENARIOS = {k: v for k, v in globals().items() if k.startswith("F") and callable(v)}

if __name__ == "__main__":
    import sys
    for name in sys.argv[1:] or sorted(SCENARIOS):
        print(name, SCENARIOS[name]())
