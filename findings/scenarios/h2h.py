"""Native harness: the real H2Protocol of $PYVC_REPO (default /repo) driven by a real h2 client."""
import asyncio

import h2.config
import h2.connection
import h2.events

from hypercorn.app_wrappers import ASGIWrapper
from hypercorn.asyncio.task_group import TaskGroup
from hypercorn.asyncio.worker_context import WorkerContext
from hypercorn.config import Config
from hypercorn.events import Closed, RawData, Updated
from hypercorn.protocol.h2 import H2Protocol
from hypercorn.typing import ConnectionState

GET = [(b":method", b"GET"), (b":scheme", b"http"), (b":authority", b"x"), (b":path", b"/")]


def quiet_config():
    cfg = Config()
    cfg.errorlog = None
    cfg.accesslog = None
    return cfg


class Harness:
    def __init__(self, app, config=None, max_requests=None):
        self.app = app
        self.config = config or quiet_config()
        self.out = []
        self.closed = False
        self.client = h2.connection.H2Connection(
            config=h2.config.H2Configuration(client_side=True, header_encoding=None, validate_outbound_headers=False, normalize_outbound_headers=False)
        )
        self.events = []
        self.ctx = WorkerContext(max_requests)
        self.task_errors = []

    async def send(self, event):
        if isinstance(event, RawData):
            self.events.extend(self.client.receive_data(event.data))
        elif isinstance(event, Closed):
            self.closed = True
        self.out.append(event)

    async def run(self, script):
        async with TaskGroup(asyncio.get_running_loop()) as tg:
            self.proto = H2Protocol(ASGIWrapper(self.app), self.config, self.ctx, tg, ConnectionState({}), False, ("1.1.1.1", 1), ("2.2.2.2", 2), self.send)
            self.client.initiate_connection()
            await self.proto.initiate()
            await self.flush()
            try:
                return await script(self)
            finally:
                await self.proto.handle(Closed())

    async def flush(self, raw=None):
        d = raw if raw is not None else self.client.data_to_send()
        if d:
            await self.proto.handle(RawData(d))
        for _ in range(30):
            await asyncio.sleep(0)


def run_scenario(app, script, timeout=5, config=None):
    """returns (result, exception) of running script(harness)"""
    h = Harness(app, config)
    try:
        r = asyncio.run(asyncio.wait_for(h.run(script), timeout))
        return h, r, None
    except BaseException as e:  # noqa
        return h, None, e


def flatten(e):
    if isinstance(e, BaseExceptionGroup):
        out = []
        for x in e.exceptions:
            out.extend(flatten(x))
        return out
    return [e]
