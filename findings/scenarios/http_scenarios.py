"""Native demonstrations of the known findings in HTTPStream / H11Protocol."""
import asyncio

from h1h import H1, Log, names, run_h1
from h2h import GET, Harness, run_scenario, quiet_config
from hypercorn.config import Config
from hypercorn.events import Closed


async def ok_app(scope, receive, send):
    await send({"type": "http.response.start", "status": 200, "headers": []})
    await send({"type": "http.response.body", "body": b"hi"})


def F3c():
    """client leaves mid-response, the application still completes its body: two access records"""
    gate = {}

    async def app(scope, receive, send):
        await send({"type": "http.response.start", "status": 200, "headers": [(b"content-length", b"4")]})
        await send({"type": "http.response.body", "body": b"ab", "more_body": True})
        gate["ev"] = asyncio.Event()
        await gate["ev"].wait()
        await send({"type": "http.response.body", "body": b"cd", "more_body": False})

    async def sc(h):
        await h.feed(b"GET / HTTP/1.1\r\nHost: x\r\n\r\n")
        await h.proto.handle(Closed())  # client EOF
        await h.settle()
        gate["ev"].set()
        await h.settle()
        return list(h.log.records)
    h, r, exc = run_h1(app, sc)
    return (r is not None and len(r) == 2), f"access records for one request: {r}"


def F2a():
    """http.response.trailers as the first message to a client that did not send te: trailers:
    EndBody is emitted without any response start, then AttributeError('response')"""
    seen = {}

    async def app(scope, receive, send):
        try:
            await send({"type": "http.response.trailers", "headers": [(b"x", b"y")], "more_trailers": False})
        except BaseException as e:
            seen["exc"] = type(e).__name__
            raise

    async def sc(h):
        h.client.send_headers(1, GET, end_stream=True)
        await h.flush()
        await h.flush()
        return [type(e).__name__ for e in h.events]
    h, r, exc = run_scenario(app, sc)
    return (seen.get("exc") == "AttributeError"), f"application got {seen.get('exc')} from send(); client saw {r}"


def F12b():
    """http.response.push after the response completed is accepted silently (no error raised)"""
    seen = {}

    async def app(scope, receive, send):
        await send({"type": "http.response.start", "status": 200, "headers": []})
        await send({"type": "http.response.body", "body": b"hi"})
        try:
            await send({"type": "http.response.push", "path": "/x", "headers": []})
            seen["r"] = "accepted"
        except Exception as e:
            seen["r"] = type(e).__name__

    async def sc(h):
        h.client.send_headers(1, GET, end_stream=True)
        await h.flush()
        await h.flush()
        return True
    h, r, exc = run_scenario(app, sc)
    return (seen.get("r") == "accepted"), f"push after completion: {seen.get('r')}"


def F4h():
    """server_names configured and a Host header that is not UTF-8: UnicodeDecodeError escapes"""
    cfg = Config()
    cfg.server_names = ["example.com"]

    async def sc(h):
        await h.feed(b"GET / HTTP/1.1\r\nHost: \xff\xfe\r\n\r\n")
        return h.wire
    h, r, exc = run_h1(ok_app, sc, config=cfg)
    return ("UnicodeDecodeError" in names(exc)), f"exception escaping handle(): {names(exc)}"


def F4i():
    """request for an unknown server name; the write of the 404 fails (peer gone): the re-entrant
    close finds a stream without app_put -> AttributeError"""
    cfg = Config()
    cfg.server_names = ["example.com"]

    async def sc(h):
        await h.feed(b"GET / HTTP/1.1\r\nHost: other\r\n\r\n")
        return h.wire
    h, r, exc = run_h1(ok_app, sc, config=cfg, fail_write_at=1)
    return ("AttributeError" in names(exc)), f"exception escaping handle(): {names(exc)}; access records {h.log.records}"


def F13c():
    """h2c upgrade whose HTTP2-Settings value is not UTF-8"""
    async def sc(h):
        await h.feed(b"GET / HTTP/1.1\r\nHost: x\r\nConnection: Upgrade, HTTP2-Settings\r\nUpgrade: h2c\r\nHTTP2-Settings: \xff\xfe\r\n\r\n")
        return h.wire
    h, r, exc = run_h1(ok_app, sc)
    return ("UnicodeDecodeError" in names(exc)), f"exception escaping handle(): {names(exc)}"


def F7a():
    """unknown server name answered 404: the stream stays attached, the connection is never idle"""
    cfg = Config()
    cfg.server_names = ["example.com"]

    async def sc(h):
        await h.feed(b"GET / HTTP/1.1\r\nHost: other\r\n\r\n")
        await h.settle()
        return (h.idle, h.closed, h.proto.protocol.stream is not None, h.wire[:12])
    h, r, exc = run_h1(ok_app, sc, config=cfg)
    idle, closed, attached, wire = r if r else (None, None, None, b"")
    return (exc is None and wire.startswith(b"HTTP/1.1 404") and attached and not closed and idle is not True), f"after the 404: stream still attached={attached}, connection closed={closed}, last idle report={idle}"


def F7e():
    """cleartext HTTP/2 by prior knowledge: h11 sees the preface as a request 'PRI *', reports the
    connection busy, then the switch to HTTP/2 happens; with no stream opened nothing ever reports
    it idle again, so the keep-alive timer the server stopped is never re-armed"""
    import h2.config
    import h2.connection

    async def app(scope, receive, send):
        pass

    async def sc(h):
        c = h2.connection.H2Connection(config=h2.config.H2Configuration(client_side=True))
        c.initiate_connection()
        await h.feed(c.data_to_send())
        idle = h.idle
        from hypercorn.events import Closed
        await h.proto.handle(Closed())  # (lets the HTTP/2 send task finish)
        return idle
    h, r, exc = run_h1(app, sc)
    return (exc is None and r is False), f"last idle report after the switch with no stream open: idle={r} (the server stops its keep-alive timer on idle=False)"

def F6b():
    """two pipelined requests; the write of the first response fails (peer gone), the server tells
    the protocol Closed; when the first application finishes the connection is recycled all the
    same and the second request's application is started on the dead connection"""
    started = []

    async def app(scope, receive, send):
        started.append(scope["path"])
        await send({"type": "http.response.start", "status": 200, "headers": [(b"content-length", b"2")]})
        await send({"type": "http.response.body", "body": b"ok"})

    async def sc(h):
        await h.feed(b"GET /a HTTP/1.1\r\nHost: x\r\n\r\nGET /b HTTP/1.1\r\nHost: x\r\n\r\n")
        await h.settle()
        return list(started)
    h, r, exc = run_h1(app, sc, fail_write_at=1)
    r = r or []
    return ("/b" in r), f"applications started: {r} (every write failed from the first one on)"


def F6c():
    """HTTP/1.1: a request that asks to close (Connection: close) followed in the same read by
    another pipelined request: h11 refuses the extra bytes, H11Protocol answers 400 while the first
    request's application has not responded yet -- the client gets the 400 *in place of* the
    response to its first request, and the connection is closed"""
    async def app(scope, receive, send):
        await asyncio.sleep(0.05)
        await send({"type": "http.response.start", "status": 200, "headers": [(b"content-length", b"2")]})
        await send({"type": "http.response.body", "body": b"ok"})

    async def sc(h):
        await h.feed(b"GET /a HTTP/1.1\r\nHost: x\r\nConnection: close\r\n\r\nGET /b HTTP/1.1\r\nHost: x\r\n\r\n")
        await asyncio.sleep(0.3)
        return h.wire
    h, r, exc = run_h1(app, sc)
    first = (r or b"").split(b"\r\n", 1)[0]
    return (first.startswith(b"HTTP/1.1 400") and b"ok" not in (r or b"")), f"first line of what the client received for /a: {first!r}; the application's 200 'ok' on the wire: {b'ok' in (r or b'')}"


SCENARIOS = {k: v for k, v in globals().items() if k.startswith("F") and callable(v)}

if __name__ == "__main__":
    import sys
    for name in sys.argv[1:] or sorted(SCENARIOS):
        print(name, SCENARIOS[name]())
