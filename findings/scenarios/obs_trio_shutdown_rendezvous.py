import sys; sys.path.insert(0, "/repo/src")
import trio, time
from hypercorn.config import Config
from hypercorn.trio.lifespan import Lifespan
from hypercorn.app_wrappers import ASGIWrapper

async def app(scope, receive, send):
    msg = await receive()
    await send({"type": "lifespan.startup.complete"})
    await trio.sleep_forever()   # never asks for lifespan.shutdown

async def main(size):
    cfg = Config(); cfg.max_app_queue_size = size; cfg.shutdown_timeout = 0.5; cfg.startup_timeout = 0.5
    ls = Lifespan(ASGIWrapper(app), cfg, {})
    async with trio.open_nursery() as n:
        await n.start(ls.handle_lifespan)
        await ls.wait_for_startup()
        t0 = time.monotonic()
        with trio.move_on_after(3) as cs:
            try:
                await ls.wait_for_shutdown()
            except Exception as e:
                print(size, "raised", type(e).__name__, "after %.2fs" % (time.monotonic() - t0))
        if cs.cancelled_caught:
            print(size, "STILL WAITING after 3 s (shutdown_timeout 0.5)")
        n.cancel_scope.cancel()
for s in (10, 1, 0):
    trio.run(main, s)
