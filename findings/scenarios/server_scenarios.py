"""Native demonstrations of the known findings in the two TCPServer classes.  The real
hypercorn.asyncio.tcp_server.TCPServer runs over a real asyncio.StreamReader and a recording
writer; the real hypercorn.trio.tcp_server.TCPServer runs over trio's in-memory stream pair."""
import asyncio
import socket
import time

from hypercorn.config import Config


def _config(**kw):
    c = Config()
    c.accesslog = None
    c.errorlog = None
    for k, v in kw.items():
        setattr(c, k, v)
    return c


async def _ok_app(scope, receive, send, sync_spawn=None, call_soon=None):
    while True:
        m = await receive()
        if m["type"] == "http.disconnect" or not m.get("more_body", False):
            break
    await send({"type": "http.response.start", "status": 200, "headers": [(b"content-length", b"2")]})
    await send({"type": "http.response.body", "body": b"ok"})


class _Sock:
    family = socket.AF_INET

    def getpeername(self):
        return ("127.0.0.1", 1234)

    def getsockname(self):
        return ("127.0.0.1", 80)


class _Writer:
    """records what the server writes; behaves like a healthy StreamWriter"""

    def __init__(self):
        self.data = bytearray()
        self.closed_at = None
        self.eof = False

    def get_extra_info(self, name):
        return _Sock() if name == "socket" else None

    def write(self, data):
        self.data.extend(data)

    async def drain(self):
        await asyncio.sleep(0)

    def write_eof(self):
        self.eof = True

    def close(self):
        if self.closed_at is None:
            self.closed_at = time.monotonic()

    async def wait_closed(self):
        await asyncio.sleep(0)

    def is_closing(self):
        return self.closed_at is not None


def _run_asyncio(feed, app=_ok_app, later=None, **cfg):
    """feed(reader) is called before the server task first runs, i.e. everything it feeds is in the
    reader (data and EOF alike) when the server does its first read"""
    from hypercorn.asyncio.tcp_server import TCPServer
    from hypercorn.asyncio.worker_context import WorkerContext

    async def main():
        loop = asyncio.get_running_loop()
        reader = asyncio.StreamReader()
        writer = _Writer()
        feed(reader)
        t0 = time.monotonic()
        if later is not None:
            loop.call_later(0.05, later, reader)
            t0 += 0.05
        server = TCPServer(app, loop, _config(**cfg), WorkerContext(None), {}, reader, writer)
        await asyncio.wait_for(server.run(), 5)
        return bytes(writer.data), time.monotonic() - t0

    return asyncio.run(main())


def _run_trio(chunks, half_close=True, app=_ok_app, **cfg):
    import trio
    import trio.testing

    from hypercorn.trio.tcp_server import TCPServer
    from hypercorn.trio.worker_context import WorkerContext

    out = {}

    async def main():
        client, server_stream = trio.testing.memory_stream_pair()
        server_stream.socket = _Sock()  # TCPServer reads .socket of a plain stream
        got = bytearray()

        async def reader_task():
            while True:
                d = await client.receive_some(65536)
                if not d:
                    break
                got.extend(d)

        t0 = trio.current_time()
        with trio.move_on_after(8):
            async with trio.open_nursery() as n:
                n.start_soon(reader_task)
                for c in chunks:
                    await client.send_all(c)
                if half_close:
                    await client.send_eof()
                t_eof = time.monotonic()
                server = TCPServer(app, _config(**cfg), WorkerContext(None), {}, server_stream)
                await server.run()
                out["handler_s"] = time.monotonic() - t_eof
        out["data"] = bytes(got)

    trio.run(main)
    return out


TRUNCATED = b"POST / HTTP/1.1\r\nHost: x\r\nContent-Length: 10\r\n\r\nabc"


def F16a():
    """a request cut short by the peer's EOF, with the last bytes and the EOF already in the reader
    when the server reads: asyncio leaves the loop on reader.at_eof() without handing the empty
    chunk to the protocol, so h11 never learns of the EOF and no 400 is written; trio answers 400"""

    def feed(reader):
        reader.feed_data(TRUNCATED)
        reader.feed_eof()

    a_data, _ = _run_asyncio(feed)
    t = _run_trio([TRUNCATED])
    a400 = a_data.startswith(b"HTTP/1.1 400")
    t400 = t["data"].startswith(b"HTTP/1.1 400")
    return (t400 and not a400), f"asyncio wrote {a_data[:24]!r}, trio wrote {t['data'][:24]!r}"


def F7d():
    """the peer closes an idle keep-alive connection: the read loop ends and the protocol is told,
    but nothing stops the keep-alive timer task before the connection's task group is joined, so
    the handler (and with it the socket, closed in the finally clause) lingers until the timer
    fires -- on both workers"""
    _, a_s = _run_asyncio(lambda reader: None, later=lambda reader: reader.feed_eof(), keep_alive_timeout=1.5)
    t = _run_trio([], keep_alive_timeout=1.5)
    return (t.get("handler_s", 0) >= 1.2 and a_s >= 1.2), f"handler finished {a_s:.2f}s after the peer's EOF on asyncio, {t.get('handler_s', -1):.2f}s on trio (keep_alive_timeout 1.5s)"


def _stuck_app():
    async def app(scope, receive, send, sync_spawn=None, call_soon=None):
        if scope["type"] == "lifespan":
            while True:
                m = await receive()
                if m["type"] == "lifespan.startup":
                    await send({"type": "lifespan.startup.complete"})
                elif m["type"] == "lifespan.shutdown":
                    await send({"type": "lifespan.shutdown.complete"})
                    return
        else:
            await asyncio.sleep(3600)  # a request that never completes
    return app


def F15():
    """asyncio worker, one request that never completes, graceful_timeout 0.3 s: after the shutdown
    trigger worker_serve does not return within graceful_timeout + shutdown_timeout + slack --
    Server.wait_closed() (CPython 3.12.1) waits for the open connection before the grace period is
    even started; the trio worker returns after the grace period"""
    import socket as _socket

    from hypercorn.app_wrappers import ASGIWrapper
    from hypercorn.asyncio.run import worker_serve
    from hypercorn.config import Sockets

    async def main():
        cfg = _config(graceful_timeout=0.3, shutdown_timeout=0.5)
        ls = _socket.socket()
        ls.bind(("127.0.0.1", 0))
        ls.listen(5)
        ls.setblocking(False)
        port = ls.getsockname()[1]
        trigger = asyncio.Event()
        task = asyncio.ensure_future(worker_serve(ASGIWrapper(_stuck_app()), cfg, sockets=Sockets([], [ls], []), shutdown_trigger=trigger.wait))
        await asyncio.sleep(0.2)
        r, w = await asyncio.open_connection("127.0.0.1", port)
        w.write(b"GET / HTTP/1.1\r\nHost: x\r\n\r\n")
        await w.drain()
        await asyncio.sleep(0.2)
        t0 = time.monotonic()
        trigger.set()
        done, _ = await asyncio.wait([task], timeout=3.0)
        took = time.monotonic() - t0
        returned = bool(done)
        task.cancel()
        w.close()
        try:
            await task
        except BaseException:
            pass
        return returned, took

    returned, took = asyncio.run(main())
    return (not returned), f"asyncio worker_serve returned={returned} {took:.2f}s after the trigger (graceful_timeout 0.3s + shutdown_timeout 0.5s)"


def F14a():
    """asyncio worker: the application answers lifespan.startup with lifespan.startup.failed and then
    does some asynchronous clean-up while the error unwinds (try / finally with an await).  The
    startup event is already set, wait_for_startup() returns, the lifespan task is not done yet, so
    worker_serve goes on to open its listeners and serves a request; the failure only surfaces
    later.  (The trio worker is cancelled through its nursery and serves nothing.)"""
    import socket as _socket

    from hypercorn.app_wrappers import ASGIWrapper
    from hypercorn.asyncio.run import worker_serve
    from hypercorn.config import Sockets

    served = []

    async def app(scope, receive, send, sync_spawn=None, call_soon=None):
        if scope["type"] == "lifespan":
            await receive()
            try:
                await send({"type": "lifespan.startup.failed", "message": "no database"})
            finally:
                await asyncio.sleep(0.6)  # clean-up while the failure unwinds
        else:
            served.append(scope["path"])
            await send({"type": "http.response.start", "status": 200, "headers": [(b"content-length", b"2")]})
            await send({"type": "http.response.body", "body": b"ok"})

    async def main():
        cfg = _config()
        ls = _socket.socket()
        ls.bind(("127.0.0.1", 0))
        ls.listen(5)
        ls.setblocking(False)
        port = ls.getsockname()[1]
        trigger = asyncio.Event()
        task = asyncio.ensure_future(worker_serve(ASGIWrapper(app), cfg, sockets=Sockets([], [ls], []), shutdown_trigger=trigger.wait))
        await asyncio.sleep(0.2)
        status = None
        try:
            r, w = await asyncio.wait_for(asyncio.open_connection("127.0.0.1", port), 1.0)
            w.write(b"GET /x HTTP/1.1\r\nHost: x\r\nConnection: close\r\n\r\n")
            await w.drain()
            head = await asyncio.wait_for(r.read(200), 1.0)
            status = head.split(b"\r\n", 1)[0]
            w.close()
        except Exception as e:  # nothing was served
            status = repr(e)
        trigger.set()
        try:
            await asyncio.wait_for(task, 3.0)
            outcome = "returned"
        except BaseException as e:
            outcome = type(e).__name__
        return status, outcome

    status, outcome = asyncio.run(main())
    return (served == ["/x"] and status is not None and status.startswith(b"HTTP/1.1 200")), f"after lifespan.startup.failed the worker served {served} (first response line {status!r}); worker_serve ended with {outcome}"


SCENARIOS = {k: v for k, v in globals().items() if k.startswith("F") and callable(v)}

if __name__ == "__main__":
    import sys
    for name in sys.argv[1:] or sorted(SCENARIOS):
        print(name, SCENARIOS[name]())
