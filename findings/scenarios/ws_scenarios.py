"""Native demonstrations of the known findings on the WebSocket path (real wsproto client, real
H11Protocol/WSStream)."""
import asyncio

import wsproto
import wsproto.events as we
from wsproto import ConnectionType, WSConnection

from h1h import H1, names, run_h1
from hypercorn.config import Config
from hypercorn.events import Closed

UPGRADE = (b"GET /ws HTTP/1.1\r\nHost: x\r\nUpgrade: websocket\r\nConnection: Upgrade\r\n"
           b"Sec-WebSocket-Key: dGhlIHNhbXBsZSBub25jZQ==\r\nSec-WebSocket-Version: 13\r\n\r\n")


class Client:
    def __init__(self):
        self.ws = WSConnection(ConnectionType.CLIENT)
        self.req = self.ws.send(we.Request(host="x", target="/ws"))
        self.events = []

    def feed(self, data):
        self.ws.receive_data(data)
        for e in self.ws.events():
            self.events.append(e)


def F4e():
    """a text message over websocket_max_message_size (the buffer is never cleared), then a
    binary message: StringIO.write(bytes) TypeError escapes the connection handler"""
    cfg = Config()
    cfg.websocket_max_message_size = 5

    async def app(scope, receive, send):
        await receive()
        await send({"type": "websocket.accept"})
        while True:
            m = await receive()
            if m["type"] == "websocket.disconnect":
                return

    async def sc(h):
        c = Client()
        await h.feed(c.req)
        c.feed(h.wire)
        await h.feed(c.ws.send(we.TextMessage(data="toolongtext")))
        await h.feed(c.ws.send(we.BytesMessage(data=b"abc")))
        return True
    h, r, exc = run_h1(app, sc, config=cfg)
    return ("TypeError" in names(exc)), f"exception escaping handle(): {names(exc)}"


def F11():
    """the client closes with code 1001: the application is told 1006"""
    got = {}

    async def app(scope, receive, send):
        await receive()
        await send({"type": "websocket.accept"})
        while True:
            m = await receive()
            if m["type"] == "websocket.disconnect":
                got["code"] = m["code"]
                return

    async def sc(h):
        c = Client()
        await h.feed(c.req)
        c.feed(h.wire)
        await h.feed(c.ws.send(we.CloseConnection(code=1001, reason="bye")))
        await h.settle()
        return got.get("code")
    h, r, exc = run_h1(app, sc)
    return (r is not None and r != 1001), f"client closed with 1001, websocket.disconnect carried code {r}"


def F3b():
    """a valid WebSocket request whose client goes away before the application has answered it:
    the request leaves no access-log record at all (an HTTP request closed at the same point gets
    one)"""
    async def app(scope, receive, send):
        await receive()  # websocket.connect
        await receive()  # websocket.disconnect: the application gives up without an answer

    async def sc(h):
        await h.feed(UPGRADE)
        await h.proto.handle(Closed())
        await h.settle()
        return list(h.log.records)
    h, r, exc = run_h1(app, sc)
    return (exc is None and r == []), f"access records of the request after the connection was closed and the application returned: {r}"


def F3f():
    """a WebSocket application that has been sent websocket.connect and has not answered yet; the
    client sends a frame before the handshake is accepted (answered 400), then the connection goes
    away: the application is never sent websocket.disconnect"""
    got = []

    async def app(scope, receive, send):
        while True:
            m = await receive()
            got.append(m["type"])
            if m["type"] == "websocket.disconnect":
                return

    async def sc(h):
        await h.feed(UPGRADE)
        await h.feed(b"\x81\x85\x00\x00\x00\x00hello")  # a frame before any acceptance
        await h.proto.handle(Closed())
        await h.settle()
        return list(got)
    h, r, exc = run_h1(app, sc, timeout=3)
    return (r is not None and "websocket.disconnect" not in r), f"messages the application received: {r}"


def F11b():
    """the application answers the handshake with the HTTP-response extension (still sending the
    body) and the client sends data meanwhile: a second response head (400) is attempted"""
    gate = {}

    async def app(scope, receive, send):
        await receive()
        await send({"type": "websocket.http.response.start", "status": 403, "headers": [(b"content-length", b"4")]})
        await send({"type": "websocket.http.response.body", "body": b"ab", "more_body": True})
        gate["ev"] = asyncio.Event()
        await gate["ev"].wait()

    async def sc(h):
        await h.feed(UPGRADE)
        n = len([e for e in h.out])
        await h.feed(b"\x81\x85\x00\x00\x00\x00hello")  # a frame before any acceptance
        gate["ev"].set()
        return h.wire
    h, r, exc = run_h1(app, sc)
    return (exc is not None and ("LocalProtocolError" in names(exc))), f"exception escaping handle(): {names(exc)}"


def F12c():
    """websocket.close sent twice: the second one is accepted silently"""
    seen = {}

    async def app(scope, receive, send):
        await receive()
        await send({"type": "websocket.accept"})
        await send({"type": "websocket.close", "code": 1000})
        try:
            await send({"type": "websocket.close", "code": 1000})
            seen["r"] = "accepted"
        except Exception as e:
            seen["r"] = type(e).__name__

    async def sc(h):
        c = Client()
        await h.feed(c.req)
        await h.settle()
        return True
    h, r, exc = run_h1(app, sc)
    return (seen.get("r") == "accepted"), f"second websocket.close: {seen.get('r')}"


def F12d():
    """websocket.http.response.body with a body that is not bytes: the response head is put on the
    wire before TypeError is raised into the application"""
    seen = {}

    async def app(scope, receive, send):
        await receive()
        await send({"type": "websocket.http.response.start", "status": 403, "headers": []})
        try:
            await send({"type": "websocket.http.response.body", "body": "text"})
        except Exception as e:
            seen["r"] = type(e).__name__

    async def sc(h):
        await h.feed(UPGRADE)
        return h.wire
    h, r, exc = run_h1(app, sc)
    return (seen.get("r") == "TypeError" and r is not None and r.startswith(b"HTTP/1.1 403")), f"application got {seen.get('r')}; bytes already on the wire: {(r or b'')[:20]!r}"


def F4c_ws():
    """WebSocket over HTTP/2 (extended CONNECT) whose :path has a non-ASCII byte:
    UnicodeDecodeError escapes WSStream.handle"""
    from h2h import run_scenario

    async def app(scope, receive, send):
        pass

    async def sc(h):
        h.client.send_headers(1, [(b":method", b"CONNECT"), (b":protocol", b"websocket"), (b":scheme", b"http"), (b":authority", b"x"),
                                  (b":path", b"/w\xffs"), (b"sec-websocket-version", b"13")], end_stream=False)
        await h.flush()
        return True
    h, r, exc = run_scenario(app, sc)
    n = names(exc)
    return ("UnicodeDecodeError" in n or "AttributeError" in n), f"exception escaping handle(): {n}"


def F4h_ws():
    """server_names configured, WebSocket upgrade with a Host that is not UTF-8"""
    cfg = Config()
    cfg.server_names = ["example.com"]

    async def app(scope, receive, send):
        pass

    async def sc(h):
        await h.feed(UPGRADE.replace(b"Host: x", b"Host: \xff\xfe"))
        return h.wire
    h, r, exc = run_h1(app, sc, config=cfg)
    n = names(exc)
    return ("UnicodeDecodeError" in n or "AttributeError" in n), f"exception escaping handle(): {n}"


def F3e():
    """the application returns while the reader is still working through a batch of frames
    (Ping, then a message, in one read): websocket.receive is put after websocket.disconnect"""
    puts = []
    errs = []
    armed = []

    async def app(scope, receive, send):
        await receive()
        await send({"type": "websocket.accept"})
        # returns at once: hypercorn closes with 1011 and sends the disconnect

    class Slow(H1):
        slow_writes = [20]  # the pong write is slow (transport back-pressure); later writes are not

        async def send(self, event):
            n = self.slow_writes.pop(0) if (self.slow_writes and armed) else 0
            for _ in range(n):
                await asyncio.sleep(0)  # a real transport write may suspend
            await super().send(event)

    async def sc(h):
        c = Client()
        gate = asyncio.Event()
        orig = h.proto.task_group.spawn_app if False else None
        await h.feed(c.req)
        return True

    # drive by hand so that the application only gets to run while the reader is suspended
    async def run():
        h = Slow(app)
        errs.append(h.log)
        h.ctx = __import__("hypercorn.asyncio.worker_context", fromlist=["WorkerContext"]).WorkerContext(None)
        from hypercorn.app_wrappers import ASGIWrapper
        from hypercorn.asyncio.task_group import TaskGroup
        from hypercorn.protocol import ProtocolWrapper
        from hypercorn.typing import ConnectionState
        from hypercorn.events import RawData
        hold = asyncio.Event()

        async def held_app(scope, receive, send):
            await receive()
            await send({"type": "websocket.accept"})
            await hold.wait()

        async with TaskGroup(asyncio.get_running_loop()) as tg:
            h.proto = ProtocolWrapper(ASGIWrapper(held_app), h.config, h.ctx, tg, ConnectionState({}), False, None, None, h.send, "http/1.1")
            c = Client()
            await h.proto.handle(RawData(c.req))
            await h.settle()
            c.feed(h.wire)
            stream = h.proto.protocol.stream
            orig_put = stream.app_put

            async def spy(msg):
                puts.append(msg["type"])
                await orig_put(msg)
            stream.app_put = spy
            batch = c.ws.send(we.Ping(payload=b"p")) + c.ws.send(we.TextMessage(data="late"))
            armed.append(True)
            hold.set()  # the application returns as soon as it is scheduled
            await h.proto.handle(RawData(batch))
            await h.settle()
    err = None
    try:
        asyncio.run(asyncio.wait_for(run(), 5))
    except BaseException as e:
        err = e
    bad = "websocket.disconnect" in puts and puts.index("websocket.disconnect") < len(puts) - 1
    return bad, f"messages put to the application, in order: {puts} (run ended with {names(err)})"


def F5w():
    """the application accepts with a subprotocol the client did not offer and does not catch the
    resulting exception: WSStream._accept has already set state CONNECTED before accept() raised, so
    when the application exits no 500 is sent; the close frame is attempted through a connection
    object that was never created and AttributeError escapes the connection handler"""
    async def app(scope, receive, send):
        await receive()
        await send({"type": "websocket.accept", "subprotocol": "not-offered"})

    async def sc(h):
        c = Client()
        await h.feed(c.req)
        await h.settle()
        return h.wire
    h, r, exc = run_h1(app, sc)
    got500 = (h.wire or b"").startswith(b"HTTP/1.1 500")
    return ((not got500) and "AttributeError" in names(exc)), f"bytes to the client: {bytes(h.wire[:20])!r}; exception escaping: {names(exc)}"


def F4j():
    """WebSocket upgrade whose Sec-WebSocket-Protocol value has a byte over 0x7f: wsproto's
    split_comma_header raises UnicodeDecodeError in Handshake.__init__, out of the connection handler"""
    async def app(scope, receive, send):
        pass

    async def sc(h):
        await h.feed(UPGRADE.replace(b"\r\n\r\n", b"\r\nSec-WebSocket-Protocol: caf\xe9\r\n\r\n"))
        return True
    h, r, exc = run_h1(app, sc)
    return ("UnicodeDecodeError" in names(exc)), f"exception escaping handle(): {names(exc)}"


SCENARIOS = {k: v for k, v in globals().items() if k.startswith("F") and callable(v)}

if __name__ == "__main__":
    import sys
    for name in sys.argv[1:] or sorted(SCENARIOS):
        print(name, SCENARIOS[name]())
