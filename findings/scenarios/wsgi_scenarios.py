"""Native demonstrations of the known findings in the WSGI adapter (real WSGIWrapper)."""
import asyncio
from functools import partial

from hypercorn.app_wrappers import WSGIWrapper

SCOPE = {"type": "http", "http_version": "1.1", "method": "GET", "scheme": "http", "path": "/", "raw_path": b"/", "query_string": b"",
         "root_path": "", "headers": [], "client": ("127.0.0.1", 1), "server": ("127.0.0.1", 80)}


def _drive(app):
    sent = []
    err = []

    async def main():
        loop = asyncio.get_running_loop()
        msgs = [{"type": "http.request", "body": b"", "more_body": False}]

        async def receive():
            return msgs.pop(0)

        async def send(m):
            sent.append(m)

        def call_soon(func, *args):
            return asyncio.run_coroutine_threadsafe(func(*args), loop).result()

        try:
            await WSGIWrapper(app, 2 ** 16)(dict(SCOPE), receive, send, partial(loop.run_in_executor, None), call_soon)
        except BaseException as e:  # noqa
            err.append(e)

    asyncio.run(main())
    return sent, err


def F17():
    """a WSGI application written as a generator (start_response runs when the first chunk is asked
    for, which PEP 3333 allows): run_app checks for start_response before iterating and raises
    RuntimeError; nothing of the response is sent"""
    def app(environ, start_response):
        start_response("200 OK", [("Content-Type", "text/plain")])
        yield b"hello"

    sent, err = _drive(app)
    return (bool(err) and isinstance(err[0], RuntimeError) and not sent), f"messages sent: {[m['type'] for m in sent]}; raised: {[type(e).__name__ for e in err]}"


def F17b():
    """the iterable's close() is not called when run_app gives up before iterating (an application
    that has not called start_response by the time it returns)"""
    closed = []

    class Body:
        def __iter__(self):
            return iter([b"x"])

        def close(self):
            closed.append(1)

    def app(environ, start_response):
        return Body()

    sent, err = _drive(app)
    return (bool(err) and not closed), f"close() calls: {len(closed)}; raised: {[type(e).__name__ for e in err]}"

def F17c():
    """root_path '/app', request path '/application/x': the path is split with a plain prefix test,
    so the application is called with SCRIPT_NAME '/app' and PATH_INFO 'lication/x'"""
    from hypercorn.app_wrappers import _build_environ

    scope = {"type": "http", "method": "GET", "path": "/application/x", "root_path": "/app", "query_string": b"", "http_version": "1.1",
             "scheme": "http", "headers": [], "server": ("h", 80), "client": ("c", 1)}
    try:
        env = _build_environ(scope, b"")
    except Exception as e:  # noqa
        return False, f"raised {type(e).__name__}"
    return (env["PATH_INFO"] != "" and not env["PATH_INFO"].startswith("/")), f"SCRIPT_NAME={env['SCRIPT_NAME']!r} PATH_INFO={env['PATH_INFO']!r}"


SCENARIOS = {k: v for k, v in globals().items() if k.startswith("F") and callable(v)}

if __name__ == "__main__":
    import sys
    for name in sys.argv[1:] or sorted(SCENARIOS):
        print(name, SCENARIOS[name]())
