import asyncio
from hypercorn.protocol.h2 import StreamBuffer, BUFFER_HIGH_WATER
from hypercorn.asyncio.worker_context import EventWrapper

async def main():
    sb = StreamBuffer(EventWrapper)
    # window is zero: send task pops 0 bytes each time the app pushes
    async def app():
        for i in range(20):
            await sb.push(b"a"*40000)
        return True
    t = asyncio.get_running_loop().create_task(app())
    for i in range(100):
        await asyncio.sleep(0)
        await sb.pop(0)
    print("done", t.done(), "buffered", len(sb.buffer), "HIGH", BUFFER_HIGH_WATER)
asyncio.run(main())
