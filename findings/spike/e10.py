import asyncio, sys
sys.path.insert(0,'/tmp/exp')
from h2h import *
H=[(b":method",b"GET"),(b":scheme",b"http"),(b":authority",b"x"),(b":path",b"/")]
prog=[]
async def big_app(scope, receive, send):
    await send({"type":"http.response.start","status":200,"headers":[]})
    try:
        for i in range(100):
            await send({"type":"http.response.body","body":b"a"*30000,"more_body":True}); prog.append(i)
        await send({"type":"http.response.body","body":b"","more_body":False})
    finally:
        prog.append("exit")
async def sc(h):
    h.client.send_headers(1, H, end_stream=True)
    await h.flush(); await h.flush()
    print("blocked at", len(prog))
    h.client.reset_stream(1)
    await h.flush()
    for _ in range(2000): await asyncio.sleep(0)
    print("events seen by proto streams:", list(h.proto.streams))
    import priority
    sb=h.proto.stream_buffers[1]
    print("paused set:", sb._paused.is_set(), "empty set:", sb._is_empty.is_set(), "len", len(sb.buffer), "has_data", h.proto.has_data.is_set(), "prog", prog[-3:])
    try: print("next prio", next(h.proto.priority))
    except Exception as e: print("prio", repr(e))
    try: print("win", h.proto.connection.local_flow_control_window(1))
    except Exception as e: print("win", repr(e))
    print("after RST: app exited:", "exit" in prog, "buffers:", list(h.proto.stream_buffers))
cfg=Config(); cfg.errorlog=None
h=Harness(big_app,cfg)
try: asyncio.run(asyncio.wait_for(h.run(sc),4))
except BaseException as e: print("RAISED",repr(e)[:100], "app exited:", "exit" in prog)
