import asyncio, sys
sys.path.insert(0,'/tmp/exp')
from h2h import *
async def app(scope, receive, send):
    await send({"type":"http.response.start","status":200,"headers":[]})
    await send({"type":"http.response.body","body":b"hi"})
async def prio_unknown_parent(h):
    h.client.prioritize(5, weight=10, depends_on=7)
    await h.flush()
async def prio_many(h):
    for i in range(1, 2100, 2):
        h.client.prioritize(i, weight=10)
    await h.flush()
async def prio_on_closed_then_window(h):
    h.client.send_headers(1, [(b":method",b"GET"),(b":scheme",b"http"),(b":authority",b"x"),(b":path",b"/")], end_stream=True)
    await h.flush(); await h.flush()
    h.client.prioritize(1, weight=5)
    h.client.increment_flow_control_window(100)
    await h.flush()
cfg=Config(); cfg.errorlog=None
for name, sc in [("prio_unknown_parent",prio_unknown_parent),("prio_many",prio_many),("prio_on_closed_then_window",prio_on_closed_then_window)]:
    h=Harness(app,cfg)
    try:
        asyncio.run(asyncio.wait_for(h.run(sc),10)); print(name,"OK closed=",h.closed)
    except BaseException as e:
        print(name,"RAISED",repr(e)[:200])
