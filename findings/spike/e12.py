import asyncio, sys
sys.path.insert(0,'/var/tmp/pyvc_spike/exp')
from h1h import *
go=None
async def app(scope, receive, send):
    await send({"type":"http.response.start","status":200,"headers":[]})
    await send({"type":"http.response.body","body":b"part1","more_body":True})
    await go.wait()
    await send({"type":"http.response.body","body":b"part2","more_body":False})
async def sc(h):
    global go; go=asyncio.Event()
    await h.feed(b"GET / HTTP/1.1\r\nHost: a\r\n\r\n")
    await h.proto.handle(Closed()); await h.settle()      # client goes away mid-response
    print("after client close:", h.log.records)
    go.set(); await h.settle()
    print("after app finished :", h.log.records)
h=H1(app); asyncio.run(asyncio.wait_for(h.run(sc),5))
