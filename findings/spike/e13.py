import asyncio, sys
sys.path.insert(0,'/var/tmp/pyvc_spike/exp')
from h2h import *
H=[(b":method",b"GET"),(b":scheme",b"http"),(b":authority",b"x"),(b":path",b"/")]
async def app(scope, receive, send):
    while True:
        m=await receive()
        if m["type"]=="http.disconnect": return
async def sc(h):
    h.client.send_headers(1, H, end_stream=True); await h.flush()
    h.client.reset_stream(1); await h.flush(); await h.flush()
    print("streams:", list(h.proto.streams), "Updated events:", [e.idle for e in h.out if isinstance(e,Updated)])
cfg=Config(); cfg.errorlog=None
h=Harness(app,cfg); asyncio.run(asyncio.wait_for(h.run(sc),5))
