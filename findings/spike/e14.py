import asyncio, sys
sys.path.insert(0,'/var/tmp/pyvc_spike/exp')
from h1h import *
import wsproto, wsproto.events
seen=[]
async def wsapp(scope, receive, send):
    m=await receive(); await send({"type":"websocket.accept"})
    while True:
        m=await receive(); seen.append(m)
        if m["type"]=="websocket.disconnect": return
async def sc(h):
    c=wsproto.WSConnection(wsproto.ConnectionType.CLIENT)
    await h.feed(c.send(wsproto.events.Request(host="a",target="/")))
    c.receive_data(h.wire); list(c.events())
    await h.feed(c.send(wsproto.events.TextMessage(data="x"*20)))     # over the limit of 10
    try:
        await h.feed(c.send(wsproto.events.BytesMessage(data=b"yy")))  # client keeps talking
        print("no exception; app saw", seen)
    except BaseException as e:
        print("RAISED", repr(e))
cfg=Config(); cfg.websocket_max_message_size=10
h=H1(wsapp,cfg)
try: asyncio.run(asyncio.wait_for(h.run(sc),5))
except BaseException as e: print("outer", repr(e)[:200])
