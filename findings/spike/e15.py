import asyncio, sys
sys.path.insert(0,'/var/tmp/pyvc_spike/exp')
from h1h import *
import h2.connection, h2.config, h2.events
scopes=[]
async def app(scope, receive, send):
    body=b""
    while True:
        m=await receive()
        if m["type"]=="http.request":
            body+=m.get("body",b"")
            if not m.get("more_body"): break
        else: return
    scopes.append((scope["http_version"], scope["method"], scope["path"], body))
    await send({"type":"http.response.start","status":200,"headers":[]})
    await send({"type":"http.response.body","body":b"ok"})
def opening_h2c():
    c=h2.connection.H2Connection(config=h2.config.H2Configuration(client_side=True, header_encoding=None))
    settings=c.initiate_upgrade_connection()
    up=b"GET /up HTTP/1.1\r\nHost: a\r\nConnection: Upgrade, HTTP2-Settings\r\nUpgrade: h2c\r\nHTTP2-Settings: "+settings+b"\r\n\r\n"
    c.send_headers(3,[(b":method",b"POST"),(b":scheme",b"http"),(b":authority",b"a"),(b":path",b"/two")]); c.send_data(3,b"payload",end_stream=True)
    return up+c.data_to_send()
def opening_prior():
    c=h2.connection.H2Connection(config=h2.config.H2Configuration(client_side=True, header_encoding=None))
    c.initiate_connection()
    c.send_headers(1,[(b":method",b"POST"),(b":scheme",b"http"),(b":authority",b"a"),(b":path",b"/one")]); c.send_data(1,b"payload",end_stream=True)
    return c.data_to_send()
async def run_split(data,k):
    scopes.clear()
    h=H1(app); h.config.errorlog=None
    async def sc(h):
        if k>0: await h.feed(data[:k])
        await h.feed(data[k:])
        await h.proto.handle(Closed()); await h.settle()
    await asyncio.wait_for(h.run(sc),5)
    return sorted(scopes)
async def main():
    for name,data in [("h2c",opening_h2c()),("prior",opening_prior())]:
        outs={}
        for k in range(0,len(data)):
            try: r=await run_split(data,k)
            except BaseException as e: r=("EXC",repr(e)[:80])
            outs.setdefault(repr(r),[]).append(k)
        print(name,"len",len(data),"distinct outcomes:",len(outs))
        for o,ks in outs.items(): print("   ",o[:160],"splits:",ks[:8],"..." if len(ks)>8 else "")
asyncio.run(main())
