import asyncio, sys, traceback
sys.path.insert(0,'/tmp/exp')
from h2h import *
H=[(b":method",b"GET"),(b":scheme",b"http"),(b":authority",b"x"),(b":path",b"/")]
async def quick_app(scope, receive, send):
    await send({"type":"http.response.start","status":200,"headers":[]})
    await send({"type":"http.response.body","body":b"hi"})
async def data_after_response(h):
    h.client.send_headers(1, [(b":method",b"POST"),(b":scheme",b"http"),(b":authority",b"x"),(b":path",b"/")])
    await h.flush()
    h.client.send_data(1, b"late")
    await h.flush()
async def connect_no_path(h):
    h.client.send_headers(1, [(b":method",b"CONNECT"),(b":authority",b"x:80")])
    await h.flush()
async def nonascii_path(h):
    h.client.send_headers(1, [(b":method",b"GET"),(b":scheme",b"http"),(b":authority",b"x"),(b":path",b"/\xc3\xa9")], end_stream=True)
    await h.flush()
for name, sc in [("data_after_response",data_after_response),("connect_no_path",connect_no_path),("nonascii_path",nonascii_path)]:
    h=Harness(quick_app)
    try:
        asyncio.run(asyncio.wait_for(h.run(sc),5))
        print(name,"OK", [type(e).__name__ for e in h.events])
    except BaseException as e:
        print(name,"RAISED",repr(e)[:300])
