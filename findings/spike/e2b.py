import asyncio, sys, traceback
sys.path.insert(0,'/tmp/exp')
from h2h import *
async def quick_app(scope, receive, send):
    print("APP scope", scope["method"], scope["path"])
    await send({"type":"http.response.start","status":200,"headers":[]})
    await send({"type":"http.response.body","body":b"hi"})
async def sc(h):
    h.client.send_headers(1, [(b":method",b"POST"),(b":scheme",b"http"),(b":authority",b"x"),(b":path",b"/")])
    await h.flush()
    print([type(e).__name__ for e in h.events])
    h.client.send_data(1, b"late")
    try:
        await h.flush()
    except BaseException as e:
        traceback.print_exc()
h=Harness(quick_app)
asyncio.run(asyncio.wait_for(h.run(sc),5))
print([type(e).__name__ for e in h.out])
