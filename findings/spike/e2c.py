import h2.connection, h2.config
c=h2.connection.H2Connection(config=h2.config.H2Configuration(client_side=True, header_encoding=None))
c.initiate_connection()
d=c.data_to_send()
s=h2.connection.H2Connection(config=h2.config.H2Configuration(client_side=False, header_encoding=None))
s.initiate_connection()
print(s.receive_data(d))
c.send_headers(1, [(b":method",b"POST"),(b":scheme",b"http"),(b":authority",b"x"),(b":path",b"/")])
try:
    print(s.receive_data(c.data_to_send()))
except Exception as e:
    import traceback; traceback.print_exc()
