import asyncio, sys, traceback
sys.path.insert(0,'/tmp/exp')
from h2h import *
import h2.exceptions
orig=h2.connection.H2Connection.receive_data
def rd(self,data):
    try:
        return orig(self,data)
    except Exception:
        traceback.print_exc(); raise
h2.connection.H2Connection.receive_data=rd
async def quick_app(scope, receive, send):
    pass
async def sc(h):
    pass
h=Harness(quick_app)
asyncio.run(asyncio.wait_for(h.run(sc),5))
