import asyncio, sys, traceback, logging
sys.path.insert(0,'/tmp/exp')
from h2h import *
H=[(b":method",b"GET"),(b":scheme",b"http"),(b":authority",b"x"),(b":path",b"/")]
async def crash_app(scope, receive, send):
    await send({"type":"http.response.start","status":200,"headers":[(b"content-length",b"10")]})
    await send({"type":"http.response.body","body":b"hi","more_body":True})
    raise RuntimeError("boom")
async def sc1(h):
    h.client.send_headers(1, H, end_stream=True)
    await h.flush(); await h.flush()
    print("crash-after-start events:", [(type(e).__name__) for e in h.events])
cfg=Config(); cfg.errorlog=None
h=Harness(crash_app,cfg); asyncio.run(asyncio.wait_for(h.run(sc1),5))

async def crlf_app(scope, receive, send):
    await send({"type":"http.response.start","status":200,"headers":[(b"x-a",b"1\r\nx-evil: 2"),(b"x\nb",b"v\x00")]})
    await send({"type":"http.response.body","body":b"hi"})
async def sc2(h):
    h.client.send_headers(1, H, end_stream=True)
    await h.flush(); await h.flush()
    for e in h.events:
        if isinstance(e,h2.events.ResponseReceived): print("crlf headers on wire:", e.headers)
    print([type(e).__name__ for e in h.events])
h=Harness(crlf_app,cfg); asyncio.run(asyncio.wait_for(h.run(sc2),5))

done=[]
async def big_app(scope, receive, send):
    await send({"type":"http.response.start","status":200,"headers":[]})
    try:
        for i in range(100):
            await send({"type":"http.response.body","body":b"a"*30000,"more_body":True})
    finally:
        done.append(i)
async def sc3(h):
    h.client.send_headers(1, H, end_stream=True)
    await h.flush(); await h.flush()
    print("before close: app progress", done, "buffer", {k:len(v.buffer) for k,v in h.proto.stream_buffers.items()})
h=Harness(big_app,cfg)
try:
    asyncio.run(asyncio.wait_for(h.run(sc3),3))
    print("closed ok; app done", done)
except BaseException as e:
    print("after Closed: RAISED", repr(e)[:200], "app done:", done)
