import asyncio, sys
sys.path.insert(0,'/tmp/exp')
import h2h
from h2h import *
H=[(b":method",b"GET"),(b":scheme",b"http"),(b":authority",b"x"),(b":path",b"/")]
async def crlf_app(scope, receive, send):
    await send({"type":"http.response.start","status":200,"headers":[(b"x-a",b"1\r\nx-evil: 2"),(b"x\nb",b"v\x00")]})
    await send({"type":"http.response.body","body":b"hi"})
async def sc2(h):
    h.client.send_headers(1, H, end_stream=True)
    await h.flush(); await h.flush()
    for e in h.events:
        if isinstance(e,h2.events.ResponseReceived): print("crlf headers on wire:", e.headers)
cfg=Config(); cfg.errorlog=None
h=Harness(crlf_app,cfg)
h.client=h2.connection.H2Connection(config=h2.config.H2Configuration(client_side=True, header_encoding=None, validate_inbound_headers=False))
asyncio.run(asyncio.wait_for(h.run(sc2),5))
