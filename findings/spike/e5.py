import asyncio, sys
sys.path.insert(0,'/tmp/exp')
from h1h import *
# (g) invalid server name -> 404, then is the connection marked idle / closed?
async def app(scope, receive, send):
    await send({"type":"http.response.start","status":200,"headers":[]})
    await send({"type":"http.response.body","body":b"hi"})
cfg=Config(); cfg.server_names=["good"]
async def sc(h):
    await h.feed(b"GET / HTTP/1.1\r\nHost: bad\r\n\r\n")
    print("(g) wire:", h.wire[:40], "closed:", h.closed, "idle flag last:", h.idle, "events:", [type(e).__name__ for e in h.out], "stream:", h.proto.protocol.stream)
    await h.proto.handle(Closed())
h=H1(app,cfg); asyncio.run(asyncio.wait_for(h.run(sc),5))

# (h) WS handshake crash -> access log count
async def wsapp(scope, receive, send):
    raise RuntimeError("x")
async def sc2(h):
    await h.feed(b"GET / HTTP/1.1\r\nHost: a\r\nUpgrade: websocket\r\nConnection: Upgrade\r\nSec-WebSocket-Key: dGhlIHNhbXBsZSBub25jZQ==\r\nSec-WebSocket-Version: 13\r\n\r\n")
    print("(h) access records:", h.log.records)
    await h.proto.handle(Closed())
h=H1(wsapp); asyncio.run(asyncio.wait_for(h.run(sc2),5))

# (h2) WS client leaves during handshake -> zero records
async def wsapp2(scope, receive, send):
    while True:
        m=await receive()
        if m["type"]=="websocket.disconnect": return
async def sc3(h):
    await h.feed(b"GET / HTTP/1.1\r\nHost: a\r\nUpgrade: websocket\r\nConnection: Upgrade\r\nSec-WebSocket-Key: dGhlIHNhbXBsZSBub25jZQ==\r\nSec-WebSocket-Version: 13\r\n\r\n")
    await h.proto.handle(Closed()); await h.settle()
    print("(h2) access records:", h.log.records)
h=H1(wsapp2); asyncio.run(asyncio.wait_for(h.run(sc3),5))

# (k) client-initiated WS close with code 1001 -> code seen by app
seen=[]
async def wsapp3(scope, receive, send):
    m=await receive(); await send({"type":"websocket.accept"})
    while True:
        m=await receive(); seen.append(m)
        if m["type"]=="websocket.disconnect": return
import wsproto, wsproto.events
async def sc4(h):
    c=wsproto.WSConnection(wsproto.ConnectionType.CLIENT)
    await h.feed(c.send(wsproto.events.Request(host="a",target="/")))
    c.receive_data(h.wire); list(c.events())
    await h.feed(c.send(wsproto.events.CloseConnection(code=1001, reason="bye")))
    print("(k) app saw:", seen)
    await h.proto.handle(Closed())
h=H1(wsapp3); asyncio.run(asyncio.wait_for(h.run(sc4),5))
