import asyncio, sys
sys.path.insert(0,'/tmp/exp')
from hypercorn.app_wrappers import WSGIWrapper
from functools import partial
closed=[]
class It:
    def __init__(s,start): s.start=start; s.n=0
    def __iter__(s): return s
    def __next__(s):
        if s.n==0:
            s.start("200 OK",[("X","y")])
        s.n+=1
        if s.n>2: raise StopIteration
        return b"chunk"
    def close(s): closed.append(1)
def lazy_app(environ, start_response):
    return It(start_response)
def gen_app(environ, start_response):
    start_response("200 OK", [])
    yield b"a"
async def main(app):
    w=WSGIWrapper(app, 100)
    sent=[]
    async def send(m): sent.append(m)
    async def receive(): return {"type":"http.request","body":b"","more_body":False}
    loop=asyncio.get_running_loop()
    def call_soon(func,*a): return asyncio.run_coroutine_threadsafe(func(*a), loop).result()
    scope={"type":"http","http_version":"1.1","method":"GET","path":"/","query_string":b"","headers":[],"root_path":"","scheme":"http","server":None,"client":None}
    try:
        await w(scope, receive, send, partial(loop.run_in_executor,None), call_soon)
        print("sent", sent)
    except Exception as e:
        print("RAISED", repr(e), "sent", sent, "close calls", closed)
asyncio.run(main(lazy_app))
asyncio.run(main(gen_app))
