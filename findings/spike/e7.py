import asyncio, sys
sys.path.insert(0,'/tmp/exp')
from h1h import *
async def app(scope, receive, send):
    while True:
        m=await receive()
        if m["type"]=="http.disconnect": return
async def sc(h):
    req=b"GET /1 HTTP/1.1\r\nHost: a\r\n\r\n"
    reader=asyncio.get_running_loop().create_task(h.proto.handle(RawData(req+req)))
    await h.settle()
    print("reader parked (not done):", not reader.done())
    await h.proto.handle(Closed())   # e.g. a failed write / peer reset noticed by a sender
    await h.settle()
    print("after Closed: reader done:", reader.done(), "stream:", h.proto.protocol.stream, "can_read set:", h.proto.protocol.can_read.is_set())
    reader.cancel()
h=H1(app); asyncio.run(asyncio.wait_for(h.run(sc),5))
