import asyncio, time, socket
from hypercorn.config import Config
from hypercorn.asyncio import serve
async def app(scope, receive, send):
    if scope["type"]=="lifespan":
        while True:
            m=await receive()
            if m["type"]=="lifespan.startup": await send({"type":"lifespan.startup.complete"})
            elif m["type"]=="lifespan.shutdown": await send({"type":"lifespan.shutdown.complete"}); return
    await asyncio.sleep(3600)
async def main():
    cfg=Config(); cfg.bind=["127.0.0.1:18931"]; cfg.graceful_timeout=0.3; cfg.errorlog=None; cfg.accesslog=None
    ev=asyncio.Event()
    t=asyncio.create_task(serve(app,cfg,shutdown_trigger=ev.wait))
    await asyncio.sleep(0.3)
    r,w=await asyncio.open_connection("127.0.0.1",18931)
    w.write(b"GET / HTTP/1.1\r\nHost: a\r\n\r\n"); await w.drain()
    await asyncio.sleep(0.2)
    t0=time.time(); ev.set()
    try:
        await asyncio.wait_for(asyncio.shield(t), 3)
        print("serve returned after", round(time.time()-t0,2))
    except asyncio.TimeoutError:
        print("serve did NOT return within 3s of trigger (graceful_timeout=0.3)")
        t.cancel()
asyncio.run(main())
