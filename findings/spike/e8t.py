import trio, time
from hypercorn.config import Config
from hypercorn.trio import serve
async def app(scope, receive, send):
    if scope["type"]=="lifespan":
        while True:
            m=await receive()
            if m["type"]=="lifespan.startup": await send({"type":"lifespan.startup.complete"})
            elif m["type"]=="lifespan.shutdown": await send({"type":"lifespan.shutdown.complete"}); return
    await trio.sleep(3600)
async def main():
    cfg=Config(); cfg.bind=["127.0.0.1:18932"]; cfg.graceful_timeout=0.3; cfg.errorlog=None; cfg.accesslog=None
    ev=trio.Event()
    async with trio.open_nursery() as n:
        done=trio.Event()
        async def run():
            await serve(app,cfg,shutdown_trigger=ev.wait); done.set()
        n.start_soon(run)
        await trio.sleep(0.3)
        s=await trio.open_tcp_stream("127.0.0.1",18932)
        await s.send_all(b"GET / HTTP/1.1\r\nHost: a\r\n\r\n")
        await trio.sleep(0.2)
        t0=time.time(); ev.set()
        with trio.move_on_after(3) as cs:
            await done.wait()
        print("trio: returned" if not cs.cancelled_caught else "trio: did NOT return in 3s", round(time.time()-t0,2))
        n.cancel_scope.cancel()
trio.run(main)
