import asyncio, sys
sys.path.insert(0,'/tmp/exp')
from h2h import *
H=[(b":method",b"GET"),(b":scheme",b"http"),(b":authority",b"x"),(b":path",b"/"),(b"te",b"trailers")]
async def app(scope, receive, send):
    await send({"type":"http.response.start","status":200,"headers":[],"trailers":True})
    await send({"type":"http.response.body","body":b"hi"})
    await send({"type":"http.response.trailers","headers":[(b"x-t",b"1")]})
async def sc(h):
    h.client.send_headers(1, H, end_stream=True)
    await h.flush(); await h.flush()
    print([ (type(e).__name__, getattr(e,'headers',None)) for e in h.events if not isinstance(e,(h2.events.RemoteSettingsChanged,h2.events.SettingsAcknowledged))])
cfg=Config(); cfg.errorlog=None
h=Harness(app,cfg); asyncio.run(asyncio.wait_for(h.run(sc),5))
