import asyncio
from hypercorn.config import Config
from hypercorn.events import Closed, RawData, Updated
from hypercorn.protocol import ProtocolWrapper
from hypercorn.asyncio.worker_context import WorkerContext
from hypercorn.asyncio.task_group import TaskGroup
from hypercorn.app_wrappers import ASGIWrapper
from hypercorn.typing import ConnectionState

class Log:
    def __init__(self): self.records=[]; self.errors=[]
    async def access(self, req, resp, t): self.records.append((req["type"], None if resp is None else resp["status"]))
    async def exception(self,*a,**k): self.errors.append(a)
    async def warning(self,*a,**k): pass
    async def info(self,*a,**k): pass

class H1:
    def __init__(self, app, config=None, alpn="http/1.1"):
        self.app=app; self.config=config or Config(); self.out=[]; self.wire=b""; self.closed=False; self.idle=None
        self.log=Log(); self.config._log=self.log
    async def send(self, event):
        self.out.append(event)
        if isinstance(event, RawData): self.wire+=event.data
        elif isinstance(event, Closed): self.closed=True
        elif isinstance(event, Updated): self.idle=event.idle
    async def run(self, script):
        self.ctx=WorkerContext(None)
        async with TaskGroup(asyncio.get_running_loop()) as tg:
            self.proto=ProtocolWrapper(ASGIWrapper(self.app), self.config, self.ctx, tg, ConnectionState({}), False, ("1.1.1.1",1), ("2.2.2.2",2), self.send, "http/1.1")
            await self.proto.initiate()
            await script(self)
    async def feed(self, data):
        await self.proto.handle(RawData(data))
        await self.settle()
    async def settle(self):
        for _ in range(30): await asyncio.sleep(0)
