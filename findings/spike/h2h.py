import asyncio, traceback
import h2.connection, h2.config, h2.events
from hypercorn.config import Config
from hypercorn.events import Closed, RawData, Updated
from hypercorn.protocol.h2 import H2Protocol
from hypercorn.asyncio.worker_context import WorkerContext
from hypercorn.asyncio.task_group import TaskGroup
from hypercorn.app_wrappers import ASGIWrapper
from hypercorn.typing import ConnectionState

class Harness:
    def __init__(self, app, config=None):
        self.app=app; self.config=config or Config(); self.out=[]; self.closed=False
        self.client=h2.connection.H2Connection(config=h2.config.H2Configuration(client_side=True, header_encoding=None, validate_outbound_headers=False, normalize_outbound_headers=False))
        self.events=[]
    async def send(self, event):
        if isinstance(event, RawData):
            self.events.extend(self.client.receive_data(event.data))
        elif isinstance(event, Closed):
            self.closed=True
        self.out.append(event)
    async def run(self, script):
        ctx=WorkerContext(None)
        async with TaskGroup(asyncio.get_running_loop()) as tg:
            self.proto=H2Protocol(ASGIWrapper(self.app), self.config, ctx, tg, ConnectionState({}), False, ("1.1.1.1",1), ("2.2.2.2",2), self.send)
            self.client.initiate_connection()
            await self.proto.initiate()
            await self.flush()
            try:
                await script(self)
            finally:
                await self.proto.handle(Closed())
    async def flush(self):
        d=self.client.data_to_send()
        if d: await self.proto.handle(RawData(d))
        for _ in range(20): await asyncio.sleep(0)
