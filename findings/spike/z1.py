import z3, time
t=time.time()
# StreamBuffer.pop: FIFO + bound obligation
buf=z3.String('buf'); ml=z3.Int('max_length')
L=z3.Length(buf)
length=z3.If(L<ml,L,ml)
data=z3.SubString(buf,0,length)
rest=z3.SubString(buf,length,L-length)
s=z3.Solver()
s.add(ml>=0)
# FIFO: data ++ rest == buf
s.push(); s.add(z3.Concat(data,rest)!=buf); print("fifo", s.check()); s.pop()
# len(data) <= max_length
s.push(); s.add(z3.Length(data)>ml); print("len<=max", s.check()); s.pop()
# property-derived: paused_set => len(rest) < HIGH
HIGH=32768
paused=z3.ToReal(z3.Length(data)) < z3.RealVal(HIGH)/2
s.push(); s.add(paused, z3.Length(rest)>=HIGH); r=s.check(); print("bound", r); 
if r==z3.sat:
    m=s.model(); print("cex: len(buf)=",m.eval(L), "max_length=",m[ml])
s.pop()
print(time.time()-t)
# trace with datatypes
Ev=z3.Datatype('Ev'); Ev.declare('Body',('data',z3.StringSort())); Ev.declare('EndBody'); Ev.declare('Closed'); Ev=Ev.create()
tr=z3.Const('tr', z3.SeqSort(Ev)); d=z3.String('d')
tr2=z3.Concat(tr, z3.Unit(Ev.Body(d)))
s=z3.Solver(); s.add(z3.Length(tr2)!=z3.Length(tr)+1); print("trace len", s.check())
s=z3.Solver(); s.add(tr2[z3.Length(tr)]!=Ev.Body(d)); print("trace last", s.check())
print(time.time()-t)
