import z3, time
t=time.time()
B=z3.DeclareSort('Bytes')
ln=z3.Function('len',B,z3.IntSort()); cat=z3.Function('cat',B,B,B); sl=z3.Function('slice',B,z3.IntSort(),z3.IntSort(),B); empty=z3.Const('empty',B)
a,b,c=z3.Consts('a b c',B); i,j=z3.Ints('i j')
clamp=lambda x,lo,hi: z3.If(x<lo,lo,z3.If(x>hi,hi,x))
AX=[z3.ForAll([a],ln(a)>=0,patterns=[ln(a)]),
    ln(empty)==0,
    z3.ForAll([a],z3.Implies(ln(a)==0,a==empty),patterns=[ln(a)]),
    z3.ForAll([a,b],ln(cat(a,b))==ln(a)+ln(b),patterns=[cat(a,b)]),
    z3.ForAll([a,i,j],ln(sl(a,i,j))==z3.If(clamp(j,0,ln(a))-clamp(i,0,ln(a))<0,0,clamp(j,0,ln(a))-clamp(i,0,ln(a))),patterns=[sl(a,i,j)]),
    z3.ForAll([a,i],z3.Implies(z3.And(0<=i,i<=ln(a)),cat(sl(a,0,i),sl(a,i,ln(a)))==a),patterns=[sl(a,0,i)]),
    z3.ForAll([a,b,c],cat(cat(a,b),c)==cat(a,cat(b,c)),patterns=[cat(cat(a,b),c)]),
    z3.ForAll([a],cat(a,empty)==a,patterns=[cat(a,empty)]), z3.ForAll([a],cat(empty,a)==a,patterns=[cat(empty,a)]),
]
buf=z3.Const('buf',B); ml=z3.Int('ml'); L=ln(buf)
length=z3.If(L<ml,L,ml); data=sl(buf,0,length); rest=sl(buf,length,L)
def chk(name,*f):
    s=z3.Solver(); s.set('timeout',10000); s.add(AX); s.add(ml>=0); s.add(*f); r=s.check(); print(name,r,round(time.time()-t,2)); return s,r
chk("fifo", cat(data,rest)!=buf)
chk("len<=max", ln(data)>ml)
HIGH=32768
s,r=chk("bound", z3.ToReal(ln(data))<z3.RealVal(HIGH)/2, ln(rest)>=HIGH)
if r==z3.sat: m=s.model(); print("cex len(buf)=",m.eval(L),"ml=",m.eval(ml))
pushed,popped=z3.Consts('pushed popped',B)
chk("ghost fifo inv", cat(popped,buf)==pushed, cat(cat(popped,data),rest)!=pushed)
