import z3, time
t=time.time()
B=z3.DeclareSort('Bytes')
Ev=z3.Datatype('Ev'); Ev.declare('Response',('status',z3.IntSort())); Ev.declare('Body',('data',B)); Ev.declare('EndBody'); Ev.declare('StreamClosed'); Ev=Ev.create()
St,(REQUEST,RESPONSE,TRAILERS,CLOSED)=z3.EnumSort('St',['REQUEST','RESPONSE','TRAILERS','CLOSED'])
S=z3.SeqSort(Ev)
cnt=z3.RecFunction('cnt_end',S,z3.IntSort())
x=z3.Const('x',S)
# count of EndBody defined via ghost counter instead of recursion: keep ghost int n_end alongside trace
sent=z3.Const('sent',S); n_end=z3.Int('n_end'); state=z3.Const('state',St)
inv=lambda st,n: n==z3.If(st==CLOSED,1,0)
# path: body, more_body False, no trailers, state==RESPONSE: emits EndBody, state=CLOSED, emits StreamClosed
sent1=z3.Concat(sent,z3.Unit(Ev.EndBody)); n1=n_end+1; st1=CLOSED
sent2=z3.Concat(sent1,z3.Unit(Ev.StreamClosed))
s=z3.Solver(); s.set('timeout',10000)
s.add(inv(state,n_end), state==RESPONSE, z3.Not(inv(st1,n1))); print("inv preserved:", s.check(), round(time.time()-t,2))
# mutant: state not updated
s=z3.Solver(); s.set('timeout',10000)
s.add(inv(state,n_end), state==RESPONSE, z3.Not(inv(state,n1))); r=s.check(); print("mutant:", r, s.model() if r==z3.sat else "", round(time.time()-t,2))
# trace postcondition: sent' == sent ++ [EndBody, StreamClosed]
s=z3.Solver(); s.set('timeout',10000)
s.add(sent2 != z3.Concat(sent, z3.Unit(Ev.EndBody), z3.Unit(Ev.StreamClosed))); print("trace eq:", s.check(), round(time.time()-t,2))
# header list: result == hdrs ++ extra ++ [close]
P=z3.Datatype('Hdr'); P.declare('mk',('name',B),('value',B)); P=P.create(); HS=z3.SeqSort(P)
h,e=z3.Consts('h e',HS); close=z3.Const('close',P); k,mx=z3.Ints('k mx')
res=z3.If(k>=mx, z3.Concat(z3.Concat(h,e),z3.Unit(close)), z3.Concat(h,e))
s=z3.Solver(); s.set('timeout',10000)
s.add(k>=mx, z3.Or(z3.Length(res)!=z3.Length(h)+z3.Length(e)+1, res[z3.Length(res)-1]!=close, z3.Not(z3.PrefixOf(h,res)))); print("hdr order:", s.check(), round(time.time()-t,2))
