"""Which functions (units) and stand-ins decide which property.  Obligations of a unit count for
a property when their clause carries that property id or no id at all (supporting obligations)."""

H2 = "hypercorn.protocol.h2:"
SB = H2 + "StreamBuffer."

COMMON_ASSUME = [
    "cooperative scheduling: code between two suspending awaits runs atomically",
    "Event interface contract (hypercorn.typing:Event) is what both EventWrapper classes implement (checked under C16)",
]

HP = H2 + "H2Protocol."
H2_UNITS = [HP + m for m in ("send_task", "_send_data", "handle", "stream_send", "_handle_events", "_flush", "_create_stream", "_window_updated",
                             "_priority_updated", "_close_stream", "_create_server_push", "initiate", "idle")]
LIB_H2 = ["assumed contract M_h2 for h2.connection.H2Connection 4.4.1 (pyvc/models_h2.py): which calls raise which exceptions, window arithmetic, event alphabet and what h2 guarantees about event fields",
          "assumed contract M_prio for priority.PriorityTree 2.0 (pyvc/models_h2.py)"]

PLAN = {
    "C04": {
        "units": H2_UNITS,
        "trusted_base": LIB_H2,
        "assumptions": COMMON_ASSUME + ["byte-level parsing of HTTP/2 frames is h2's; inputs range over everything the assumed h2 contract may return"],
        "explanation": "no client input causes an internal error: generated run-time-exception obligations (no undeclared exception escapes) and class invariants I1/I2 over every event h2 may deliver",
        "level_text": "For every function on the client-facing path, 'no exception other than the declared protocol switches escapes' is an obligation discharged for all events, states and await-level interleavings, against assumed contracts of h2/priority/h11/wsproto.",
        "level_note": "Trusted: pyvc encoder; library models (event alphabets, which calls raise); byte-level parsing is the libraries' own. Known findings are excluded by obligation+path and demonstrated natively.",
    },
    "C09": {
        "units": [HP + m for m in ("send_task", "_send_data", "_window_updated", "_priority_updated", "stream_send", "_create_stream")] + [SB + "pop", SB + "complete"],
        "trusted_base": LIB_H2,
        "assumptions": COMMON_ASSUME + ["scheduler fairness for 'as soon as the windows permit'"],
        "explanation": "flow control respected (precondition of send_data), per-stream FIFO, invariants I1/I2 that keep the send task alive",
        "level_text": "len(data) <= windows and frame size is a discharged obligation at the single send_data call site; FIFO and end-once are postconditions of StreamBuffer and _send_data; liveness is reduced to invariants I1/I2 (the send task cannot die) under fairness.",
        "level_note": "Trusted: pyvc encoder; h2 window accounting as modelled; priority scheduling order not modelled; liveness only via safety surrogates.",
    },
    "C08": {
        "units": [SB + m for m in ("__init__", "push", "pop", "drain", "set_complete", "close", "complete")],
        "trusted_base": [],
        "assumptions": COMMON_ASSUME,
        "explanation": "send backpressure: bound and release obligations on StreamBuffer and its users",
        "level_text": "Every obligation (postconditions, class invariant, rely/guarantee, frame, atomicity) generated from the real StreamBuffer/H2Protocol code is discharged by z3 for all inputs, states and await-level interleavings; bound and release clauses are transcribed from the property statement.",
        "level_note": "Trusted: pyvc encoder; Event interface contract; h2/priority behave as their assumed contracts; fairness (promptly) is assumed; byte payloads abstracted to lengths.",
    },
}
