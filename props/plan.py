"""Which functions (units) and stand-ins decide which property.  Obligations of a unit count for
a property when their clause carries that property id or no id at all (supporting obligations)."""

H2 = "hypercorn.protocol.h2:"
SB = H2 + "StreamBuffer."

COMMON_ASSUME = [
    "cooperative scheduling: code between two suspending awaits runs atomically",
    "Event interface contract (hypercorn.typing:Event) is what both EventWrapper classes implement (checked under C16)",
]

PLAN = {
    "C08": {
        "units": [SB + m for m in ("__init__", "push", "pop", "drain", "set_complete", "close", "complete")],
        "trusted_base": [],
        "assumptions": COMMON_ASSUME,
        "explanation": "send backpressure: bound and release obligations on StreamBuffer and its users",
        "level_text": "Every obligation (postconditions, class invariant, rely/guarantee, frame, atomicity) generated from the real StreamBuffer/H2Protocol code is discharged by z3 for all inputs, states and await-level interleavings; bound and release clauses are transcribed from the property statement.",
        "level_note": "Trusted: pyvc encoder; Event interface contract; h2/priority behave as their assumed contracts; fairness (promptly) is assumed; byte payloads abstracted to lengths.",
    },
}
