"""Which functions (units) and stand-ins decide which property.  Obligations of a unit count for
a property when their clause carries that property id or no id at all (supporting obligations)."""

H2 = "hypercorn.protocol.h2:"
SB = H2 + "StreamBuffer."

COMMON_ASSUME = [
    "cooperative scheduling: code between two suspending awaits runs atomically",
    "Event interface contract (hypercorn.typing:Event) is what both EventWrapper classes implement (checked under C16)",
]

HP = H2 + "H2Protocol."
H2_UNITS = [HP + m for m in ("send_task", "_send_data", "handle", "stream_send", "_handle_events", "_flush", "_create_stream", "_window_updated",
                             "_priority_updated", "_close_stream", "_create_server_push", "initiate", "idle")]
LIB_H2 = ["assumed contract M_h2 for h2.connection.H2Connection 4.4.1 (pyvc/models_h2.py): which calls raise which exceptions, window arithmetic, event alphabet and what h2 guarantees about event fields",
          "assumed contract M_prio for priority.PriorityTree 2.0 (pyvc/models_h2.py)"]

HS = "hypercorn.protocol.http_stream:HTTPStream."
UT = "hypercorn.utils:"
LIB_RT = ["interface contracts for Event / TaskGroup / WorkerContext / Logger (contracts/a_runtime.py, b_support.py); both worker implementations are checked against them under C16"]
STREAM_ASSUME = ["app_send is not re-entered by the application (one send at a time per request)", "the application queue is FIFO (delivery order = put order)"]

WSM = "hypercorn.protocol.ws_stream:"
WSU = WSM + "WSStream."
WBU = [WSM + "WebsocketBuffer." + m for m in ("__init__", "extend", "clear", "to_message")]
HKU = [WSM + "Handshake." + m for m in ("__init__", "is_valid", "accept")]
LIB_WS = ["assumed contract M_ws for wsproto 1.3 Connection/events (pyvc/models_ws.py): event alphabet, one type per message, send may raise LocalProtocolError; io.BytesIO/StringIO abstracted to a typed payload buffer; split_comma_header / generate_accept_token / server_extensions_handshake uninterpreted"]

H1P = "hypercorn.protocol.h11:H11Protocol."
H1W = "hypercorn.protocol.h11:H11WSConnection."
PWR = "hypercorn.protocol:ProtocolWrapper."
H11_UNITS = [H1P + m for m in ("__init__", "handle", "_handle_events", "_check_protocol", "_create_stream", "_maybe_recycle", "stream_send")]
LIB_H11 = ["assumed contract M_h11 for h11.Connection 0.16 (pyvc/models_h11.py): which events next_event may return in which client state (a Request only when the client is IDLE, PAUSED until start_next_cycle), which sends are legal in which state, ERROR absorbing; parsing and segmentation independence are h11's"]

PLAN = {
    "C01": {
        "units": [HS + "__init__", HS + "handle", UT + "filter_pseudo_headers", HP + "_create_stream", HP + "_handle_events", H1P + "_create_stream", H1P + "_handle_events", H1P + "handle"],
        "trusted_base": LIB_H2 + LIB_RT,
        "assumptions": COMMON_ASSUME + STREAM_ASSUME + ["h11/h2 events equal the client's message for every segmentation (library contract)", "unquote is an uninterpreted function"],
        "explanation": "request delivery fidelity: field-by-field scope postcondition, one application per request, body chunks forwarded one to one, pseudo-header filtering",
        "level_text": "The scope is proved field by field equal to the Request event for every request; exactly one spawn per valid request; each Body/EndBody event becomes exactly one http.request message with the same bytes.",
        "level_note": "Trusted: pyvc encoder; parsing and segmentation independence are h11/h2's (assumed contracts); queue FIFO.",
    },
    "C02": {
        "units": [UT + "suppress_body", UT + "build_and_validate_headers", HS + "app_send", HP + "stream_send", HP + "_send_data", HP + "_flush", HP + "_window_updated", H1P + "stream_send"] + [SB + m for m in ("push", "pop", "set_complete", "complete")],
        "trusted_base": LIB_H2 + LIB_RT,
        "assumptions": COMMON_ASSUME + STREAM_ASSUME + ["serialisation and framing legality are h11/h2's"],
        "explanation": "response automaton as preconditions of the stream's send callback (one final head, body after head, one end), suppression rule, buffer FIFO",
        "level_text": "Every event a stream emits is checked against the response automaton at the emission point, for all messages and states; suppress_body equals the statement's rule; StreamBuffer is FIFO.",
        "level_note": "Trusted: pyvc encoder, library models; client-side parsing not modelled.",
    },
    "C03": {
        "units": [HS + "handle", HS + "app_send", WSU + "handle", WSU + "app_send", HP + "handle", HP + "_close_stream", HP + "stream_send", H1P + "handle", H1P + "_maybe_recycle"],
        "trusted_base": LIB_H2 + LIB_RT,
        "assumptions": COMMON_ASSUME + STREAM_ASSUME,
        "explanation": "exactly-once disconnect and access record as class invariants stable under the yield rule; nothing is put after the disconnect (callback precondition)",
        "level_text": "g_disc/g_access invariants hold at every await of every method for all interleavings; the application queue receives nothing after the disconnect.",
        "level_note": "Trusted: pyvc encoder; rely/guarantee meta-theory; handle() assumed not re-entered (the re-entrant case is finding F4i).",
    },
    "C05": {
        "units": [HS + "app_send", WSU + "app_send", HP + "stream_send", HP + "_close_stream", H1P + "_maybe_recycle", H1P + "stream_send"],
        "trusted_base": LIB_H2 + LIB_RT,
        "assumptions": COMMON_ASSUME + STREAM_ASSUME,
        "explanation": "application failure: app_send(None) emits 500+end when nothing was started and StreamClosed without EndBody otherwise",
        "level_text": "Postconditions of app_send(None) for every state; no EndBody is emitted for an incomplete response.",
        "level_note": "Trusted: pyvc encoder, library models. What the protocol does with StreamClosed on HTTP/2 (no RST_STREAM, finding F5) is demonstrated natively.",
    },
    "C10": {
        "units": WBU + [WSU + "handle", WSU + "app_send"],
        "trusted_base": LIB_WS + LIB_RT,
        "assumptions": COMMON_ASSUME + STREAM_ASSUME + ["fragmentation, compression and UTF-8 validation are wsproto's"],
        "explanation": "WebsocketBuffer arithmetic (size = units written, raises iff over the limit, bytes xor text), delivery loop (finished message -> one put, buffer cleared), nothing delivered after an over-limit message, send mapping",
        "level_text": "Size accounting and the limit are linear-arithmetic postconditions proved for all sizes; the invariant 'buffer holds exactly the message in progress' is proved across every await of the receive loop.",
        "level_note": "Trusted: pyvc encoder; wsproto event model; payloads abstracted to lengths.",
    },
    "C11": {
        "units": HKU + [WSU + "handle", WSU + "app_send", WSU + "idle"],
        "trusted_base": LIB_WS + LIB_RT,
        "assumptions": COMMON_ASSUME + STREAM_ASSUME + ["H11Protocol creates a WSStream for HTTP/1.1 only when the request carries an Upgrade header (precondition ws.handle.pre.h1-upgrade)", "Handshake.__init__ sets upgrade when such a header exists (assumed one-line postcondition)"],
        "explanation": "is_valid equals the RFC 6455 conditions of the statement; invalid -> 400 and no application; first put is websocket.connect; accept/close/response mapping; disconnect code",
        "level_text": "Handshake.is_valid is proved equal to the statement's condition for all header values (token/case functions uninterpreted); lifecycle mapping as postconditions of handle/app_send for every state.",
        "level_note": "Trusted: pyvc encoder, wsproto helpers uninterpreted; the string-level meaning of split/lower is not interpreted.",
    },
    "C12": {
        "units": [HS + "app_send", WSU + "app_send", UT + "build_and_validate_headers"] + HKU[2:],
        "trusted_base": LIB_RT,
        "assumptions": COMMON_ASSUME + STREAM_ASSUME,
        "explanation": "rejection table: a call that returns normally was valid for its state; an exception raised into the application leaves nothing emitted; header validation",
        "level_text": "For every (state, message) pair the call either is valid or raises before emitting anything; validated headers never contain CR/LF/NUL (loop invariant).",
        "level_note": "Trusted: pyvc encoder; Any-typed application values follow CPython's conversion table as encoded in pyvc/calls.py.",
    },
    "C04": {
        "units": H2_UNITS + [HS + "handle", WSU + "handle"] + WBU[1:2] + H11_UNITS + [PWR + "handle"],
        "trusted_base": LIB_H2,
        "assumptions": COMMON_ASSUME + ["byte-level parsing of HTTP/2 frames is h2's; inputs range over everything the assumed h2 contract may return"],
        "explanation": "no client input causes an internal error: generated run-time-exception obligations (no undeclared exception escapes) and class invariants I1/I2 over every event h2 may deliver",
        "level_text": "For every function on the client-facing path, 'no exception other than the declared protocol switches escapes' is an obligation discharged for all events, states and await-level interleavings, against assumed contracts of h2/priority/h11/wsproto.",
        "level_note": "Trusted: pyvc encoder; library models (event alphabets, which calls raise); byte-level parsing is the libraries' own. Known findings are excluded by obligation+path and demonstrated natively.",
    },
    "C09": {
        "units": [HP + m for m in ("send_task", "_send_data", "_window_updated", "_priority_updated", "stream_send", "_create_stream", "_handle_events")] + [SB + "pop", SB + "complete"],
        "trusted_base": LIB_H2,
        "assumptions": COMMON_ASSUME + ["scheduler fairness for 'as soon as the windows permit'"],
        "explanation": "flow control respected (precondition of send_data), per-stream FIFO, invariants I1/I2 that keep the send task alive",
        "level_text": "len(data) <= windows and frame size is a discharged obligation at the single send_data call site; FIFO and end-once are postconditions of StreamBuffer and _send_data; liveness is reduced to invariants I1/I2 (the send task cannot die) under fairness.",
        "level_note": "Trusted: pyvc encoder; h2 window accounting as modelled; priority scheduling order not modelled; liveness only via safety surrogates.",
    },
    "C06": {
        "units": H11_UNITS,
        "trusted_base": LIB_H11 + LIB_RT,
        "assumptions": COMMON_ASSUME + STREAM_ASSUME + ["h11 adds connection: close itself for HTTP/1.0 / Connection: close requests (library behaviour)"],
        "explanation": "HTTP/1.x keep-alive and pipelining: invariant 'client IDLE => no stream attached' stable across every await (so the next application starts only after the previous stream was detached), recycle only when both sides are DONE and shutdown has not begun, request counted exactly once",
        "level_text": "C06.serial is a class invariant of H11Protocol proved at every await of every method under the assumed h11 state machine; recycle/close and the request counter are postconditions proved for all states.",
        "level_note": "Trusted: pyvc encoder; M_h11; that bytes of request n+1 are not emitted before start_next_cycle is h11's behaviour.",
    },
    "C13": {
        "units": [PWR + "__init__", PWR + "initiate", PWR + "handle", H1P + "_check_protocol", H1P + "_create_stream", H1P + "handle", H1P + "_handle_events", HP + "initiate", H1W + "receive_data", H1W + "next_event"],
        "trusted_base": LIB_H11 + LIB_H2 + LIB_RT,
        "assumptions": COMMON_ASSUME + ["segmentation independence of h11 (library)", "trailing_data is exactly what h11 has not consumed (library)"],
        "explanation": "protocol selection: ALPN h2 <=> H2Protocol; a request is handed to a WebSocket stream iff it is a GET with Upgrade: websocket and a Connection token upgrade (stated with the recursive spec function last_hdr over the header list); the HTTP/2 preface is never missed by _check_protocol; after a switch the wrapper holds an H2Protocol; WebSocket pass-through loses or duplicates no byte (ghost fed/delivered invariant)",
        "level_text": "Selection and hand-over are postconditions of ProtocolWrapper.__init__/handle and _check_protocol for all requests; the pass-through buffer satisfies cat(delivered, buffer) == fed as a class invariant.",
        "level_note": "Trusted: pyvc encoder, M_h11/M_h2. The h2c path itself is broken on the pinned tree (findings F13, F13b, F13c), demonstrated natively.",
    },
    "C18": {
        "units": [H1P + "__init__", HP + "__init__", "hypercorn.asyncio.worker_context:WorkerContext.mark_request", "hypercorn.trio.worker_context:WorkerContext.mark_request",
                  H1P + "stream_send", H1P + "_create_stream", HP + "_handle_events", HP + "_create_stream"],
        "trusted_base": LIB_H11 + LIB_H2 + LIB_RT,
        "assumptions": COMMON_ASSUME + ["enforcement of h11_max_incomplete_size, h2_max_concurrent_streams and h2_max_header_list_size themselves is h11's / h2's: the obligations are that hypercorn hands the configured values over"],
        "explanation": "configured limits reach the libraries (constructor postconditions), connection: close exactly when keep_alive_max_requests is reached (h11), GOAWAY when exceeded (h2), requests counted once, mark_request arithmetic on both workers",
        "level_text": "Integer postconditions on the counters and constructor data-flow postconditions, proved for all values of the limits.",
        "level_note": "Trusted: pyvc encoder; M_h11/M_h2; the limits' enforcement inside h11/h2.",
    },
    "C20": {
        "units": ["hypercorn.middleware.proxy_fix:_get_trusted_value", "hypercorn.middleware.proxy_fix:ProxyFixMiddleware.__call__",
                  "hypercorn.middleware.dispatcher:_DispatcherMiddleware.__call__",
                  "hypercorn.middleware.http_to_https:HTTPToHTTPSRedirectMiddleware._new_url", "hypercorn.middleware.http_to_https:HTTPToHTTPSRedirectMiddleware.__call__",
                  "hypercorn.middleware.http_to_https:HTTPToHTTPSRedirectMiddleware._send_websocket_redirect"],
        "trusted_base": ["abstract callables for the wrapped application / send / receive (pyvc:Callable)", "DispatcherMiddleware.mounts modelled as an insertion ordered sequence of prefixes of any length (pyvc:Mounts)"],
        "assumptions": ["urllib.parse.urlunsplit, str.split, strip and lower are uninterpreted functions", "raw_path and query_string are ASCII (ASGI percent-encoding)",
                        "lifespan fan-out of DispatcherMiddleware: the counting rule (send(): a completion is forwarded exactly when, with the mount's own mark, every flag of the table is set) is under contract for both classes; _handle_lifespan (a task and a queue per mount, the tables initialised for every mount, every lifespan message handed to every mount) is decided by the bounded stand-in standins/dispatcher_lifespan.py only",
                        "all(table.values()) over a str -> bool table of any size is the uninterpreted predicate all_flags_true(has, val), pinned down by instances of its definition at the keys in play and at a witness of its negation (pyvc/models.py flags_all)"],
        "explanation": "proxy fix: trusted value is counted from the right end, zero hops / too few values leave the scope untouched, the caller's scope is never written; dispatcher: first matching mount in dict order with the prefix stripped and never empty, else 404 (loop invariant over the mount sequence); redirect: 307 to the same host/path/query, secure requests passed through with identical arguments",
        "level_text": "Postconditions and loop invariants proved for all header lists, hop counts, mount tables of any size and request paths.",
        "level_note": "Trusted: pyvc encoder; string helper functions uninterpreted; of the lifespan fan-out only the counting rule of send() is proved, _handle_lifespan is a bounded stand-in; 'modern' mode falling back to X-Forwarded-* when no Forwarded header is usable is an observation, not claimed either way.",
    },
    "C19": {
        "units": ["hypercorn.__main__:main", "hypercorn.__main__:_load_config", "hypercorn.config:Config.response_headers", "hypercorn.config:Config.bind.setter", "hypercorn.config:Config.insecure_bind.setter",
                  "hypercorn.config:Config.quic_bind.setter", "hypercorn.config:Config.root_path.setter"],
        "standins": [{"file": "standins/binds.py", "name": "bind string parsing (Config._create_sockets)", "label": "BOUNDED stand-in, not counted as proved"}],
        "trusted_base": ["argparse: the real parser object is built natively by main(); parse_args() is replaced by a namespace in which every option is either absent (its default) or given with an arbitrary value of its type",
                         "the option table of docs/how_to_guides/configuring.rst as oracle for which flag configures which setting"],
        "assumptions": ["the loaders (from_mapping / from_object / from_pyfile / from_toml: setattr over arbitrary keys, dir(), importlib, tomllib) are not under contract: that every source gives the same configuration is decided by the bounded stand-in standins/loaders.py only; what is proved about them is the route and the exact name _load_config hands over",
                        "deprecated aliases not in the documentation table (--access-log, --error-log, --cert-reqs) are assumed absent",
                        "format_date_time returns a well-formed RFC 7231 date"],
        "explanation": "command line: one obligation per configuration setting -- after main() the setting equals the flag's value if its flag was given and the loaded configuration's value otherwise -- proved for all 2^35 combinations of flags and all values; setters; response headers; bind strings by bounded enumeration",
        "level_text": "54 per-setting postconditions of main() proved for every combination of options (conditional assignments are merged, not enumerated); response_headers and the property setters proved for all inputs. Bind-string parsing is a labelled bounded stand-in.",
        "level_note": "Trusted: pyvc encoder; argparse semantics for parsing itself; docs table as oracle. Bounded (not proof): bind strings; agreement of the configuration loaders (mapping / keyword / object / module / Python file / TOML).",
    },
    "C08": {
        "units": [SB + m for m in ("__init__", "push", "pop", "drain", "set_complete", "close", "complete")] + [HP + m for m in ("_window_updated", "_send_data", "stream_send", "handle", "send_task")],
        "trusted_base": LIB_H2,
        "assumptions": COMMON_ASSUME,
        "explanation": "send backpressure: bound and release obligations on StreamBuffer and its users",
        "level_text": "Every obligation (postconditions, class invariant, rely/guarantee, frame, atomicity) generated from the real StreamBuffer/H2Protocol code is discharged by z3 for all inputs, states and await-level interleavings; bound and release clauses are transcribed from the property statement.",
        "level_note": "Trusted: pyvc encoder; Event interface contract; h2/priority behave as their assumed contracts; fairness (promptly) is assumed; byte payloads abstracted to lengths.",
    },
}

AW, TW = "hypercorn.asyncio.worker_context:", "hypercorn.trio.worker_context:"
ATG, TTG = "hypercorn.asyncio.task_group:", "hypercorn.trio.task_group:"
ATS, TTS = "hypercorn.asyncio.tcp_server:TCPServer.", "hypercorn.trio.tcp_server:TCPServer."
EVENT_UNITS = [w + "EventWrapper." + m for w in (AW, TW) for m in ("__init__", "set", "clear", "is_set", "wait")]
SINGLE_UNITS = [AW + "AsyncioSingleTask." + m for m in ("__init__", "restart", "stop")] + [TW + "TrioSingleTask." + m for m in ("__init__", "restart", "stop")]
SERVER_UNITS = [s_ + m for s_ in (ATS, TTS) for m in ("run", "protocol_send", "_read_data", "_close", "_initiate_server_close", "_idle_timeout")]
LIB_IO = ["assumed contracts for asyncio.StreamReader/StreamWriter, sockets, trio streams (pyvc/models_io.py) and for asyncio/trio events, locks, task groups, nurseries, cancel scopes, wait_for / move_on_after / fail_after with a ghost clock (pyvc/models_rt.py)",
          "the protocol seen by the servers is the port contract pyvc:ProtocolPort (contracts/i_servers.py); ProtocolWrapper itself is verified against the protocol ports in d_h11_protocol.py"]
RT_ASSUME = ["cancellation of a task from outside is not modelled except where the code asks for it (SingleTask cancel, timeouts)",
             "run() is entered once per TCPServer object (it is only reached through __await__)",
             "a task group is used only by tasks running inside its async-with block (rely on the trio TaskGroup contract)",
             "trio.serve_listeners closes the stream when the handler returns (used for the TLS-handshake-failed exit of the trio run())"]

PLAN["C16"] = {
    "units": EVENT_UNITS + [AW + "WorkerContext.mark_request", TW + "WorkerContext.mark_request", AW + "WorkerContext.__init__", TW + "WorkerContext.__init__",
                            ATG + "_handle", TTG + "_handle", ATG + "TaskGroup.spawn_app", TTG + "TaskGroup.spawn_app"] + SINGLE_UNITS + SERVER_UNITS,
    "trusted_base": LIB_IO + LIB_RT,
    "assumptions": COMMON_ASSUME + RT_ASSUME + ["worker independence is decided as refinement: both implementations of every runtime-facing class are proved against the same interface clauses (the clause texts are shared in the contract files); trace equality of two schedulers on the same timing is not expressed"],
    "explanation": "the asyncio and the trio implementation of Event, SingleTask, TaskGroup._handle/spawn_app, WorkerContext and TCPServer satisfy the same interface clauses: exactly the event's bytes are written once, a failed write tells the protocol, idle reports arm/disarm the timer, what is read is forwarded unchanged and in order, EOF is reported to the protocol, Closed is handed last, the transport is closed on every exit, the protocol gets a copy of the lifespan state",
    "level_text": "Every C16 clause is a postcondition / loop clause proved for both classes over all event values, read results and transport failures (exceptions of the transport models), with the protocol abstracted by its port contract.",
    "level_note": "Trusted: pyvc encoder, runtime and transport models (models_rt.py, models_io.py). Refinement of one interface by two implementations, not a relational proof over two schedules. Finding F16a (asyncio does not report an EOF seen through at_eof()) is demonstrated natively.",
}
PLAN["C07"] = {
    "units": SINGLE_UNITS + SERVER_UNITS + [H1P + "_handle_events", H1P + "_maybe_recycle", H1P + "handle", HP + "_handle_events", HP + "stream_send", HP + "idle",
                                            WSU + "idle", HS + "idle", HS + "handle", WSU + "handle"],
    "trusted_base": LIB_IO + LIB_H11 + LIB_H2 + LIB_RT,
    "assumptions": COMMON_ASSUME + RT_ASSUME + ["time is a ghost clock that advances only at suspensions; wait_for / move_on_after fire at exactly their deadline (scheduling slack 0)",
                                                "liveness (that a suspended task is eventually resumed) is not expressed"],
    "explanation": "timer: started at t0 the idle task makes the server close at min(shutdown, t0 + keep_alive_timeout), never later, earlier only on shutdown (ghost clock); at most one timer task per connection (lock-protected monitor invariant of both SingleTask classes); Updated(idle) arms, Updated(busy) disarms; the timer is armed after initiate and before the first read; HTTP/1 reports busy at each request head and idle only after a successful recycle; HTTP/2 reports idle exactly when no stream is open or all are idle; a failed write, EOF or timeout tells the protocol Closed and closes the transport; run() closes the transport on every exit",
    "level_text": "Postconditions with a ghost clock, a monitor invariant and call-order clauses proved for every path (all transport failures, all event values); the protocol-side idle reporting is part of the H11/H2 protocol contracts.",
    "level_note": "Trusted: pyvc encoder, runtime/transport models, M_h11/M_h2. Findings F7a (error responses leave the stream attached) and F7d (nothing stops the keep-alive timer before the connection's task group is joined) are demonstrated natively. Liveness not expressed.",
}

AL, TL = "hypercorn.asyncio.lifespan:Lifespan.", "hypercorn.trio.lifespan:Lifespan."
LIFESPAN_UNITS = [l + m for l in (AL, TL) for m in ("__init__", "asgi_send", "wait_for_startup", "wait_for_shutdown", "handle_lifespan")]
SERVE_UNITS = ["hypercorn.asyncio.run:worker_serve", "hypercorn.trio.run:worker_serve"]
LIB_SERVE = ["assumed contracts for listening sockets, asyncio.start_server / Server (wait_closed waits for the accepted connections: CPython 3.12), asyncio.gather, trio listeners, nursery scopes with deadlines, random.randint, platform.system() != 'Windows' (pyvc/models_serve.py)",
             "exception groups: split()/subgroup() answered from per-type-set flags 'has a match' / 'has something else' (pyvc/models_rt.py)"]
SERVE_ASSUME = ["QUIC sockets are absent (Sockets.quic_sockets == ()); the signal-handler installation branch of the asyncio worker_serve (shutdown_trigger is None) is outside the contract",
                "children of the serving task groups do not fail on their own (their failures are obligations of their own units)",
                "'nothing is accepted before startup' is decided as: every call that makes a socket listen / accept (socket.listen, trio listeners, serve_listeners, asyncio.start_server) is made after wait_for_startup() returned normally",
                "the application's lifespan task runs concurrently; what it does to the Lifespan object is the rely of that class"]

PLAN["C14"] = {
    "units": LIFESPAN_UNITS + SERVE_UNITS + [ATS + "run", TTS + "run"],
    "trusted_base": LIB_IO + LIB_SERVE + LIB_RT,
    "assumptions": COMMON_ASSUME + RT_ASSUME + SERVE_ASSUME,
    "explanation": "asgi_send maps completion messages to the matching event and failures to LifespanFailureError, unknown types raise; wait_for_startup/shutdown ask the application exactly once (not at all when lifespan is unsupported), return only once the phase's event is set, and time out no earlier than the configured timeout (ghost clock); handle_lifespan releases both events on every exit, never swallows a reported failure (alone or inside an exception group) and withdraws support on any other error; worker_serve makes sockets listen / accept only after wait_for_startup returned normally (obligation attached to every such call), calls wait_for_shutdown exactly once and only after shutdown was announced; TCPServer.run hands each connection a copy of the lifespan state",
    "level_text": "Postconditions (normal and exceptional) of the five Lifespan methods of both workers, call-site obligations and loop invariants in both worker_serve functions, proved for all messages, exception outcomes of the application, socket lists of any length and timeouts.",
    "level_note": "Trusted: pyvc encoder, runtime / serve models. Not expressed: that the asyncio worker notices a startup failure whose task has not finished yet when wait_for_startup returns (lifespan_task.done() race, observed natively by a seeding agent, not claimed either way).",
}
PLAN["C15"] = {
    "units": SERVE_UNITS + [ATS + "_idle_timeout", TTS + "_idle_timeout", H1P + "_maybe_recycle", HP + "_handle_events", AW + "WorkerContext.mark_request", TW + "WorkerContext.mark_request",
                            AL + "wait_for_shutdown", TL + "wait_for_shutdown"],
    "trusted_base": LIB_IO + LIB_SERVE + LIB_H11 + LIB_H2 + LIB_RT,
    "assumptions": COMMON_ASSUME + RT_ASSUME + SERVE_ASSUME + ["time is a ghost clock advancing at suspensions; scheduling slack is 0"],
    "explanation": "worker_serve: shutdown is announced (terminated set, a never-cleared event) before lifespan.shutdown is sent, which happens exactly once; from the announcement the server tasks get at most graceful_timeout (ghost clock; finding F15 on asyncio); idle connections close at once when terminated is set (C07.timer.* with the terminated event); HTTP/1 connections are not recycled once terminated (C06.recycle.only-when-done); HTTP/2 refuses new streams and lowers MAX_CONCURRENT_STREAMS when terminating; max_requests sets terminate",
    "level_text": "Call-site obligations, ghost-clock postconditions and protocol postconditions proved for all socket lists, timeouts and exception-group outcomes.",
    "level_note": "Trusted: pyvc encoder, runtime / serve models, M_h11/M_h2. Finding F15 (asyncio: Server.wait_closed() waits for open connections before the grace period starts) demonstrated natively. 'A request that completes within the grace period is delivered in full' is not expressed as such (it follows from nothing being cancelled before the deadline in the model).",
}

PLAN["C18"]["units"] = PLAN["C18"]["units"] + SERVE_UNITS + [AW + "WorkerContext.__init__", TW + "WorkerContext.__init__"]
PLAN["C18"]["trusted_base"] = PLAN["C18"]["trusted_base"] + LIB_SERVE
PLAN["C18"]["explanation"] += "; worker_serve gives the worker a request budget of max_requests + randint(0, max_requests_jitter) (C18.jitter: between max_requests and max_requests + max_requests_jitter, None iff max_requests is None)"

WW = "hypercorn.app_wrappers:WSGIWrapper."
PLAN["C17"] = {
    "units": [WW + "__call__", WW + "handle_http", WW + "run_app", "hypercorn.app_wrappers:_build_environ",
              "hypercorn.middleware.wsgi:AsyncioWSGIMiddleware.__call__", "hypercorn.middleware.wsgi:TrioWSGIMiddleware.__call__",
              ATG + "TaskGroup.spawn_app", TTG + "TaskGroup.spawn_app", ATG + "_handle", TTG + "_handle"],
    "trusted_base": ["assumed contract for a PEP 3333 application (pyvc/models_wsgi.py): it calls start_response eagerly, lazily (when its result is first iterated) or never; its result is an iterable of byte strings with or without close()",
                     "assumed contract for asyncio.run_coroutine_threadsafe / Future.result (result() blocks until the coroutine has run on the loop); trio.to_thread.run_sync / trio.from_thread.run are trusted as documented",
                     "dicts with keys computed at run time: association-list semantics over z3 strings (pyvc/heap.py); '%s' formatting of one string is concatenation; str.replace is an uninterpreted function of its arguments"] + LIB_RT,
    "assumptions": COMMON_ASSUME + ["root_path, path and query_string are ASCII (the utf-8 -> latin-1 transcoding of PEP 3333 is the identity there, uninterpreted otherwise)",
                                    "the receive callable delivers http.request messages as the server builds them (body: bytes, more_body: bool)",
                                    "'HTTP_* variables with repeated headers comma-joined' is proved as the per-header step (set, or append ',' + value when present); the fold over the whole header list is its induction, not stated as one clause",
                                    "'off the event loop' is decided as: the application is only reachable through run_app, and run_app is only handed to sync_spawn"],
    "explanation": "WSGIWrapper: websocket scopes are refused, http scopes handled, lifespan ignored; handle_http answers 400 without spawning anything when the body exceeds wsgi_max_body_size, otherwise spawns run_app exactly once (through sync_spawn, with the environ built from the request) and ends the response with one empty final body; run_app calls the application once, sends exactly one http.response.start (status and lower-cased latin-1 headers of start_response) with the first chunk -- also when start_response is only called during iteration --, one body message per chunk unchanged and in order, gives up with RuntimeError only for an application that never calls start_response, and closes the iterable exactly once on every path; _build_environ: request-line variables, PATH_INFO/SCRIPT_NAME split by root_path (never empty), wsgi.input holds exactly the body, per-header comma-join step; the thread-to-loop bridges wait for the send to complete",
    "level_text": "Postconditions, loop clauses and exceptional postconditions proved for all messages, bodies, header lists, application start modes and chunk sequences.",
    "level_note": "Trusted: pyvc encoder, WSGI application model, bridge model. The defect found by these obligations (lazily starting applications failed and were not closed) is fixed in /repo (8c281e3).",
}

# Round-5 seeded changes: units that the statements reach and the plans had left out.
# C03 "transport write failure at any write": a failed write must tell the protocol (both servers)
PLAN["C03"]["units"] = PLAN["C03"]["units"] + [ATS + "protocol_send", TTS + "protocol_send"]
PLAN["C03"]["trusted_base"] = PLAN["C03"]["trusted_base"] + LIB_IO
PLAN["C03"]["explanation"] += "; a write that fails in either server's protocol_send hands Closed to the protocol (so the disconnect is delivered whatever the reader is waiting on)"
# C12 / C02: nothing is appended to an HTTP/2 send buffer once the end of the body was requested
PLAN["C12"]["units"] = PLAN["C12"]["units"] + [SB + "push", SB + "set_complete"]
PLAN["C12"]["explanation"] += "; on HTTP/2 a body that arrives after the end of the response was requested is not buffered (StreamBuffer.push)"
# C05: END_STREAM only for streams whose layer asked for it; closed buffers do not stay registered
PLAN["C05"]["units"] = PLAN["C05"]["units"] + [HP + "_send_data", SB + "set_complete", SB + "close", SB + "__init__"]
PLAN["C05"]["explanation"] += "; HTTP/2: a finished stream layer leaves the h2 stream ended, reset or with its end requested (C05.h2.reset, finding F5), END_STREAM is only sent where the end was requested (C05.h2.no-false-end) and a buffer sealed by close() never stays registered (published invariant of StreamBuffer)"
PLAN["C01"]["units"] = PLAN["C01"]["units"] + [HP + "handle"]
# C20 "fans lifespan out so that startup/shutdown complete only when every mount has completed":
# outside the VC generator (dict comprehensions over the mount table, a task and a queue per mount),
# decided by a bounded native enumeration, labelled as such
PLAN["C20"]["standins"] = PLAN["C20"].get("standins", []) + [{"file": "standins/dispatcher_lifespan.py", "name": "lifespan fan-out of DispatcherMiddleware: _handle_lifespan of both classes (the counting rule of send() is under contract)",
                                                               "label": "BOUNDED stand-in, not counted as proved"}]
# C06 "announces close on the response and closes after it": the transport is closed when the
# protocol says Closed (both servers)
PLAN["C06"]["units"] = PLAN["C06"]["units"] + [ATS + "protocol_send", TTS + "protocol_send", ATS + "_close", TTS + "_close"]
PLAN["C06"]["trusted_base"] = PLAN["C06"]["trusted_base"] + LIB_IO
# C15 "idle keep-alive connections are closed": a connection that becomes idle after the trigger
# still gets its idle timer (which fires at once when shutdown has begun)
PLAN["C15"]["units"] = PLAN["C15"]["units"] + [ATS + "protocol_send", TTS + "protocol_send"]
PLAN["C13"]["units"] = PLAN["C13"]["units"] + ["hypercorn.protocol.h11:H11WSConnection.__init__"]
# C08 "its transport is paused": the asyncio server waits for the transport after every write
PLAN["C08"]["units"] = PLAN["C08"]["units"] + [ATS + "protocol_send", TTS + "protocol_send"]
PLAN["C08"]["trusted_base"] = PLAN["C08"]["trusted_base"] + LIB_IO
PLAN["C01"]["units"] = PLAN["C01"]["units"] + [UT + "valid_server_name"]
# C11 "an upgrade is attempted only for ... HTTP/1.1 GET with Upgrade: websocket, Connection: upgrade":
# the choice between the two stream classes is made in H11Protocol._create_stream
PLAN["C11"]["units"] = PLAN["C11"]["units"] + [H1P + "_create_stream"]
PLAN["C11"]["trusted_base"] = PLAN["C11"]["trusted_base"] + LIB_H11
# C13 "TLS ALPN h2 ... select HTTP/2": the servers hand the wrapper what TLS negotiated
PLAN["C13"]["units"] = PLAN["C13"]["units"] + [ATS + "run", TTS + "run"]
PLAN["C13"]["trusted_base"] = PLAN["C13"]["trusted_base"] + LIB_IO
# C08 "the stream is reset ... every waiting send returns": the StreamReset arm of _handle_events
PLAN["C08"]["units"] = PLAN["C08"]["units"] + [HP + "_handle_events"]
# C10 "compressed or not": the extension object a connection gets is made in Handshake.accept
PLAN["C10"]["units"] = PLAN["C10"]["units"] + [WSM + "Handshake.accept"]
PLAN["C19"]["units"] = PLAN["C19"]["units"] + ["hypercorn.config:Config._set_quic_addresses"]
PLAN["C01"]["units"] = PLAN["C01"]["units"] + [UT + "parse_socket_addr"]
# C02 "followed only by the server's own date/server/alt-svc/connection headers": what
# Config.response_headers returns (and that it keeps no state between calls: frame obligation)
PLAN["C02"]["units"] = PLAN["C02"]["units"] + ["hypercorn.config:Config.response_headers"]
# C07 "the connection's handler finishes ... as soon as its applications return": an application
# that returns always makes its stream report StreamClosed (unless it is closed already)
PLAN["C07"]["units"] = PLAN["C07"]["units"] + [HS + "app_send"]

# Session-3 audit of the anchors of every property against its plan: units that the anchors name,
# that are under contract, and that the plan of that property had left out (their obligations
# were judged only by other properties' checks)
# C01 "exactly one application instance is started" / "per-instance receive queue": both spawn_app
PLAN["C01"]["units"] = PLAN["C01"]["units"] + [ATG + "TaskGroup.spawn_app", TTG + "TaskGroup.spawn_app"]
# C02 "serialise through h2 under flow control": the send task and the rest of StreamBuffer
PLAN["C02"]["units"] = PLAN["C02"]["units"] + [HP + "send_task", SB + "__init__", SB + "close", SB + "drain"]
# C05 "_handle wraps the app, logs, and always signals completion with send(None)"
PLAN["C05"]["units"] = PLAN["C05"]["units"] + [ATG + "_handle", TTG + "_handle"]
PLAN["C09"]["units"] = PLAN["C09"]["units"] + [HP + "_flush"]
# C10 "H11WSConnection passes bytes through after the upgrade"
PLAN["C10"]["units"] = PLAN["C10"]["units"] + [H1W + "receive_data", H1W + "next_event"]
PLAN["C10"]["trusted_base"] = PLAN["C10"]["trusted_base"] + LIB_H11
# C12 "HTTP/2 relies on the h2 library's outbound validation": what H2Protocol.stream_send hands to h2
PLAN["C12"]["units"] = PLAN["C12"]["units"] + [HP + "stream_send"]
PLAN["C12"]["trusted_base"] = PLAN["C12"]["trusted_base"] + LIB_H2
# C15 "H2 ... sends GOAWAY once idle after termination", "idle timer fires immediately on terminated"
PLAN["C15"]["units"] = PLAN["C15"]["units"] + [HP + "stream_send", ATS + "_initiate_server_close", TTS + "_initiate_server_close"]
# the watcher both workers start on the trigger and on the worker's own terminate event
PLAN["C15"]["units"] = PLAN["C15"]["units"] + [UT + "raise_shutdown"]
PLAN["C18"]["units"] = PLAN["C18"]["units"] + [UT + "raise_shutdown"]
# C04 "the connection handler terminates or keeps serving without an unhandled exception": the
# connection handler is TCPServer.run and what it calls, on both workers
PLAN["C04"]["units"] = PLAN["C04"]["units"] + SERVER_UNITS
PLAN["C04"]["trusted_base"] = PLAN["C04"]["trusted_base"] + LIB_IO
# C01 "for every way the request bytes are split across network reads": the stream that is attached
# while a request is being read is the one its body events go to (C06.serial across _maybe_recycle)
PLAN["C01"]["units"] = PLAN["C01"]["units"] + [H1P + "_maybe_recycle"]
PLAN["C01"]["trusted_base"] = PLAN["C01"]["trusted_base"] + LIB_H11
# C05 "the connection's other streams ... keep working": data that arrives for a stream whose
# application has failed is still acknowledged, or the connection's receive window runs dry
PLAN["C05"]["units"] = PLAN["C05"]["units"] + [HP + "_handle_events"]
# C19 "a setting has the same effect whichever way it is supplied": the loaders' bodies are outside
# the VC generator; a bounded native enumeration compares every source, labelled as such
PLAN["C19"]["standins"] = PLAN["C19"]["standins"] + [{"file": "standins/loaders.py", "name": "configuration loaders (Config.from_mapping / from_object / from_pyfile / from_toml, _load_config routes)",
                                                      "label": "BOUNDED stand-in, not counted as proved"}]
# C11 "HTTP/2 extended CONNECT with version 13": the choice of the stream class on HTTP/2
PLAN["C11"]["units"] = PLAN["C11"]["units"] + [HP + "_create_stream"]
PLAN["C11"]["trusted_base"] = PLAN["C11"]["trusted_base"] + LIB_H2
# the constructor of WSStream: base case of the class invariants, the configured message-size limit
for _p in ("C10", "C11", "C03"):
    PLAN[_p]["units"] = PLAN[_p]["units"] + [WSU + "__init__"]
PLAN["C03"]["units"] = PLAN["C03"]["units"] + [HS + "__init__"]
# constructors of the two servers and the rest of the two TaskGroup classes (C16 same interface;
# C07 one timer per connection / leaving the group joins its tasks; C08 a send lock per connection;
# C14 the lifespan state a connection copies is the one the worker handed over)
_TG_REST = [tg + "TaskGroup." + m for tg in (ATG, TTG) for m in ("__init__", "spawn", "__aenter__", "__aexit__")]
_SRV_INIT = [ATS + "__init__", TTS + "__init__"]
PLAN["C16"]["units"] = PLAN["C16"]["units"] + _TG_REST + _SRV_INIT
PLAN["C07"]["units"] = PLAN["C07"]["units"] + [u for u in _TG_REST if u.endswith(("spawn", "__aexit__"))] + _SRV_INIT
PLAN["C08"]["units"] = PLAN["C08"]["units"] + _SRV_INIT
PLAN["C14"]["units"] = PLAN["C14"]["units"] + _SRV_INIT
# C15 "lets requests already in progress finish": a keep-alive timer that survives into a request
# closes the connection under it at shutdown -- the one-live-timer discipline of both SingleTask classes
PLAN["C15"]["units"] = PLAN["C15"]["units"] + SINGLE_UNITS
# C02 "reach the client as one well-formed response": the send task that writes every response of the
# connection survives only while the priority-tree / buffer-table invariants I1, I2 hold
PLAN["C02"]["units"] = PLAN["C02"]["units"] + [HP + "_priority_updated", HP + "_create_stream"]
# C06 "an aborted ... message: closes ... without processing further requests": an application that
# ends mid-response does not get its response completed for it
PLAN["C06"]["units"] = PLAN["C06"]["units"] + [HS + "app_send"]
PLAN["C20"]["units"] = PLAN["C20"]["units"] + ["hypercorn.middleware.proxy_fix:ProxyFixMiddleware.__init__", "hypercorn.middleware.dispatcher:_DispatcherMiddleware.__init__",
                                               "hypercorn.middleware.http_to_https:HTTPToHTTPSRedirectMiddleware.__init__"]
# C20 "startup/shutdown complete only when every mount has completed": the counting rule of both send()
PLAN["C20"]["units"] = PLAN["C20"]["units"] + ["hypercorn.middleware.dispatcher:AsyncioDispatcherMiddleware.send", "hypercorn.middleware.dispatcher:TrioDispatcherMiddleware.send"]
# entry points and wrappers: the application gets the wrapper with the configured WSGI body limit,
# the worker gets the caller's configuration and trigger; the worker-process trigger polls the
# master's shutdown event
_ENTRY = ["hypercorn.asyncio:serve", "hypercorn.trio:serve", UT + "wrap_app"]
PLAN["C17"]["units"] = PLAN["C17"]["units"] + _ENTRY + ["hypercorn.app_wrappers:ASGIWrapper.__call__", "hypercorn.app_wrappers:ASGIWrapper.__init__", WW + "__init__"]
PLAN["C15"]["units"] = PLAN["C15"]["units"] + _ENTRY[:2] + [UT + "check_multiprocess_shutdown_event"]
PLAN["C15"]["trusted_base"] = PLAN["C15"]["trusted_base"]
PLAN["C01"]["units"] = PLAN["C01"]["units"] + ["hypercorn.app_wrappers:ASGIWrapper.__call__"]
PLAN["C05"]["units"] = PLAN["C05"]["units"] + ["hypercorn.app_wrappers:ASGIWrapper.__call__"]
# C17 "script name and path split by root_path": the split assumes a normalised root_path (every source)
PLAN["C17"]["standins"] = PLAN["C17"].get("standins", []) + [{"file": "standins/root_path.py", "name": "root_path read back from every configuration source has no trailing slash",
                                                               "label": "BOUNDED stand-in, not counted as proved"}]
# C01 "for every way the request bytes are split across network reads": what HTTP/2 is fed after a
# cleartext switch is everything h11 had buffered (C13.handover.bytes), not the last read
PLAN["C01"]["units"] = PLAN["C01"]["units"] + [PWR + "handle"]
# C18 "a request head still incomplete after h11_max_incomplete_size bytes is rejected": every read
# is followed by the event loop in which h11 checks the limit
PLAN["C18"]["units"] = PLAN["C18"]["units"] + [H1P + "handle"]
# C13 "served as HTTP/2 stream 1 ... no client byte is lost": the request the switch carries over
PLAN["C13"]["units"] = PLAN["C13"]["units"] + ["hypercorn.protocol.h11:H2CProtocolRequiredError.__init__"]
# C10 "messages the application sends reach the client ... in order", over HTTP/2: the send path
PLAN["C10"]["units"] = PLAN["C10"]["units"] + [HP + "_send_data", HP + "stream_send", SB + "pop", SB + "push"]
PLAN["C10"]["trusted_base"] = PLAN["C10"]["trusted_base"] + LIB_H2
# C15 "then cancels what remains": the application task can be cancelled on its way out
PLAN["C15"]["units"] = PLAN["C15"]["units"] + [ATG + "_handle", TTG + "_handle"]
# C08 "an application's send completes only as fast as the client accepts data", for a WSGI application:
# the thread-to-loop bridge waits for each send
PLAN["C08"]["units"] = PLAN["C08"]["units"] + [ATG + "TaskGroup.spawn_app", TTG + "TaskGroup.spawn_app"]
# C16: StreamBuffer's events are cleared only by the task that waits on them (trio's clear() replaces the event)
PLAN["C16"]["units"] = PLAN["C16"]["units"] + [SB + m for m in ("pop", "push", "close", "set_complete", "drain")]
# C07 "once ... the server has decided to close, the connection's handler finishes": every stream is
# closed when the protocol is told Closed, however often and from whichever side it is told
PLAN["C07"]["units"] = PLAN["C07"]["units"] + [HP + "handle"]
# round 15: the WSGI request handler under C05 (an application failure is not followed by a final
# body), the constructor of WSStream under C12, the HTTP/1 response head under C11
PLAN["C05"]["units"] = PLAN["C05"]["units"] + [WW + "handle_http"]
PLAN["C12"]["units"] = PLAN["C12"]["units"] + [WSU + "__init__"]
PLAN["C11"]["units"] = PLAN["C11"]["units"] + [H1P + "stream_send"]
PLAN["C17"]["units"] = PLAN["C17"]["units"] + [UT + "is_asgi"]
# C01 "for every framing (content-length, chunked ...)": whether a request with a body is kept on HTTP/1
PLAN["C01"]["units"] = PLAN["C01"]["units"] + [H1P + "_check_protocol"]

# Session 3, after the counting rule changed: generous plans.  The remaining way for a change to
# slip past the check of the property it breaks is a unit that is not in that property's plan, so
# every property that involves a protocol gets that protocol's whole unit group, and every property
# about connections gets the servers, the timer and task-group classes (all cheap units).
_SB_ALL = [SB + m for m in ("__init__", "push", "pop", "drain", "set_complete", "close", "complete")]
_H2_GROUP = H2_UNITS + _SB_ALL
_H11_GROUP = H11_UNITS + [H1W + "receive_data", H1W + "next_event", "hypercorn.protocol.h11:H2CProtocolRequiredError.__init__", PWR + "__init__", PWR + "initiate", PWR + "handle"]
_CONN_GROUP = SERVER_UNITS + SINGLE_UNITS + _SRV_INIT + _TG_REST + [ATG + "TaskGroup.spawn_app", TTG + "TaskGroup.spawn_app", ATG + "_handle", TTG + "_handle"]
def _extend(pid, group):
    have = set(PLAN[pid]["units"])
    PLAN[pid]["units"] = PLAN[pid]["units"] + [u for u in group if u not in have]
for _p in ("C01", "C02", "C03", "C05", "C07", "C08", "C09", "C10", "C13", "C15", "C18"):
    _extend(_p, _H2_GROUP)
    if LIB_H2[0] not in PLAN[_p]["trusted_base"]:
        PLAN[_p]["trusted_base"] = PLAN[_p]["trusted_base"] + LIB_H2
for _p in ("C01", "C02", "C03", "C05", "C07", "C13", "C15", "C18", "C10", "C11"):
    _extend(_p, _H11_GROUP)
    if LIB_H11[0] not in PLAN[_p]["trusted_base"]:
        PLAN[_p]["trusted_base"] = PLAN[_p]["trusted_base"] + LIB_H11
for _p in ("C01", "C02", "C03", "C05", "C06", "C08", "C13", "C14", "C15", "C18", "C04", "C07"):
    _extend(_p, _CONN_GROUP)
    if LIB_IO[0] not in PLAN[_p]["trusted_base"]:
        PLAN[_p]["trusted_base"] = PLAN[_p]["trusted_base"] + LIB_IO
# the constructor of H2Protocol (settings, decoder limit, the priority tree's capacity) with the HTTP/2 group
for _p in ("C01", "C02", "C03", "C04", "C05", "C07", "C08", "C09", "C10", "C13", "C15", "C18"):
    _extend(_p, [HP + "__init__", H1P + "__init__"])
# C06 "reused only if ... neither side asked to close": the recycle rule reads context.terminated,
# which both worker_serve functions set before they wait for the listeners and connections
PLAN["C06"]["units"] = PLAN["C06"]["units"] + SERVE_UNITS
PLAN["C06"]["trusted_base"] = PLAN["C06"]["trusted_base"] + LIB_SERVE
# C13 / C11: the handshake is read from the header list whatever the case of the names
PLAN["C13"]["units"] = PLAN["C13"]["units"] + HKU
# WebSocket over HTTP/2 and application messages on HTTP/2: the HTTP/2 unit group under C11 and C12
for _p in ("C11", "C12"):
    _extend(_p, _H2_GROUP + [HP + "__init__"])
    if LIB_H2[0] not in PLAN[_p]["trusted_base"]:
        PLAN[_p]["trusted_base"] = PLAN[_p]["trusted_base"] + LIB_H2
_extend("C12", [H1P + "stream_send"])

# round 18 ------------------------------------------------------------------------------------------
# C06 "reused only if ... neither side asked to close": h11 learns of the peer's EOF from the empty
# read alone, which reaches it through the wrapper (C13.handover.event-first: every event is handed on)
if PWR + "handle" not in PLAN["C06"]["units"]:
    PLAN["C06"]["units"] = PLAN["C06"]["units"] + [PWR + "handle"]
# C07 "an idle connection is closed at once when shutdown has begun": the idle tasks wait on the
# worker's `terminated` event, and asyncio's Server.wait_closed() (3.12.1 and later) waits for the
# connections -- the announcement has to precede that wait (serve.loop.announced / C15.order)
for _u in SERVE_UNITS:
    if _u not in PLAN["C07"]["units"]:
        PLAN["C07"]["units"] = PLAN["C07"]["units"] + [_u]
PLAN["C07"]["assumptions"] = PLAN["C07"]["assumptions"] + [a for a in SERVE_ASSUME if a not in PLAN["C07"]["assumptions"]]
# C14 "startup.failed ... aborts the server with an error" with several workers: the failed worker's
# exit code reaches the supervisor through hypercorn.run._join_exited (outside the VC generator)
PLAN["C14"]["standins"] = PLAN["C14"].get("standins", []) + [{"file": "standins/join_exited.py", "name": "_join_exited reports a failed worker's exit code whatever else is reaped with it",
                                                               "label": "BOUNDED stand-in, not counted as proved"}]
