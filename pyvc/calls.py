"""Call dispatch: builtins, value methods, repo functions (inline or by contract), models."""
from __future__ import annotations

import ast
import builtins
import enum
import inspect
import types
from typing import Any, Dict, List

import z3

from . import ops
from .ctx import ContractError, PathEnd, Unsupported
from .interp import Frame, ReturnSig, assigned_names
from .ops import PyRaise, mk_exc
from .source import class_of, find_def, method_def, module_info
from .sym import (
    ANY_TAGS,
    UNSET,
    BoundMethod,
    Closure,
    Pair,
    PairSeq,
    PDict,
    PList,
    PSet,
    SObj,
    Str,
    StrSeq,
    Sym,
    SymAny,
    SymBool,
    SymBytes,
    SymEnum,
    SymInt,
    SymMap,
    SymMsg,
    SymOpaque,
    SymOpt,
    SymReal,
    SymSeq,
    SymStr,
    i_fmt,
    is_sym,
    kind_of_strlike,
    mk_bool,
    mk_int,
    mk_str,
    s_ascii_ok,
    s_int,
    s_int_ok,
    s_lower,
    s_strip,
    s_unquote,
    s_upper,
    str_to_z3,
    z3_of_int,
)


class EventClassValue:
    """the value of context.event_class: calling it makes a fresh (cleared) Event"""

    def __repr__(self):
        return "EVENT_CLASS"


EVENT_CLASS = EventClassValue()


class SuperProxy:
    """super() inside an exception class __init__: base initialisation is a no-op here"""


class Coro:
    """un-awaited call of an async function (lazy)"""

    __slots__ = ("thunk", "label", "args")

    def __init__(self, thunk, label="", args=()):
        self.thunk = thunk
        self.label = label
        self.args = tuple(args)


class CallsMixin:
    MAX_DEPTH = 40

    # ============================================================== entry points
    def ev_Call(self, e, fr, awaited=False):
        # bytearray.extend on a payload held in a variable / field: rebind the (immutable) payload
        if isinstance(e.func, ast.Attribute) and e.func.attr == "extend" and len(e.args) == 1 and not fr.spec:
            holder = self.ev(e.func.value, fr)
            if isinstance(holder, (SymBytes, bytes, bytearray)):
                arg = self.ev(e.args[0], fr)
                if isinstance(arg, SymAny):
                    tag, val = ops.any_split(self.ctx, arg, "extend")
                    if tag != "bytes":
                        if tag in ("none", "bool", "int", "str"):
                            raise mk_exc(TypeError, "can't extend bytearray", where=fr.where())
                        if self.ctx.choose(2, "extend(any)", ["ok", "TypeError"]) == 1:
                            raise mk_exc(TypeError, "can't extend bytearray", where=fr.where())
                        val = ops.fresh_payload(self.ctx, f"{arg.name}.asbytes")
                    arg = val
                if isinstance(arg, SymStr) and arg.kind == "bytes":
                    raise Unsupported("extend payload with short bytes")
                new = ops.payload_cat(self.ctx, ops.as_payload(self.ctx, holder), ops.as_payload(self.ctx, arg))
                from .heap import target_node_store

                self.assign(target_node_store(e.func.value), new, fr)
                return None
        f = self.ev(e.func, fr)
        args: List[Any] = []
        for a in e.args:
            if isinstance(a, ast.Starred):
                v = self.ev(a.value, fr)
                if isinstance(v, tuple):
                    args.extend(v)
                elif isinstance(v, PList) and v.sym is None:
                    args.extend(v.items)
                elif isinstance(v, PSet):
                    args.extend(v.items)
                elif f in (__import__("asyncio").gather,):
                    args.append(v)  # gather(*collection): the model does not look at the members
                else:
                    raise Unsupported("*args of symbolic length")
            else:
                if isinstance(a, ast.GeneratorExp) and fr.spec is False:
                    args.append(self.ev(a, fr))
                else:
                    args.append(self.ev(a, fr))
        kwargs: Dict[str, Any] = {}
        for k in e.keywords:
            if k.arg is None:
                v = self.ev(k.value, fr)
                if isinstance(v, PDict):
                    kwargs.update(v.items)
                else:
                    raise Unsupported("**kwargs")
            else:
                kwargs[k.arg] = self.ev(k.value, fr)
        return self.call_value(f, args, kwargs, fr, awaited=awaited)

    def await_value(self, v, fr):
        if isinstance(v, Coro):
            return v.thunk()
        if isinstance(v, SObj):
            model = self.model_for(v.cls)
            if model is not None and hasattr(model, "m___await__"):
                return model.m___await__(self, v, [], {}, fr)
        raise Unsupported(f"await of {v!r}")

    def call_value(self, f, args, kwargs, fr, awaited=False):
        self.depth += 1
        if self.depth > self.MAX_DEPTH:
            raise Unsupported("call depth")
        try:
            return self._call_value(f, args, kwargs, fr, awaited)
        finally:
            self.depth -= 1

    def _call_value(self, f, args, kwargs, fr, awaited):
        if fr.spec:
            sf = self.spec_function(f)
            if sf is not None:
                return sf(args, kwargs, fr)
        if type(f).__name__ == "GhostFn":
            return f.fn(*args)
        if isinstance(f, BoundMethod):
            return self.call_method(f.obj, f.name, args, kwargs, fr, awaited)
        if type(getattr(f, "__self__", None)).__module__ == "argparse":
            return self.call_argparse(f, args, kwargs, fr)
        if isinstance(f, Closure):
            return self.call_closure(f, args, kwargs, fr, awaited)
        import typing as _typing

        if isinstance(f, _typing.NewType) and len(args) == 1 and not kwargs:
            return args[0]  # typing.NewType: the identity function at run time
        if isinstance(f, SObj):
            model = self.model_for(f.cls)
            if model is not None and hasattr(model, "m___call__"):
                return model.m___call__(self, f, args, kwargs, fr)
            return self.call_method(f, "__call__", args, kwargs, fr, awaited)
        if isinstance(f, SymOpt):
            if self.ctx.branch(f.is_none, f"isNone@{fr.line}"):
                raise mk_exc(TypeError, "'NoneType' object is not callable", where=fr.where())
            return self._call_value(f.value, args, kwargs, fr, awaited)
        if f is None:
            raise mk_exc(TypeError, "'NoneType' object is not callable", where=fr.where())
        # real python callables -------------------------------------------------------------
        h = self.builtin_handler(f)
        if h is not None:
            return h(args, kwargs, fr)
        if isinstance(f, type):
            return self.instantiate(f, args, kwargs, fr)
        if isinstance(f, (types.FunctionType, types.MethodType)):
            mod = getattr(f, "__module__", "") or ""
            if mod.startswith("hypercorn"):
                return self.call_repo_function(f, args, kwargs, fr, awaited)
        if isinstance(f, EventClassValue):
            obj = SObj(class_of("hypercorn.typing:Event"), {"flag": False, "g_sticky": False}, tag=self.ctx.fresh_name("event"))
            self.register_shared(obj)
            return obj
        if isinstance(f, SymOpaque):
            raise Unsupported(f"call of opaque value {f.label or f.e} at {fr.where()}")
        raise Unsupported(f"call of {f!r} at {fr.where()}")

    def ghost_initial(self, ty):
        """initial value of a ghost field of a freshly constructed object"""
        if ty == "bool":
            return False
        if ty == "bytes":
            return ops.payload_lit(self.ctx, b"")
        return 0

    def call_argparse(self, f, args, kwargs, fr):
        fself = f.__self__
        if True:
            if getattr(f, "__name__", "") == "parse_args":
                from .models_cli import make_namespace

                return make_namespace(self, fself)
            # building the parser: every argument is concrete (interpreted functions passed as
            # `type=` are replaced by a stub -- parse_args is not executed natively)
            def conc(x):
                if isinstance(x, Closure):
                    return (lambda v: v)
                if isinstance(x, PList) and x.sym is None:
                    return [conc(i) for i in x.items]
                if is_sym(x) or isinstance(x, (SObj, PDict)):
                    raise Unsupported("symbolic argument to argparse")
                return x

            return f(*[conc(a) for a in args], **{k: conc(v) for k, v in kwargs.items()})

    # ============================================================== repo functions
    def qual_of(self, cls) -> str:
        if isinstance(cls, type):
            return f"{cls.__module__}:{cls.__qualname__}"
        return str(cls)

    def call_repo_function(self, f, args, kwargs, fr, awaited, self_obj=None):
        if isinstance(f, types.MethodType):
            # a classmethod looked up on a class of the repository (Config.from_object ...): the
            # class is the first argument; only callable through a contract
            if isinstance(f.__self__, type) and f"{f.__func__.__module__}:{f.__func__.__qualname__}" in self.reg.fns:
                args = [f.__self__] + list(args)
                f = f.__func__
            else:
                raise Unsupported("bound python method")
        qn = f"{f.__module__}:{f.__qualname__}"
        fc = self.reg.fns.get(qn)
        if fc is not None and not self.is_inlining(qn):
            is_async = inspect.iscoroutinefunction(f)
            if is_async and not awaited:
                return Coro(lambda: self.apply_contract(fc, args, kwargs, fr), qn, args)
            return self.apply_contract(fc, args, kwargs, fr)
        mi, node = find_def(qn) if ".setter" not in qn else (None, None)
        if node is None:
            raise Unsupported(f"no source for {qn}")
        if isinstance(node, ast.AsyncFunctionDef) and not awaited:
            return Coro(lambda: self.run_function(node, mi, qn, args, kwargs), qn, args)
        return self.run_function(node, mi, qn, args, kwargs)

    def is_inlining(self, qn) -> bool:
        fc = self.reg.fns.get(qn)
        if fc is not None and fc.inline:
            return True
        return qn in getattr(self, "force_inline", ())

    def call_closure(self, c: Closure, args, kwargs, fr, awaited):
        node = c.node
        qn = f"{c.frame.fn_qual}.<{getattr(node, 'name', 'lambda')}>"
        if isinstance(node, ast.Lambda):
            f2 = Frame(qn, c.module, parent=c.frame)
            self.bind_params(node.args, args, kwargs, f2, qn)
            return self.ev(node.body, f2)
        if isinstance(node, ast.AsyncFunctionDef) and not awaited:
            return Coro(lambda: self.run_function(node, c.module, qn, args, kwargs, parent=c.frame), qn)
        return self.run_function(node, c.module, qn, args, kwargs, parent=c.frame)

    def run_function(self, node, mi, qn, args, kwargs, parent=None):
        f2 = Frame(qn, mi, parent=parent)
        f2.local_names = assigned_names(node.body) | {a.arg for a in node.args.args + node.args.kwonlyargs}
        if node.args.vararg:
            f2.local_names.add(node.args.vararg.arg)
        self.bind_params(node.args, args, kwargs, f2, qn)
        frames = getattr(self, "frames", None)
        if frames is None:
            frames = self.frames = []
        frames.append(f2)
        try:
            self.exec_block(node.body, f2)
        except ReturnSig as r:
            return r.value
        finally:
            frames.pop()
            ll = getattr(self, "last_locals", None)
            if ll is None:
                ll = self.last_locals = {}
            ll[qn] = f2.locals
        return None

    def bind_params(self, a: ast.arguments, args, kwargs, f2: Frame, qn):
        params = [p.arg for p in a.posonlyargs + a.args]
        defaults = a.defaults
        kwargs = dict(kwargs)
        n_no_default = len(params) - len(defaults)
        if len(args) > len(params) and a.vararg is None:
            raise mk_exc(TypeError, f"{qn}() takes {len(params)} positional arguments", where=qn)
        for i, p in enumerate(params):
            if i < len(args):
                if p in kwargs:
                    raise mk_exc(TypeError, f"multiple values for {p}", where=qn)
                f2.locals[p] = args[i]
            elif p in kwargs:
                f2.locals[p] = kwargs.pop(p)
            elif i >= n_no_default:
                f2.locals[p] = self.ev(defaults[i - n_no_default], f2.parent or Frame(qn, f2.module))
            else:
                raise mk_exc(TypeError, f"{qn}() missing argument {p}", where=qn)
        if a.vararg is not None:
            f2.locals[a.vararg.arg] = tuple(args[len(params):])
        for p, d in zip(a.kwonlyargs, a.kw_defaults):
            if p.arg in kwargs:
                f2.locals[p.arg] = kwargs.pop(p.arg)
            elif d is not None:
                f2.locals[p.arg] = self.ev(d, f2.parent or Frame(qn, f2.module))
            else:
                raise mk_exc(TypeError, f"{qn}() missing keyword argument {p.arg}", where=qn)
        if a.kwarg is not None:
            f2.locals[a.kwarg.arg] = PDict(kwargs)
        elif kwargs:
            raise mk_exc(TypeError, f"{qn}() got unexpected keyword {sorted(kwargs)}", where=qn)

    # ============================================================== methods
    def call_method(self, obj, name, args, kwargs, fr, awaited):
        ctx = self.ctx
        if isinstance(obj, SymOpt):
            if not fr.spec and ctx.branch(obj.is_none, f"isNone@{fr.line}"):
                raise mk_exc(AttributeError, f"'NoneType' object has no attribute '{name}'", where=fr.where())
            obj = obj.value
        if type(obj).__name__ == "Bottom":
            return obj
        if isinstance(obj, SObj) and isinstance(obj.cls, type) and issubclass(obj.cls, BaseException) and name == "with_traceback":
            return obj
        if isinstance(obj, SObj):
            cls = obj.cls
            qn_cls = self.qual_of(cls)
            # 1. callback declared in the class contract
            cc = self.reg.classes.get(qn_cls)
            if cc is not None and name in cc.callbacks:
                return self.call_callback(obj, cc.callbacks[name], args, kwargs, fr)
            # 2. model class
            model = self.model_for(cls)
            if model is not None and hasattr(model, "m_" + name):
                if not awaited and name in getattr(model, "ASYNC", ()):
                    # a coroutine method of a library object called without await (handed to
                    # wait_for / shield / create_task): nothing happens until it is awaited
                    m_ = getattr(model, "m_" + name)
                    return Coro(lambda: m_(self, obj, args, kwargs, fr), f"{qn_cls}.{name}")
                return getattr(model, "m_" + name)(self, obj, args, kwargs, fr)
            # 3. contract on the method (own class or along the MRO / interface)
            fc = self.find_method_contract(cls, name)
            if fc is not None and not self.is_inlining(fc.qualname):
                if not awaited and self.contract_is_async(fc):
                    return Coro(lambda: self.apply_contract(fc, [obj] + list(args), kwargs, fr), fc.qualname)
                return self.apply_contract(fc, [obj] + list(args), kwargs, fr)
            # 4. inline the real body
            if isinstance(cls, type):
                md = method_def(cls, name)
                if md is not None:
                    mi, node, owner = md
                    qn = f"{owner.__module__}:{owner.__qualname__}.{name}"
                    raw = owner.__dict__.get(name)
                    call_args = list(args) if isinstance(raw, staticmethod) else [obj] + list(args)
                    if isinstance(node, ast.AsyncFunctionDef) and not awaited:
                        return Coro(lambda: self.run_function(node, mi, qn, call_args, kwargs), qn)
                    return self.run_function(node, mi, qn, call_args, kwargs)
            raise Unsupported(f"method {qn_cls}.{name} has neither contract, model nor source at {fr.where()}")
        if isinstance(obj, SuperProxy):
            return None
        return self.call_value_method(obj, name, args, kwargs, fr)

    def contract_is_async(self, fc) -> bool:
        try:
            _mi, node = find_def(fc.qualname)
            return isinstance(node, ast.AsyncFunctionDef)
        except Exception:
            return False

    def find_method_contract(self, cls, name):
        if isinstance(cls, type):
            for k in cls.__mro__:
                fc = self.reg.fns.get(f"{k.__module__}:{k.__qualname__}.{name}")
                if fc is not None:
                    return fc
            return None
        return self.reg.fns.get(f"{cls}.{name}")

    # ============================================================== instantiate
    def instantiate(self, cls, args, kwargs, fr):
        if (cls.__module__ or "") == "argparse" and not any(is_sym(a) for a in args):
            return cls(*args, **kwargs)  # the real parser, built natively
        if issubclass(cls, BaseException):
            mod = cls.__module__ or ""
            if mod.startswith("hypercorn") and "__init__" in cls.__dict__:
                obj = SObj(cls, {"args": tuple(args)})
                efc = self.reg.fns.get(f"{cls.__module__}:{cls.__qualname__}.__init__")
                ecc = self.reg.classes.get(f"{cls.__module__}:{cls.__qualname__}")
                if efc is not None and ecc is not None and not self.is_inlining(efc.qualname):
                    # constructor by contract (as for other repository classes): declared fields
                    # start unconstrained, the postcondition of __init__ pins them down
                    obj.tag = self.ctx.fresh_name(cls.__name__.lower())
                    for f_, t_ in ecc.fields.items():
                        obj.fields[f_] = self.make_symbolic(t_, f"{obj.tag}.{f_}", assume_inv=False)
                    self.apply_contract(efc, [obj] + list(args), kwargs, fr)
                    return obj
                self.call_method(obj, "__init__", args, kwargs, fr, False)
                return obj
            return SObj(cls, {"args": tuple(args)})
        model = self.model_for(cls)
        if model is not None and hasattr(model, "new"):
            return model.new(self, cls, args, kwargs, fr)
        if hasattr(cls, "__dataclass_fields__") and (cls.__module__ or "").startswith("hypercorn"):
            return self.new_dataclass(cls, args, kwargs, fr)
        if isinstance(cls, type) and issubclass(cls, enum.Enum):
            if args and not is_sym(args[0]):
                try:
                    return cls(args[0])
                except ValueError as ex:
                    raise mk_exc(ValueError, str(ex), where=fr.where())
            # Enum(value) of a library enum: an opaque member determined by the value (or ValueError)
            from .sym import Opaque

            if self.ctx.choose(2, f"{cls.__name__}(value)@{fr.line}", ["member", "ValueError"]) == 1:
                raise mk_exc(ValueError, "not a valid enum value", where=fr.where())
            f = z3.Function(f"enum_{cls.__name__}", z3.IntSort(), Opaque)
            return SymOpaque(f(z3_of_int(args[0])), cls.__name__)
        if (cls.__module__ or "").startswith("hypercorn"):
            ufc = self.reg.fns.get(getattr(self, "unit_qual", ""))
            view = (ufc.model_opts.get("views") or {}).get(f"{cls.__module__}:{cls.__qualname__}") if ufc is not None else None
            if view is not None:
                # this unit sees the class only through an interface contract (a "port"): the
                # constructor call is recorded, the object carries the port's ghost state
                vcc = self.reg.classes[view]
                obj = SObj(view, {g_: self.ghost_initial(t_) for g_, t_ in vcc.ghost.items()}, tag=self.ctx.fresh_name(view.split(":")[1].lower()))
                self.register_shared(obj)
                self.traces.setdefault("calls", []).append((f"{cls.__qualname__}.__init__", obj) + tuple(args) + tuple(kwargs.values()))
                return obj
            fc = self.reg.fns.get(f"{cls.__module__}:{cls.__qualname__}.__init__")
            obj = SObj(cls, {})
            if fc is not None and not self.is_inlining(fc.qualname):
                # constructor by contract: all declared fields start unconstrained, the
                # postcondition of __init__ (plus the class invariant) pins them down
                cc = self.reg.classes.get(f"{cls.__module__}:{cls.__qualname__}")
                if cc is None:
                    raise Unsupported(f"__init__ contract for {cls.__qualname__} needs a class contract")
                obj.tag = self.ctx.fresh_name(cls.__name__.lower())
                for f_, t_ in cc.fields.items():
                    obj.fields[f_] = self.make_symbolic(t_, f"{obj.tag}.{f_}", assume_inv=False)
                for g_, t_ in cc.ghost.items():
                    obj.fields[g_] = self.ghost_initial(t_)
                self.register_shared(obj)
                self.apply_contract(fc, [obj] + list(args), kwargs, fr)
            else:
                cc = self.reg.classes.get(f"{cls.__module__}:{cls.__qualname__}")
                if cc is not None:
                    # ghost state starts at its initial value (False / 0)
                    for g, t in cc.ghost.items():
                        obj.fields[g] = self.ghost_initial(t)
                    obj.tag = self.ctx.fresh_name(cls.__name__.lower())
                    self.register_shared(obj)
                md = method_def(cls, "__init__")
                if md is not None:
                    mi, node, owner = md
                    self.run_function(node, mi, f"{owner.__module__}:{owner.__qualname__}.__init__", [obj] + list(args), kwargs)
                if fc is not None and fc.ghost_post:
                    # an inlined constructor still performs the ghost updates of its contract
                    self.run_ghost(fc.ghost_post, {"self": obj}, fr)
            return obj
        if (cls.__module__ or "").split(".")[0] in ("h2", "h11", "wsproto"):
            # library value class (event): the call must bind to the installed signature
            try:
                sig = inspect.signature(cls)
                marks = [object() for _ in args]
                ba = sig.bind(*args, **kwargs)
            except TypeError as ex:
                raise mk_exc(TypeError, f"{cls.__name__}(): {ex}", where=fr.where())
            ba.apply_defaults()
            flds = {k: v for k, v in ba.arguments.items()}
            return SObj(cls, flds)
        raise Unsupported(f"instantiate {cls!r} at {fr.where()}")

    def new_dataclass(self, cls, args, kwargs, fr):
        import dataclasses

        flds = [f for f in dataclasses.fields(cls) if f.init]
        vals = {}
        kwargs = dict(kwargs)
        if len(args) > len(flds):
            raise mk_exc(TypeError, f"{cls.__name__}() takes {len(flds)} positional arguments", where=fr.where())
        for i, f in enumerate(flds):
            if i < len(args):
                vals[f.name] = args[i]
            elif f.name in kwargs:
                vals[f.name] = kwargs.pop(f.name)
            elif f.default is not dataclasses.MISSING:
                vals[f.name] = f.default
            else:
                raise mk_exc(TypeError, f"{cls.__name__}() missing argument {f.name}", where=fr.where())
        if kwargs:
            raise mk_exc(TypeError, f"{cls.__name__}() unexpected {sorted(kwargs)}", where=fr.where())
        obj = SObj(cls, vals)
        if "__post_init__" in {k for c in cls.__mro__ for k in c.__dict__} and (cls.__module__ or "").startswith("hypercorn"):
            fr2 = fr
            md = method_def(cls, "__post_init__")
            if md is not None:
                mi, node, owner = md
                self.run_function(node, mi, f"{owner.__module__}:{owner.__qualname__}.__post_init__", [obj], {})
        return obj

    # ============================================================== builtins
    def builtin_handler(self, f):
        tbl = getattr(self, "_btable", None)
        if tbl is None:
            tbl = self._btable = self.make_builtin_table()
        try:
            return tbl.get(f)
        except TypeError:
            return None

    def make_builtin_table(self):
        import itertools
        import time as _time
        import typing
        import urllib.parse
        import copy

        t = {
            len: self.b_len,
            min: self.b_min,
            max: self.b_max,
            isinstance: self.b_isinstance,
            bytes: self.b_bytes,
            bytearray: self.b_bytes,
            int: self.b_int,
            str: self.b_str,
            bool: lambda a, k, fr: self.b_bool(a, fr),
            list: self.b_list,
            tuple: self.b_tuple,
            dict: self.b_dict,
            any: self.b_any,
            all: self.b_all,
            next: self.b_next,
            hasattr: self.b_hasattr,
            typing.cast: lambda a, k, fr: a[1],
            itertools.chain: self.b_chain,
            _time.time: lambda a, k, fr: SymReal(self.ctx.fresh("time", z3.RealSort())),
            urllib.parse.unquote: self.b_unquote,
            copy.deepcopy: self.b_deepcopy,
            set: lambda a, k, fr: PSet(self.iter_concrete(a[0], fr)) if a else PSet([]),
            type: self.b_type,
            getattr: self.b_getattr,
            super: lambda a, k, fr: SuperProxy(),
            reversed: self.b_reversed,
        }
        for k, v in self.extra_builtins().items():
            t[k] = v
        return t

    def extra_builtins(self):
        from . import models

        return models.builtin_table(self)

    def b_len(self, a, k, fr):
        v = a[0]
        if type(v).__name__ == "Bottom":
            return v
        if type(v).__name__ == "SymGiven":
            from .models_cli import unwrap_given

            v = unwrap_given(self, v)
        if isinstance(v, SymOpt):
            if self.ctx.branch(v.is_none, "isNone"):
                raise mk_exc(TypeError, "len(None)", where=fr.where())
            v = v.value
        if v is None:
            raise mk_exc(TypeError, "len(None)", where=fr.where())
        if isinstance(v, SymAny):
            tag, val = ops.any_split(self.ctx, v, "len", interesting=("str", "bytes", "seq", "other"))
            if tag == "rest":
                raise mk_exc(TypeError, "no len", where=fr.where())
            if tag in ("str", "bytes"):
                return ops.length(self.ctx, val)
            r = mk_int(z3.Int(f"{v.name}.len"))
            self.ctx.assume(z3.Int(f"{v.name}.len") >= 0)
            return r
        if isinstance(v, SObj):
            model = self.model_for(v.cls)
            if model is not None and hasattr(model, "m___len__"):
                return model.m___len__(self, v, [], {}, fr)
        return ops.length(self.ctx, v)

    def _minmax(self, a, is_min, fr):
        vals = a if len(a) > 1 else self.iter_concrete(a[0], fr)
        if not any(is_sym(v) for v in vals):
            return min(vals) if is_min else max(vals)
        cur = z3_of_int(vals[0])
        for v in vals[1:]:
            e = z3_of_int(v)
            cur = z3.If(e < cur, e, cur) if is_min else z3.If(e > cur, e, cur)
        return mk_int(cur)

    def b_min(self, a, k, fr):
        return self._minmax(a, True, fr)

    def b_max(self, a, k, fr):
        return self._minmax(a, False, fr)

    def iter_concrete(self, v, fr):
        if isinstance(v, (tuple, list)):
            return list(v)
        if isinstance(v, PList) and v.sym is None:
            return list(v.items)
        if isinstance(v, PSet):
            return list(v.items)
        if isinstance(v, PDict):
            return list(v.items.keys())
        if isinstance(v, (set, frozenset)):
            return sorted(v, key=repr)
        if isinstance(v, GenValue):
            return v.force(self)
        raise Unsupported(f"iteration over {v!r} (concrete expected) at {fr.where()}")

    def b_isinstance(self, a, k, fr):
        v, c = a
        classes = c if isinstance(c, tuple) else (c,)
        if isinstance(v, SymOpt):
            rs = self.b_isinstance([v.value, c], k, fr)
            rz = z3.BoolVal(rs) if isinstance(rs, bool) else ops.z3_of_bool(rs)
            return mk_bool(z3.And(z3.Not(v.is_none), rz))
        if isinstance(v, SymAny):
            alts = []
            for cl in classes:
                if cl is str:
                    alts.append(ops.any_tag_is(v, "str"))
                elif cl is bytes:
                    alts.append(ops.any_tag_is(v, "bytes"))
                elif cl is int:
                    alts.append(z3.Or(ops.any_tag_is(v, "int"), ops.any_tag_is(v, "bool")))
                elif cl is bool:
                    alts.append(ops.any_tag_is(v, "bool"))
                else:
                    raise Unsupported(f"isinstance(Any, {cl})")
            return mk_bool(z3.Or(*alts))
        if isinstance(v, SObj):
            if isinstance(v.cls, type):
                return any(isinstance(cl, type) and issubclass(v.cls, cl) for cl in classes)
            model = self.model_for(v.cls)
            if model is not None and hasattr(model, "isinstance_of"):
                return mk_bool(z3.Or(*[model.isinstance_of(self, v, cl) for cl in classes]))
            real = getattr(model, "real_class", None)
            if real is None:
                vcc = self.reg.classes.get(str(v.cls))
                if vcc is not None and vcc.view_of:
                    real = class_of(vcc.view_of)
            if real is not None:
                return any(isinstance(cl, type) and issubclass(real, cl) for cl in classes)
            return False
        pyt = self.python_type_of(v)
        if pyt is not None:
            return any(isinstance(cl, type) and issubclass(pyt, cl) for cl in classes)
        raise Unsupported(f"isinstance({v!r}, {c!r})")

    def python_type_of(self, v):
        if v is None:
            return type(None)
        if isinstance(v, SymBool):
            return bool
        if isinstance(v, SymInt):
            return int
        if isinstance(v, SymStr):
            return str if v.kind == "str" else bytes
        if type(v).__name__ == "SymText":
            return str
        if isinstance(v, SymBytes):
            return bytes
        if isinstance(v, (PList, SymSeq)):
            return list
        if isinstance(v, (PDict, SymMsg, SymMap)):
            return dict
        if isinstance(v, SymReal):
            return float
        if isinstance(v, SymEnum):
            return v.cls
        if isinstance(v, PSet):
            return set
        if isinstance(v, SymOpaque):
            return object
        if not is_sym(v) and not isinstance(v, (SObj,)):
            return type(v)
        return None

    def b_type(self, a, k, fr):
        t = self.python_type_of(a[0]) if not isinstance(a[0], SObj) else a[0].cls
        if t is None:
            raise Unsupported("type()")
        return t

    def b_hasattr(self, a, k, fr):
        obj, name = a
        if isinstance(obj, SObj):
            if name in obj.fields:
                return obj.fields[name] is not UNSET
            try:
                self.class_attr(obj, name, fr)
                return True
            except PyRaise:
                return False
        if isinstance(obj, SymOpaque):
            return mk_bool(z3.Bool(self.ctx.fresh_name(f"hasattr_{name}")))
        if not is_sym(obj):
            return hasattr(obj, name)
        raise Unsupported("hasattr")

    def b_getattr(self, a, k, fr):
        if len(a) == 2:
            return self.getattr_value(a[0], a[1], fr)
        try:
            return self.getattr_value(a[0], a[1], fr)
        except PyRaise as pr:
            if issubclass(pr.exc.cls, AttributeError):
                return a[2]
            raise

    def b_bool(self, a, fr):
        t = ops.truth(self.ctx, a[0])
        return t if isinstance(t, bool) else mk_bool(t)

    def b_bytes(self, a, k, fr):
        ctx = self.ctx
        if not a:
            return ops.payload_lit(ctx, b"")
        v = a[0]
        if isinstance(v, (SymBytes, bytes, bytearray)):
            return v if not isinstance(v, bytearray) else bytes(v)
        if isinstance(v, SymStr):
            if v.kind == "bytes":
                return v
            raise mk_exc(TypeError, "string argument without an encoding", where=fr.where())
        if isinstance(v, str):
            raise mk_exc(TypeError, "string argument without an encoding", where=fr.where())
        if isinstance(v, (int, SymInt)) and not isinstance(v, bool):
            if not ctx.branch(z3_of_int(v) >= 0, "bytes(n>=0)"):
                raise mk_exc(ValueError, "negative count", where=fr.where())
            # bytes(n): n zero bytes -- a byte string of that length that starts with (and so
            # contains) NUL when it is not empty
            zs = SymStr(ctx.fresh("zeros", Str), "bytes")
            nz = z3_of_int(v)
            ctx.assume(z3.Length(zs.e) == nz)
            ctx.assume(z3.Implies(nz > 0, z3.PrefixOf(z3.StringVal("\x00"), zs.e)))
            return zs
        if v is None:
            raise mk_exc(TypeError, "cannot convert 'NoneType' object to bytes", where=fr.where())
        if isinstance(v, SymAny):
            tag, val = ops.any_split(ctx, v, "bytes()", interesting=("bytes", "num", "seq", "other"))
            if tag == "rest":
                raise mk_exc(TypeError, "cannot convert to bytes", where=fr.where())
            if tag == "bytes":
                return val
            if tag in ("int", "bool"):
                n = z3_of_int(val)
                if not ctx.branch(n >= 0, "bytes(n>=0)"):
                    raise mk_exc(ValueError, "negative count", where=fr.where())
                if v.bytes_kind == "payload":
                    p = ops.fresh_payload(ctx, f"{v.name}.zeros")
                    ctx.assume(p.n == n)
                    return p
                s = SymStr(ctx.fresh(f"{v.name}.zeros", Str), "bytes")
                ctx.assume(z3.Length(s.e) == n)
                ctx.assumptions_used.add("bytes(int) yields an unconstrained string of that length (zero content not modelled)")
                return s
            # seq / other: may raise TypeError/ValueError or produce some bytes
            if ctx.choose(2, f"bytes({v.name})", ["ok", "TypeError"]) == 1:
                raise mk_exc(TypeError, "cannot convert to bytes", where=fr.where())
            if v.bytes_kind == "payload":
                return ops.fresh_payload(ctx, f"{v.name}.asbytes")
            return SymStr(ctx.fresh(f"{v.name}.asbytes", Str), "bytes")
        if isinstance(v, PList) and v.sym is None and all(isinstance(x, int) for x in v.items):
            return bytes(v.items)
        raise Unsupported(f"bytes({v!r})")

    def b_int(self, a, k, fr):
        ctx = self.ctx
        v = a[0] if a else 0
        if isinstance(v, SymEnum):
            return mk_int(v.e + 1)
        if isinstance(v, enum.Enum) and isinstance(v, int):
            return int(v)
        if isinstance(v, (int, SymInt, bool, SymBool)):
            return mk_int(z3_of_int(v)) if is_sym(v) else int(v)
        if isinstance(v, float):
            return int(v)
        if type(v).__name__ == "SymReal":
            # int(x) truncates towards zero; z3's ToInt is the floor
            return mk_int(z3.If(v.e >= 0, z3.ToInt(v.e), -z3.ToInt(-v.e)))
        if isinstance(v, (str, bytes)) and not is_sym(v):
            try:
                return int(v)
            except ValueError:
                raise mk_exc(ValueError, "invalid literal for int()", where=fr.where())
        if isinstance(v, SymStr):
            if not ctx.branch(s_int_ok(v.e), "int(str) ok"):
                raise mk_exc(ValueError, "invalid literal for int()", where=fr.where())
            return mk_int(s_int(v.e))
        if v is None:
            raise mk_exc(TypeError, "int() argument must be a string or a number, not 'NoneType'", where=fr.where())
        if isinstance(v, SymAny):
            tag, val = ops.any_split(ctx, v, "int()", interesting=("num", "str", "bytes", "other"))
            if tag in ("int", "bool"):
                return mk_int(z3_of_int(val))
            if tag == "rest":
                raise mk_exc(TypeError, "int() argument", where=fr.where())
            if tag in ("str", "bytes"):
                if isinstance(val, SymBytes):
                    if ctx.choose(2, "int(bytes)", ["ok", "ValueError"]) == 1:
                        raise mk_exc(ValueError, "invalid literal", where=fr.where())
                    return mk_int(ctx.fresh("parsed", z3.IntSort()))
                return self.b_int([val], k, fr)
            if ctx.choose(2, f"int({v.name})", ["ok", "TypeError"]) == 1:
                raise mk_exc(TypeError, "int() argument", where=fr.where())
            return mk_int(ctx.fresh(f"{v.name}.asint", z3.IntSort()))
        raise Unsupported(f"int({v!r})")

    def b_str(self, a, k, fr):
        if not a:
            return ""
        v = a[0]
        if isinstance(v, str):
            return v
        if isinstance(v, SymStr) and v.kind == "str":
            return v
        if isinstance(v, int) and not is_sym(v):
            return str(v)
        if isinstance(v, SymInt):
            return SymStr(i_fmt(v.e), "str")
        return SymStr(self.ctx.fresh("str()", Str), "str")

    def b_list(self, a, k, fr):
        if not a:
            return PList([])
        v = a[0]
        if isinstance(v, PList):
            return PList(list(v.items), sym=v.sym)
        if isinstance(v, SymSeq):
            return PList(sym=v)
        if isinstance(v, GenValue):
            return v.to_list(self)
        if isinstance(v, (tuple, list)):
            return PList(list(v))
        if isinstance(v, PSet):
            return PList(list(v.items))
        if isinstance(v, BoundMethodResultKeys):
            return v.to_list(self)
        if isinstance(v, SObj):
            model = self.model_for(v.cls)
            if model is not None and hasattr(model, "m___iter__list"):
                return model.m___iter__list(self, v, fr)
        raise Unsupported(f"list({v!r})")

    def b_reversed(self, a, k, fr):
        v = a[0]
        if isinstance(v, (tuple, list)):
            return list(reversed(v))
        if isinstance(v, PList) and v.sym is None:
            return PList(list(reversed(v.items)))
        if isinstance(v, PList) and not v.items:
            return ReversedIter(v.sym)
        if isinstance(v, SymSeq):
            return ReversedIter(v)
        raise Unsupported(f"reversed({v!r})")

    def b_tuple(self, a, k, fr):
        if not a:
            return ()
        return tuple(self.iter_concrete(a[0], fr))

    def b_dict(self, a, k, fr):
        d = PDict()
        if a:
            if isinstance(a[0], PDict):
                d.items.update(a[0].items)
            else:
                raise Unsupported("dict(x)")
        d.items.update(k)
        return d

    def b_any(self, a, k, fr):
        return self.quant(a[0], fr, True)

    def b_all(self, a, k, fr):
        return self.quant(a[0], fr, False)

    def quant(self, it, fr, is_any):
        if isinstance(it, GenValue):
            return it.quantify(self, is_any)
        if isinstance(it, SObj):
            model = self.model_for(it.cls)
            if model is not None and hasattr(model, "quantify_all"):
                if is_any:
                    # any() over a flag table is a different question from all(): unconstrained
                    return SymBool(z3.Bool(self.ctx.fresh_name("any_flag")))
                return model.quantify_all(self, it)
        vals = self.iter_concrete(it, fr)
        ts = [ops.truth(self.ctx, v) for v in vals]
        zs = [z3.BoolVal(t) if isinstance(t, bool) else t for t in ts]
        if not zs:
            return not is_any
        return mk_bool(z3.Or(*zs) if is_any else z3.And(*zs))

    def b_next(self, a, k, fr):
        v = a[0]
        if isinstance(v, SObj):
            model = self.model_for(v.cls)
            if model is not None and hasattr(model, "m___next__"):
                return model.m___next__(self, v, [], {}, fr)
        raise Unsupported(f"next({v!r})")

    def b_chain(self, a, k, fr):
        cur = None
        for x in a:
            lx = self.b_list([x], {}, fr)
            cur = lx if cur is None else ops.list_concat(self.ctx, cur, lx)
        return cur if cur is not None else PList([])

    def b_unquote(self, a, k, fr):
        v = a[0]
        if isinstance(v, str):
            import urllib.parse

            return urllib.parse.unquote(v)
        if isinstance(v, SymStr) and v.kind == "str":
            return SymStr(s_unquote(v.e), "str")
        raise Unsupported("unquote")

    def b_deepcopy(self, a, k, fr):
        return self.deep_copy(a[0], {})

    def deep_copy(self, v, memo):
        if isinstance(v, PList):
            if id(v) not in memo:
                memo[id(v)] = PList([self.deep_copy(x, memo) for x in v.items], sym=v.sym)
            return memo[id(v)]
        if isinstance(v, PDict):
            if id(v) not in memo:
                memo[id(v)] = PDict({kk: self.deep_copy(x, memo) for kk, x in v.items.items()})
            return memo[id(v)]
        if isinstance(v, tuple):
            return tuple(self.deep_copy(x, memo) for x in v)
        return v

    # ============================================================== methods on plain values
    def call_value_method(self, obj, name, args, kwargs, fr):
        ctx = self.ctx
        if isinstance(obj, SymAny):
            return self.any_method(obj, name, args, kwargs, fr)
        if isinstance(obj, SymMsg):
            if name == "get":
                return self.msg_get(obj, args[0], fr, required=False, default=args[1] if len(args) > 1 else None)
            raise Unsupported(f"message.{name}")
        if isinstance(obj, PDict):
            return self.dict_method(obj, name, args, kwargs, fr)
        if isinstance(obj, SymMap):
            return self.map_method(obj, name, args, kwargs, fr)
        if isinstance(obj, (PList,)):
            return self.list_method(obj, name, args, kwargs, fr)
        if isinstance(obj, SymBytes):
            return self.payload_method(obj, name, args, kwargs, fr)
        if isinstance(obj, (SymStr, str, bytes)):
            return self.str_method(obj, name, args, kwargs, fr)
        if isinstance(obj, PSet):
            if name == "add":
                obj.items.append(args[0])
                return None
            if name == "discard":
                return None
        if isinstance(obj, SymOpaque):
            raise Unsupported(f"method {name} on opaque {obj.label or obj.e} at {fr.where()}")
        raise Unsupported(f"method {name} on {obj!r} at {fr.where()}")

    def any_method(self, v: SymAny, name, args, kwargs, fr):
        tag, val = ops.any_split(self.ctx, v, f".{name}", interesting=("str", "bytes", "other"))
        if tag in ("str", "bytes"):
            if isinstance(val, SymBytes):
                return self.payload_method(val, name, args, kwargs, fr)
            return self.str_method(val, name, args, kwargs, fr)
        if tag == "rest":
            raise mk_exc(AttributeError, name, where=fr.where())
        if self.ctx.choose(2, f"{v.name}.{name}", ["ok", "AttributeError"]) == 1:
            raise mk_exc(AttributeError, name, where=fr.where())
        return self.fresh_any(f"{v.name}.{name}()", v.bytes_kind)

    def payload_method(self, p: SymBytes, name, args, kwargs, fr):
        if name == "strip":
            r = ops.fresh_payload(self.ctx, "stripped")
            self.ctx.assume(r.n <= p.n)
            return r
        if name == "decode":
            return SymStr(self.ctx.fresh("decoded", Str), "str")
        raise Unsupported(f"payload.{name}")

    def dict_method(self, d: PDict, name, args, kwargs, fr):
        if name == "get":
            k = args[0]
            if is_sym(k):
                raise Unsupported("dict.get symbolic key")
            return d.items.get(k, args[1] if len(args) > 1 else None)
        if name == "copy":
            return PDict(d.items)
        if name == "items":
            return PList([(k, v) for k, v in d.items.items()])
        if name == "keys":
            return PList(list(d.items.keys()))
        if name == "values":
            return PList(list(d.items.values()))
        if name == "update":
            for a in args:
                if isinstance(a, PDict):
                    d.items.update(a.items)
                else:
                    raise Unsupported("dict.update")
            d.items.update(kwargs)
            return None
        if name == "pop":
            k = args[0]
            if k in d.items:
                return d.items.pop(k)
            if len(args) > 1:
                return args[1]
            raise mk_exc(KeyError, k, where=fr.where())
        if name == "setdefault":
            return d.items.setdefault(args[0], args[1] if len(args) > 1 else None)
        raise Unsupported(f"dict.{name}")

    def map_method(self, m: SymMap, name, args, kwargs, fr):
        if name == "pop":
            v = self.map_get(m, args[0], fr)
            self.map_del(m, args[0], fr)
            return v
        if name == "keys":
            return BoundMethodResultKeys(m)
        if name == "values":
            return MapValues(m)
        if name == "get":
            k = z3_of_int(args[0])
            if self.ctx.branch(z3.Select(m.has, k), f"in({m.name})"):
                return self.map_lookup(m, args[0])
            return args[1] if len(args) > 1 else None
        raise Unsupported(f"map.{name}")

    def list_method(self, l: PList, name, args, kwargs, fr):
        ctx = self.ctx
        if name == "append":
            if l.sym is None:
                l.items.append(args[0])
            else:
                unit = ops.to_seq(ctx, PList([args[0]]), like=l.sym)
                l.sym = SymSeq(z3.Concat(l.sym.e, unit.e), l.sym.elem)
            return None
        if name == "extend":
            other = args[0]
            if isinstance(other, GenValue):
                other = other.to_list(self)
            if isinstance(other, (tuple, list)):
                other = PList(list(other))
            if l.sym is None and isinstance(other, PList) and other.sym is None:
                l.items.extend(other.items)
            else:
                r = ops.list_concat(ctx, l, other if isinstance(other, PList) else PList(sym=other))
                l.items, l.sym = r.items, r.sym
            return None
        if name == "copy":
            return PList(list(l.items), sym=l.sym)
        if name == "insert" and l.sym is None and not is_sym(args[0]):
            l.items.insert(args[0], args[1])
            return None
        if name == "raw_items":
            return PList(list(l.items), sym=l.sym)
        raise Unsupported(f"list.{name}")

    def str_method(self, s, name, args, kwargs, fr):
        ctx = self.ctx
        kind = kind_of_strlike(s)
        concrete = not is_sym(s) and not any(is_sym(a) for a in args)
        if concrete and name not in ("decode", "encode"):
            try:
                r = getattr(s, name)(*args, **kwargs)
            except Exception as ex:
                raise mk_exc(type(ex), str(ex), where=fr.where())
            if isinstance(r, list):
                return PList(r)
            return r
        e = str_to_z3(s)
        if name in ("decode", "encode"):
            enc = args[0] if args else kwargs.get("encoding", "utf-8")
            if is_sym(enc):
                raise Unsupported("symbolic encoding")
            enc = enc.lower().replace("-", "").replace("_", "")
            newkind = "str" if name == "decode" else "bytes"
            if (name == "decode") != (kind == "bytes"):
                raise mk_exc(AttributeError, name, where=fr.where())
            if not is_sym(s):
                try:
                    return getattr(s, name)(*args, **kwargs)
                except Exception as ex:
                    raise mk_exc(type(ex), str(ex), where=fr.where())
            if fr.spec:
                # total in contracts: the transcoding of an ascii/latin-1 string is itself
                return mk_str(e, newkind)
            if enc in ("latin1", "iso88591"):
                if name == "encode":
                    ok = z3.Bool(ctx.fresh_name("latin1_ok"))
                    if not ctx.branch(ok, "latin1 encodable"):
                        raise mk_exc(UnicodeEncodeError, "latin-1", "", 0, 1, "x", where=fr.where())
                return mk_str(e, newkind)
            if enc == "ascii":
                if not ctx.branch(ascii_cond(e), "ascii ok"):
                    raise mk_exc(UnicodeDecodeError if name == "decode" else UnicodeEncodeError, "ascii", b"", 0, 1, "x", where=fr.where())
                return mk_str(e, newkind)
            if enc in ("utf8",):
                # ascii-only strings map to themselves; otherwise opaque (decode may fail)
                if ctx.branch(ascii_cond(e), "ascii ok"):
                    return mk_str(e, newkind)
                if name == "decode":
                    if ctx.choose(2, "utf8 decode", ["ok", "UnicodeDecodeError"]) == 1:
                        raise mk_exc(UnicodeDecodeError, "utf-8", b"", 0, 1, "x", where=fr.where())
                r = SymStr(ctx.fresh("transcoded", Str), newkind)
                return r
            raise Unsupported(f"encoding {enc}")
        if name in ("lower", "upper", "strip") and not args:
            f = {"lower": s_lower, "upper": s_upper, "strip": s_strip}[name]
            emp = z3.StringVal("")
            # the only interpreted fact: the empty string maps to itself
            ctx.assume(f(emp) == emp)
            return SymStr(f(e), kind)
        if name == "startswith":
            return mk_bool(z3.PrefixOf(str_to_z3(args[0]), e))
        if name == "removeprefix" and len(args) == 1:
            pfx = str_to_z3(args[0])
            return mk_str(z3.If(z3.PrefixOf(pfx, e), z3.SubString(e, z3.Length(pfx), z3.Length(e) - z3.Length(pfx)), e), kind)
        if name == "removesuffix" and len(args) == 1:
            sfx = str_to_z3(args[0])
            return mk_str(z3.If(z3.SuffixOf(sfx, e), z3.SubString(e, 0, z3.Length(e) - z3.Length(sfx)), e), kind)
        if name == "endswith":
            return mk_bool(z3.SuffixOf(str_to_z3(args[0]), e))
        if name == "rpartition":
            sep = str_to_z3(args[0])
            idx = z3.LastIndexOf(e, sep)
            n = z3.Length(e)
            found = idx >= 0
            emp = z3.StringVal("")
            head = mk_str(z3.If(found, z3.SubString(e, 0, idx), emp), kind)
            mid = mk_str(z3.If(found, sep, emp), kind)
            tail = mk_str(z3.If(found, z3.SubString(e, idx + z3.Length(sep), n), e), kind)
            return (head, mid, tail)
        if name == "partition":
            sep = str_to_z3(args[0])
            idx = z3.IndexOf(e, sep, 0)
            n = z3.Length(e)
            found = idx >= 0
            emp = z3.StringVal("")
            head = mk_str(z3.If(found, z3.SubString(e, 0, idx), e), kind)
            mid = mk_str(z3.If(found, sep, emp), kind)
            tail = mk_str(z3.If(found, z3.SubString(e, idx + z3.Length(sep), n), emp), kind)
            return (head, mid, tail)
        if name == "split" and len(args) == 2 and not kwargs and args[1] == 1:
            # split(sep, 1): [head, tail] around the first separator, or [s] when there is none
            sep = str_to_z3(args[0])
            if ctx.branch(z3.Contains(e, sep), f"split1:has-sep@{fr.line}"):
                idx = z3.IndexOf(e, sep, 0)
                head = mk_str(z3.SubString(e, 0, idx), kind)
                tail = mk_str(z3.SubString(e, idx + z3.Length(sep), z3.Length(e)), kind)
                return PList([head, tail])
            return PList([mk_str(e, kind)])
        if name == "split":
            if len(args) == 1 and not kwargs:
                # split(sep) is a function of its arguments: non-empty, and the string itself when
                # the separator does not occur (nothing else is interpreted)
                sep = str_to_z3(args[0])
                f_split = z3.Function("s_split", Str, Str, StrSeq)
                sq = SymSeq(f_split(e, sep), "str" if kind == "str" else "bstr")
                ctx.assume(z3.Length(sq.e) >= 1)
                ctx.assume(z3.Implies(z3.Not(z3.Contains(e, sep)), sq.e == z3.Unit(e)))
                ctx.assumptions_used.add("str.split(sep) is an uninterpreted function of (string, sep): non-empty, [s] when sep does not occur")
                return PList(sym=sq)
            sq = SymSeq(ctx.fresh("split", StrSeq), "str" if kind == "str" else "bstr")
            ctx.assume(z3.Length(sq.e) >= 1)
            ctx.assumptions_used.add("str.split result is an uninterpreted non-empty sequence")
            return PList(sym=sq)
        if name == "lstrip" and args and not is_sym(args[0]) and len(args[0]) >= 1 and not kwargs:
            # lstrip(chars) for a literal character set, exactly: s == p + r, p consists of
            # characters of the set only, r does not start with one
            lit = args[0] if isinstance(args[0], str) else bytes(args[0]).decode("latin-1")
            cs = sorted(set(lit))
            one = z3.Union(*[z3.Re(z3.StringVal(c)) for c in cs]) if len(cs) > 1 else z3.Re(z3.StringVal(cs[0]))
            pfx = ctx.fresh("lstrip.prefix", Str)
            r = ctx.fresh("lstrip.rest", Str)
            ctx.assume(e == z3.Concat(pfx, r))
            ctx.assume(z3.InRe(pfx, z3.Star(one)))
            ctx.assume(z3.Or(z3.Length(r) == 0, z3.Not(z3.InRe(z3.SubString(r, 0, 1), one))))
            return SymStr(r, kind)
        if name == "rstrip":
            chars = str_to_z3(args[0]) if args else z3.StringVal(" ")
            f_rstrip = z3.Function("s_rstrip", Str, Str, Str)
            r = SymStr(f_rstrip(e, chars), kind)
            ctx.assume(z3.PrefixOf(r.e, e))
            if args and not is_sym(args[0]) and len(args[0]) == 1:
                ctx.assume(z3.Not(z3.SuffixOf(str_to_z3(args[0]), r.e)))
            return r
        if name == "count":
            r = ctx.fresh("count", z3.IntSort())
            ctx.assume(r >= 0)
            return mk_int(r)
        if name == "replace":
            # replace-all: an uninterpreted function of (string, old, new); '' maps to ''
            f_rep = z3.Function("s_replace_all", Str, Str, Str, Str)
            a0, a1 = str_to_z3(args[0]), str_to_z3(args[1])
            ctx.assume(f_rep(z3.StringVal(""), a0, a1) == z3.StringVal(""))
            return SymStr(f_rep(e, a0, a1), kind)
        if name == "join":
            return SymStr(ctx.fresh("joined", Str), kind)
        if name == "format":
            return SymStr(ctx.fresh("formatted", Str), kind)
        raise Unsupported(f"str.{name} (symbolic) at {fr.where()}")


def ascii_cond(e):
    """is the string term pure ASCII?  structural over concatenations and literals"""
    if z3.is_string_value(e):
        try:
            e.as_string().encode("ascii")
            return z3.BoolVal("\\u{" not in e.as_string() or all(int(x, 16) < 128 for x in __import__("re").findall(r"\\u\{([0-9a-fA-F]+)\}", e.as_string())))
        except UnicodeEncodeError:
            return z3.BoolVal(False)
    if z3.is_app(e) and e.decl().kind() == z3.Z3_OP_SEQ_CONCAT:
        return z3.And(*[ascii_cond(c) for c in e.children()])
    return s_ascii_ok(e)


class ReversedIter:
    """reversed(seq) for a symbolic sequence: element i is seq[len - 1 - i]"""

    def __init__(self, seq: SymSeq):
        self.seq = seq

    def length(self):
        return z3.Length(self.seq.e)

    def elem(self, interp, i, fr):
        return interp.seq_elem(self.seq, z3.Length(self.seq.e) - 1 - ops.z3_of_int(i))


class BoundMethodResultKeys:
    """result of symmap.keys()"""

    def __init__(self, m: SymMap):
        self.m = m

    def to_list(self, interp):
        return MapKeyList(self.m, interp)


class MapValues:
    def __init__(self, m: SymMap):
        self.m = m


class MapKeyList(PList):
    """list(symmap.keys()): symbolic snapshot of the key set at creation time"""

    __slots__ = ("has0", "m", "ks", "pos")

    def __init__(self, m: SymMap, interp):
        super().__init__([])
        self.m = m
        self.has0 = m.has
        # the keys as a sequence `ks` that enumerates exactly the key set: every element is a key
        # and every key k occurs at position pos(k)
        ctx = interp.ctx
        from .sym import IntSeq

        nm = ctx.fresh_name(f"keys({m.name})")
        self.ks = z3.Const(nm, IntSeq)
        self.pos = z3.Function(nm + ".pos", z3.IntSort(), z3.IntSort())
        has0, ks, pos = self.has0, self.ks, self.pos
        ctx.seq_facts.append((ks, lambda el: z3.Select(has0, el)))
        ctx.assume_forall(lambda k: z3.Implies(z3.Select(has0, k), z3.And(pos(k) >= 0, pos(k) < z3.Length(ks), ks[pos(k)] == k)))


class GenValue:
    """generator expression / comprehension over a (possibly symbolic) iterable, evaluated lazily"""

    def __init__(self, node, fr, interp):
        self.node = node
        self.fr = fr

    def force(self, interp):
        return interp.comprehension(self.node, self.fr, "list").items

    def to_list(self, interp):
        return interp.comprehension(self.node, self.fr, "list")

    def quantify(self, interp, is_any):
        return interp.quantify_genexp(self.node, self.fr, is_any)
