"""`python -m pyvc.check Cxx [--tier quick|thorough]` -- decide one property.

exit 0: every obligation generated from the current tree is discharged (known findings listed)
exit 1: VIOLATION property=<id> replay=<path>   (counter-model or natively reproduced input)
exit 2: UNDECIDED (solver unknown / construct outside the subset / function missing)
exit 3: checker failure (engine crash, contract error, vacuity guard)
"""
from __future__ import annotations

import argparse
import concurrent.futures as cf
import importlib.util
import json
import multiprocessing
import os
import re
import sys
import time
import traceback
from typing import Any, Dict, List, Tuple

VERIF = os.path.dirname(os.path.dirname(os.path.abspath(__file__)))


def _load_plan():
    spec = importlib.util.spec_from_file_location("pyvc_plan", os.path.join(VERIF, "props", "plan.py"))
    mod = importlib.util.module_from_spec(spec)
    spec.loader.exec_module(mod)
    return mod.PLAN


def _worker(job):
    qualname, work, split_after = job
    sys.path.insert(0, VERIF)
    from pyvc.source import ensure_repo_on_path

    ensure_repo_on_path()
    from pyvc.contracts import REG, load_contracts
    from pyvc.verify import verify_unit

    if not REG.fns:
        load_contracts(os.path.join(VERIF, "contracts"))
    try:
        return verify_unit(qualname, work=work, split_after=split_after)
    except Exception as e:
        from pyvc.ctx import UnitResult

        r = UnitResult(unit=qualname)
        r.errors.append(f"{qualname}: {e!r}\n{traceback.format_exc()}")
        return r


def strip_lines(labels) -> str:
    return " ".join(re.sub(r"@\d+", "", l) for l in labels)


def load_findings() -> Dict[str, Any]:
    p = os.path.join(VERIF, "findings", "known_findings.json")
    if not os.path.exists(p):
        return {"findings": [], "fixed": []}
    return json.load(open(p))


def finding_matches(f: Dict[str, Any], prop: str, ob, unit: str = "") -> bool:
    # (a finding is identified by obligation + unit + path + note; the properties it is recorded
    # for say where it is reported first, see the caller)
    if f.get("unit") and unit and f["unit"] != unit:
        return False
    if not re.fullmatch(f["obligation"], ob.name):
        return False
    pat = f.get("path")
    if pat and not re.search(pat, strip_lines(ob.path)):
        return False
    npat = f.get("note")
    if npat and not re.search(npat, ob.note or ""):
        return False
    return True


def _run_scenario(item):
    import subprocess

    fid, spec = item
    mod, fn = spec.split(":")
    here = os.path.join(VERIF, "findings", "scenarios")
    env = dict(os.environ)
    env["PYTHONPATH"] = os.path.join(os.environ.get("PYVC_REPO", "/repo"), "src") + os.pathsep + here
    try:
        out = subprocess.run([sys.executable, os.path.join(here, mod + ".py"), fn], capture_output=True, text=True, timeout=120, env=env, cwd=here)
        line = [l for l in out.stdout.splitlines() if l.startswith(fn + " ")]
        if not line:
            return fid, (False, "scenario crashed: " + (out.stderr or out.stdout)[-300:])
        rest = line[-1][len(fn) + 1:]
        return fid, (rest.startswith("(True"), rest)
    except Exception as e:  # pragma: no cover
        return fid, (False, f"scenario error {e!r}")


def mutant_selftest(prop: str):
    """thorough tier: every committed seeded change that targets this property (seeded/<Cxx>-*) is
    applied to a scratch copy of the current /repo (outside /repo, /verif and /tmp; removed as soon
    as it is judged) and this check must reject it (exit 1)."""
    import shutil
    import subprocess
    import tempfile

    out = []
    sdir = os.path.join(VERIF, "seeded")
    for name in sorted(os.listdir(sdir)) if os.path.isdir(sdir) else []:
        meta_p = os.path.join(sdir, name, "meta.json")
        targets = [name[:3]]
        if os.path.exists(meta_p):
            try:
                cw = json.load(open(meta_p)).get("checks_with_patch", {})
                targets = [p_ for p_, v_ in cw.items() if v_.get("exit") == 1] or targets
            except Exception:
                pass
        if prop not in targets:
            continue
        scratch = tempfile.mkdtemp(prefix="hc-selftest-", dir="/var/tmp")
        rec = {"name": name}
        try:
            for sub in ("src", "docs", "pyproject.toml"):
                src_ = os.path.join("/repo", sub)
                if os.path.isdir(src_):
                    shutil.copytree(src_, os.path.join(scratch, sub))
                elif os.path.exists(src_):
                    shutil.copy(src_, os.path.join(scratch, sub))
            r = subprocess.run(["patch", "-p1", "-s", "-i", os.path.join(sdir, name, "patch.diff")], cwd=scratch, capture_output=True, text=True)
            rec["applied"] = r.returncode == 0
            if r.returncode != 0:
                rec["note"] = "patch no longer applies to the current tree: " + (r.stdout + r.stderr)[-200:]
            else:
                env = dict(os.environ, PYVC_REPO=scratch, PYVC_EVIDENCE_DIR=os.path.join(scratch, "_evidence"), PYVC_NO_SELFTEST="1")
                c = subprocess.run([sys.executable, "-m", "pyvc.check", prop, "--tier", "quick"], cwd=VERIF, env=env, capture_output=True, text=True, timeout=3600)
                rec["exit"] = c.returncode
                rec["caught"] = c.returncode == 1
                rec["violation_lines"] = [l for l in c.stdout.splitlines() if l.startswith("VIOLATION")][:3]
        except Exception as e:  # pragma: no cover
            rec["applied"] = False
            rec["note"] = f"self-test could not run: {e!r}"
        finally:
            shutil.rmtree(scratch, ignore_errors=True)
        out.append(rec)
    return out


def run_scenarios(fs):
    items = [(f["id"], f["scenario"]) for f in fs if f.get("scenario")]
    if not items:
        return {}
    with cf.ThreadPoolExecutor(max_workers=8) as ex:
        return dict(ex.map(_run_scenario, items))


def main(argv=None) -> int:
    ap = argparse.ArgumentParser()
    ap.add_argument("prop")
    ap.add_argument("--tier", default=os.environ.get("VERIF_TIER", "quick"))
    ap.add_argument("--jobs", type=int, default=min(16, os.cpu_count() or 4))
    ap.add_argument("--verbose", "-v", action="store_true")
    ap.add_argument("--replay")
    args = ap.parse_args(argv)
    prop = args.prop
    tier = args.tier if args.tier in ("quick", "thorough") else "quick"
    os.environ["PYVC_TIER"] = tier  # read by pyvc.ctx (cvc5 cross-check sampling) in this and the worker processes
    seed = int(os.environ.get("VERIF_SEED", "0") or 0)
    t0 = time.time()
    sys.path.insert(0, VERIF)
    if args.replay:
        from pyvc.replay import replay_file

        return replay_file(args.replay)
    plan = _load_plan()
    if prop not in plan:
        print(f"ERROR: no plan for property {prop}")
        return 3
    P = plan[prop]
    from pyvc.source import ensure_repo_on_path

    ensure_repo_on_path()
    from pyvc.contracts import REG, load_contracts

    try:
        load_contracts(os.path.join(VERIF, "contracts"))
    except Exception as e:
        print(f"CHECKER-ERROR: contracts do not load: {e!r}")
        traceback.print_exc()
        return 3
    units: List[str] = list(P["units"])
    # which (claimed) properties run which unit
    unit_props: Dict[str, set] = {}
    for pid, pl in plan.items():
        if pl.get("claimed", True):
            for u in pl["units"]:
                unit_props.setdefault(u, set()).add(pid)
    missing = [u for u in units if u not in REG.fns]
    if missing:
        print(f"CHECKER-ERROR: units without contract: {missing}")
        return 3
    from pyvc.parallel import run_units

    by_unit = run_units(units, args.jobs)
    results = [by_unit[u] for u in units]

    findings = load_findings()
    errors: List[str] = []
    undecided: List[str] = []
    named: Dict[str, Dict[str, Any]] = {}
    violations = []
    xstats: Dict[str, int] = {}
    continue_errors: List[str] = []
    unknown_obs: List[Any] = []
    known_hits: Dict[str, List[Any]] = {}
    solver_ms = 0.0
    n_paths = 0
    functions = []
    assumptions_used = set()
    n_instances = 0
    for r in results:
        errors.extend(r.errors)
        undecided.extend(r.undecided)
        solver_ms += r.solver_ms
        n_paths += r.paths
        functions.extend(r.functions)
        assumptions_used.update(r.assumptions)
        unit_short = r.unit.split(":")[1]
        # vacuity guards
        if not r.errors and not r.undecided and all(o.status == "unsat" for o in r.obligations):
            if not r.covers.get(f"{unit_short}.entry"):
                errors.append(f"vacuity: precondition/invariant of {r.unit} unsatisfiable")
            if not any(v for k, v in r.covers.items() if ".exit." in k):
                errors.append(f"vacuity: no feasible exit path in {r.unit}")
            if r.paths == 0:
                errors.append(f"vacuity: zero complete paths in {r.unit}")
        if not r.errors and not r.undecided:
            for k, v in sorted(r.covers.items()):
                if k.endswith(".continues") and not v:
                    continue_errors.append(f"vacuity: no path of {r.unit} continues after the call {k.split('.call.', 1)[1][:-10]} (the callee's contract contradicts the state at every call)")
        for ob in r.obligations:
            # frame and atomicity obligations say "this unit touches nothing else": whatever a unit
            # writes outside its frame can break any property that relies on the unit, so they count
            # for every check that runs it (they used to count only for the properties named in the
            # unit's contract: seeded/C15-mark-request-also-sets-terminated passed the C15 check)
            # Every obligation of every unit in the property's plan counts for the property: the plan
            # says "this property depends on this function", and a function that breaks any of its
            # contract clauses no longer is the function the property's argument was made about.
            # (Until session 3 an obligation counted only for the properties its clause was tagged
            # with; most seeded changes that a check missed had failed a clause tagged for another
            # property of the same unit.  The tags remain in the evidence as documentation.)
            n_instances += 1
            d = named.setdefault(ob.name, {"clause": ob.clause, "instances": 0, "status": "unsat", "ms": 0.0, "unit": r.unit, "where": ob.where, "props": list(ob.props), "cvc5": 0})
            d["instances"] += 1
            if getattr(ob, "backend", "z3") == "cvc5":
                d["cvc5"] += 1
            xc = getattr(ob, "xcheck", "")
            if xc:
                xstats[xc] = xstats.get(xc, 0) + 1
                if xc == "DISAGREE":
                    errors.append(f"solver disagreement: z3 discharged {ob.name} at {ob.where} [{' '.join(ob.path)[-200:]}] but cvc5 found a counter-model")
            d["ms"] += ob.ms
            if ob.status == "unsat":
                continue
            hit = None
            for f in findings["findings"]:
                if f.get("status", "open") == "open" and finding_matches(f, prop, ob, r.unit):
                    hit = f
                    if prop in f["property"].split(","):
                        break  # prefer an entry recorded for this property
            if hit is not None:
                known_hits.setdefault(hit["id"], []).append(ob)
                if d["status"] == "unsat":
                    d["status"] = "known-finding"
                continue
            if ob.status == "sat":
                d["status"] = "sat"
                violations.append((r.unit, ob))
            else:
                if d["status"] != "sat":
                    d["status"] = "unknown"
                unknown_obs.append((r.unit, ob))

    # an obligation the solver could not decide is undecided -- unless the real function, run on
    # generated inputs, violates a postcondition of that unit: then it is a violation with a
    # native failing input
    tried: Dict[str, Any] = {}
    for unit, ob in unknown_obs:
        if unit not in tried:
            try:
                from pyvc.falsify import falsify_typed

                tried[unit] = falsify_typed(unit, prop)
            except Exception as e:
                tried[unit] = {"clause_violated": False, "skipped": repr(e)}
        if tried[unit].get("clause_violated"):
            named[ob.name]["status"] = "sat"
            violations.append((unit, ob))
        else:
            undecided.append(f"{ob.name}: solver returned unknown at {ob.where} [{' '.join(ob.path)}]")

    # a callee whose own postcondition fails (a violation reported below) contradicts its callers'
    # state: that is a consequence of the violation, not a vacuous contract
    if not violations:
        errors.extend(continue_errors)

    # a unit that left the supported subset (a construct the encoder does not know) is undecided --
    # unless it is a function declared pure and the bounded native search finds an input on which
    # the real function violates one of its (proved or oracle) postconditions
    for r in results:
        if r.undecided and any("unsupported" in u for u in r.undecided) and r.unit not in tried:
            try:
                from pyvc.falsify import falsify_typed

                tried[r.unit] = falsify_typed(r.unit, prop)
            except Exception as e:
                tried[r.unit] = {"clause_violated": False, "skipped": repr(e)}
            out_f = tried[r.unit]
            if out_f.get("clause_violated"):
                violations.append(("falsifier:" + r.unit, {"obligation": r.unit.split(":")[1] + "." + out_f.get("violated_clause", "postcondition"), "input": json.dumps(out_f.get("inputs"), default=str),
                                                              "result": out_f.get("result"), "clause": out_f.get("clause"), "how": out_f.get("how"),
                                                              "note": "the unit is outside the verifier's subset on this tree; violation found by the bounded native search"}))

    # baseline obligation count (vacuity: contracts silently generating fewer obligations)
    base_path = os.path.join(VERIF, "contracts", "baseline.json")
    baseline = json.load(open(base_path)) if os.path.exists(base_path) else {}
    n_named = len(named)
    if n_named == 0:
        errors.append("vacuity: zero obligations generated")
    if prop in baseline and n_named < baseline[prop] and not undecided and not errors and not violations:
        errors.append(f"vacuity: {n_named} named obligations generated, baseline is {baseline[prop]}")

    # bounded stand-ins and native scenarios
    standins = []
    for s in P.get("standins", []):
        try:
            spec = importlib.util.spec_from_file_location("standin", os.path.join(VERIF, s["file"]))
            mod = importlib.util.module_from_spec(spec)
            spec.loader.exec_module(mod)
            out = mod.run(tier=tier, seed=seed)
            standins.append({**{k: v for k, v in s.items()}, **out})
            for v in out.get("violations", []):
                hit = None
                for f in findings["findings"]:
                    if f.get("status", "open") == "open" and prop in f["property"].split(",") and f["obligation"] == v["obligation"] and re.search(f.get("input", "$^"), v.get("input", "")):
                        hit = f
                if hit is not None:
                    known_hits.setdefault(hit["id"], []).append(v)
                else:
                    violations.append(("standin:" + s["file"], v))
        except Exception as e:
            errors.append(f"stand-in {s['file']} crashed: {e!r}\n{traceback.format_exc()}")

    # ---------------------------------------------------------------- thorough tier extras
    thorough_info: Dict[str, Any] = {}
    if tier == "thorough":
        thorough_info["cvc5_crosscheck"] = {"sampling": "one obligation instance in %s (deterministic by name and path)" % os.environ.get("PYVC_XCHECK_EVERY", "7"), **xstats}
        # encoder cross-check: proved postconditions of natively runnable units on real runs
        try:
            from pyvc.falsify import crosscheck_unit

            proved = {n for n, d in named.items() if d["status"] == "unsat"}
            xc_out = []
            for r in results:
                if r.errors or r.undecided or any(o.status != "unsat" for o in r.obligations):
                    continue
                xr = crosscheck_unit(r.unit, proved, tries=int(os.environ.get("PYVC_CPYTHON_TRIES", "60")))
                if xr.get("executed"):
                    xc_out.append({k: v for k, v in xr.items() if k != "disagreements"})
                for dg in xr.get("disagreements", []):
                    errors.append(f"encoder cross-check: clause {dg['clause']} of {r.unit} was proved but is false on a real execution under CPython: {json.dumps(dg, default=str)[:400]}")
            thorough_info["cpython_crosscheck"] = {"what": "proved postconditions of units that can be run natively (pure module-level functions; methods declared atomic whose object can be built from its class contract), evaluated on real executions of the real function with random inputs satisfying preconditions and class invariants; a disagreement is a checker error (exit 3)",
                                                   "units": xc_out, "real_executions": sum(x["executed"] for x in xc_out)}
        except Exception as e:  # pragma: no cover
            errors.append(f"encoder cross-check crashed: {e!r}\n{traceback.format_exc()}")
        if not os.environ.get("PYVC_REPO") and not os.environ.get("PYVC_NO_SELFTEST"):
            st = mutant_selftest(prop)
            thorough_info["mutant_selftest"] = st
            for m in st:
                if m.get("applied") and not m.get("caught"):
                    errors.append(f"mutant self-test: the committed seeded change {m['name']} is no longer rejected by this check (exit {m.get('exit')})")

    # ---------------------------------------------------------------- replay + report
    from pyvc.replay import write_replay

    rc = 0
    viol_lines = []
    by_name: Dict[str, List[Any]] = {}
    for unit, ob in violations:
        by_name.setdefault(ob["obligation"] if isinstance(ob, dict) else ob.name, []).append((unit, ob))
    for name, insts in by_name.items():
        # one line per failed obligation: the first instance whose counter-model replays natively,
        # else the first instance (at most 4 replays are attempted per obligation)
        best = None
        for unit, ob in insts[:4]:
            path, reproduced = write_replay(prop, unit, ob, VERIF)
            if reproduced:
                best = (path, True)
                break
            if best is None:
                best = (path, False)
        if best is not None and not best[1] and len(insts) > 1:
            write_replay(prop, insts[0][0], insts[0][1], VERIF)  # leave the first instance in the file
        suffix = "" if best[1] else " no-failing-input-found"
        viol_lines.append(f"VIOLATION property={prop} replay={best[0]}{suffix}")
    scen = run_scenarios([x for x in findings["findings"] if x["id"] in known_hits])
    for fid, obs in known_hits.items():
        f = [x for x in findings["findings"] if x["id"] == fid][0]
        rep = scen.get(fid)
        tag = "" if rep is None else (" [native scenario reproduces]" if rep[0] else " [native scenario did NOT reproduce: " + rep[1][:120] + "]")
        other = "" if prop in f["property"].split(",") else f" (recorded for {f['property']}; the same defect fails a clause of a unit this property's plan also relies on)"
        print(f"KNOWN-FINDING: property={prop} {fid}{other}: {f['what']}{tag}")
    if errors:
        rc = 3
    elif viol_lines:
        rc = 1
    elif undecided:
        rc = 2
    for e in errors:
        print("CHECKER-ERROR:", e)
    for u in undecided:
        print(f"UNDECIDED property={prop} {u}")
    if rc in (0, 1):
        for l in viol_lines:
            print(l)
    elif viol_lines:
        # never report violations from a run whose machinery failed
        print(f"note: {len(viol_lines)} candidate violation(s) suppressed because the run is not trustworthy")

    counted = {k: v for k, v in named.items() if v["status"] != "known-finding"}
    discharged = sum(1 for v in counted.values() if v["status"] == "unsat")
    samples = []
    for k, v in list(named.items())[:12]:
        samples.append({"obligation": k, "clause": v["clause"], "unit": v["unit"], "instances(paths)": v["instances"], "status": v["status"], "backend": "z3+cvc5" if v.get("cvc5") else "z3", "ms": round(v["ms"], 2)})
    ev = {
        "property_id": prop,
        "tier": tier,
        "seed": seed,
        "level": "proof",
        "coverage": {
            "obligations": len(counted),
            "discharged": discharged,
            "checker_cmd": f"bin/check {prop} --tier {tier}",
            "trusted_base": P.get("trusted_base", []) + [
                "pyvc encoder (self-written symbolic executor over the real ASTs; Python semantics assumed as in DESIGN 2.2)",
                "z3 5.1.0",
                "cooperative run-to-await scheduling; rely/guarantee meta-theory of DESIGN 2.5",
            ],
            "obligation_instances": n_instances,
            "paths_explored": n_paths,
            "by_backend": {"z3": sum(1 for v in counted.values() if v["status"] == "unsat" and not v.get("cvc5")), "cvc5": sum(1 for v in counted.values() if v["status"] == "unsat" and v.get("cvc5"))},
            "solver_time_s": round(solver_ms / 1000, 3),
            "functions_under_contract": functions,
            "samples": samples,
            "all_obligations": {k: v["status"] for k, v in named.items()},
            "excluded_by_known_findings": sorted(k for k, v in named.items() if v["status"] == "known-finding"),
            "known_findings": [{"id": k, "scenario_reproduces": (scen.get(k) or [None])[0], "scenario_detail": (scen.get(k) or [None, ""])[1]} for k in sorted(known_hits)],
            "bounded_standins": standins,
            "thorough": thorough_info,
            "assumed_contracts": sorted(q for q, f in REG.fns.items() if f.assume_only and any(q.startswith(u.rsplit('.', 1)[0]) for u in units)),
            "dropped_by_extraction": "type annotations (used only to pick sorts), comments/docstrings, f-string/% formatting results (opaque), time() (fresh real), log calls (effect-free)",
            "undecided": undecided,
            "explanation": P.get("explanation", ""),
        },
        "assumptions": P.get("assumptions", []) + sorted(assumptions_used),
        "wall_s": round(time.time() - t0, 3),
        "violations": len(viol_lines),
    }
    # runs against a scratch copy (seeded changes, PYVC_REPO set) leave the committed evidence alone
    ev_dir = os.environ.get("PYVC_EVIDENCE_DIR") or os.path.join(VERIF, "evidence")
    os.makedirs(ev_dir, exist_ok=True)
    with open(os.path.join(ev_dir, f"{prop}.json"), "w") as f:
        json.dump(ev, f, indent=1, default=str)
    print(f"{prop}: {len(counted)} obligations ({n_instances} instances over {n_paths} paths, {len(units)} functions), {discharged} discharged, {len(known_hits)} known finding(s), {len(viol_lines)} violation(s), {len(undecided)} undecided, {len(errors)} error(s); solver {solver_ms/1000:.2f}s wall {time.time()-t0:.1f}s -> exit {rc}")
    if args.verbose:
        for k, v in named.items():
            print(f"   {v['status']:14s} {k}  [{v['instances']} inst]")
    return rc


if __name__ == "__main__":
    sys.exit(main())
