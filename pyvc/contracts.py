"""Contract DSL (sidecar files under /verif/contracts are plain python calling these functions).

Clauses are *strings* holding python expressions; they are parsed with `ast` and evaluated by the
same expression evaluator as the code, in spec mode (no forking, total).  A clause may be written
as ("name", "expr") to give the obligation a stable name, and as ("name", "expr", "Cxx") to attach
the property it is transcribed from.
"""
from __future__ import annotations

import ast
from dataclasses import dataclass, field
from typing import Any, Callable, Dict, List, Optional, Tuple, Union

ClauseSrc = Union[str, Tuple[str, str], Tuple[str, str, str]]


@dataclass
class Clause:
    name: str
    text: str
    props: Tuple[str, ...]
    node: ast.expr


def mk_clauses(prefix: str, items: Optional[List[ClauseSrc]], default_props=()) -> List[Clause]:
    out = []
    for i, it in enumerate(items or []):
        if isinstance(it, str):
            name, text, props = f"{prefix}[{i}]", it, tuple(default_props)
        elif len(it) == 2:
            name, text, props = it[0], it[1], tuple(default_props)
        else:
            name, text = it[0], it[1]
            props = tuple(it[2].split(",")) if isinstance(it[2], str) else tuple(it[2])
        try:
            node = ast.parse(text.strip(), mode="eval").body
        except SyntaxError as e:
            raise SyntaxError(f"clause {name}: {text!r}: {e}")
        bad = quantifier_in_bad_position(node)
        if bad:
            raise SyntaxError(f"clause {name}: {bad} -- quantifiers are eliminated by skolemisation / instantiation without tracking "
                              f"polarity: they may only occur at the top level, under and/or, or in the consequent of implies()")
        out.append(Clause(name, text, props, node))
    return out


def quantifier_in_bad_position(node) -> Optional[str]:
    """forall_int / exists_int are only sound in positive positions of a clause (see spec._quant)"""
    QUANT = ("forall_int", "exists_int")

    def has_quant(n):
        return any(isinstance(x, ast.Call) and isinstance(x.func, ast.Name) and x.func.id in QUANT for x in ast.walk(n))

    def walk(n, positive):
        if not has_quant(n):
            return None
        if isinstance(n, ast.BoolOp):
            for v in n.values:
                r = walk(v, positive)
                if r:
                    return r
            return None
        if isinstance(n, ast.UnaryOp) and isinstance(n.op, ast.Not):
            return walk(n.operand, not positive)
        if isinstance(n, ast.Call) and isinstance(n.func, ast.Name):
            if n.func.id == "implies" and len(n.args) == 2:
                return walk(n.args[0], not positive) or walk(n.args[1], positive)
            if n.func.id in QUANT and len(n.args) == 2:
                if not positive:
                    return f"{n.func.id} in a negative position"
                return walk(n.args[1], positive)
        return f"quantifier inside {type(n).__name__} (neither and/or/not/implies): position unknown"

    return walk(node, True)


@dataclass
class Callback:
    """an abstract callable held in a field (self.send, self.app_put, ...)"""

    name: str
    effect: str = "yields"  # 'yields' | 'atomic'
    record: Optional[str] = None  # name of the per-call trace the argument is appended to
    ghost: List[str] = field(default_factory=list)  # ghost statements run on each call (args: a0..)
    raises: List[Any] = field(default_factory=list)  # exception classes it may raise
    returns: Optional[str] = None  # type of result
    requires: List[ClauseSrc] = field(default_factory=list)
    present: Optional[str] = None  # spec expression: the attribute holding the callable is set


@dataclass
class ClassContract:
    qualname: str  # module:Class
    fields: Dict[str, str]
    ghost: Dict[str, str]
    inv: List[Clause]
    rely: List[Clause]
    callbacks: Dict[str, Callback]
    immutable: Optional[List[str]] = None  # fields never havocked (default: computed by scan)
    interface: bool = False
    doc: str = ""
    task_rely: Dict[str, List[Clause]] = field(default_factory=dict)
    task_inv: Dict[str, List[Clause]] = field(default_factory=dict)
    published_inv: List[Clause] = field(default_factory=list)
    task_stable: Dict[str, List[str]] = field(default_factory=dict)
    # lock field -> fields that are only written while that lock is held (checked syntactically,
    # see verify.lock_discipline): they keep their value across a suspension of the holder
    lock_protected: Dict[str, List[str]] = field(default_factory=dict)
    # lock field -> monitor invariant: holds whenever the lock is free (assumed on acquiring,
    # proved on releasing and at unit exit; neither proved nor assumed while the unit holds it)
    monitor_inv: Dict[str, List[Clause]] = field(default_factory=dict)
    # fields assigned at exactly one program point of the class outside __init__ (not in a loop):
    # once set they keep their value across suspensions (static obligation `write-once`)
    write_once: List[str] = field(default_factory=list)
    # a port (interface view of a repository class): the real class it stands for
    view_of: Optional[str] = None


@dataclass
class FnContract:
    qualname: str  # module:Class.method or module:function
    requires: List[Clause]
    ensures: List[Clause]
    raises: Dict[str, Optional[str]]  # exception class name -> condition text (None = may always)
    modifies: Optional[List[str]]
    effect: Optional[str]  # 'atomic' | 'yields' | None (= inferred when verifying, yields at calls)
    params: Dict[str, str]  # parameter name -> type
    returns: Optional[str]
    loops: Dict[int, Dict[str, Any]]  # loop ordinal -> {invariant: [...], ...}
    exceptional: str = "strict"  # 'strict': undeclared exception fails; 'app': allowed if nothing sent
    cases: Optional[Dict[str, List[str]]] = None  # parameter -> alternatives to split on at entry
    pure: bool = False
    inline: bool = False
    props: Tuple[str, ...] = ()
    assume_only: bool = False  # trusted contract (not verified against a body)
    trusted_reason: str = ""
    ghost_pre: List[str] = field(default_factory=list)  # ghost statements executed at entry
    ghost_post: List[str] = field(default_factory=list)
    raises_clauses: Dict[str, List[Clause]] = field(default_factory=dict)
    modifies_fields: Optional[List[str]] = None
    returns_expr: Optional[str] = None
    task: Optional[str] = None
    ghost_params: Dict[str, str] = field(default_factory=dict)
    assumed_ensures: List[Clause] = field(default_factory=list)
    ghost_on_raise: Dict[str, List[str]] = field(default_factory=dict)
    model_opts: Dict[str, Any] = field(default_factory=dict)
    # postconditions that are NOT proved: used only as the oracle of the bounded native falsifier
    # (pure functions); reported as a bounded stand-in, never counted as discharged
    oracle_ensures: List[Clause] = field(default_factory=list)


class Registry:
    def __init__(self) -> None:
        self.classes: Dict[str, ClassContract] = {}
        self.fns: Dict[str, FnContract] = {}
        self.lemmas: List[Dict[str, Any]] = []
        self.specfns: Dict[str, Dict[str, Any]] = {}
        self.obligation_props: Dict[str, Tuple[str, ...]] = {}

    # -- DSL ---------------------------------------------------------------------------------
    def cls(
        self,
        qualname: str,
        fields: Dict[str, str],
        ghost: Optional[Dict[str, str]] = None,
        inv: Optional[List[ClauseSrc]] = None,
        rely: Optional[List[ClauseSrc]] = None,
        callbacks: Optional[Dict[str, Callback]] = None,
        immutable: Optional[List[str]] = None,
        interface: bool = False,
        props: Tuple[str, ...] = (),
        task_rely: Optional[Dict[str, List[ClauseSrc]]] = None,
        task_inv: Optional[Dict[str, List[ClauseSrc]]] = None,
        published_inv: Optional[List[ClauseSrc]] = None,
        task_stable: Optional[Dict[str, List[str]]] = None,
        lock_protected: Optional[Dict[str, List[str]]] = None,
        monitor_inv: Optional[Dict[str, List[ClauseSrc]]] = None,
        write_once: Optional[List[str]] = None,
        view_of: Optional[str] = None,
    ) -> ClassContract:
        short = qualname.split(":")[1]
        c = ClassContract(
            qualname=qualname,
            fields=dict(fields),
            ghost=dict(ghost or {}),
            inv=mk_clauses(f"{short}.inv", inv, props),
            rely=mk_clauses(f"{short}.rely", rely, props),
            callbacks=dict(callbacks or {}),
            immutable=immutable,
            interface=interface,
            task_rely={t: mk_clauses(f"{short}.rely[{t}]", cs, props) for t, cs in (task_rely or {}).items()},
            task_inv={t: mk_clauses(f"{short}.inv[{t}]", cs, props) for t, cs in (task_inv or {}).items()},
            published_inv=mk_clauses(f"{short}.published", published_inv, props),
            task_stable=dict(task_stable or {}),
            lock_protected=dict(lock_protected or {}),
            monitor_inv={t: mk_clauses(f"{short}.monitor[{t}]", cs, props) for t, cs in (monitor_inv or {}).items()},
            write_once=list(write_once or []),
            view_of=view_of,
        )
        self.classes[qualname] = c
        return c

    def fn(
        self,
        qualname: str,
        requires: Optional[List[ClauseSrc]] = None,
        ensures: Optional[List[ClauseSrc]] = None,
        raises: Optional[Dict[str, Any]] = None,
        modifies: Optional[List[str]] = None,
        effect: Optional[str] = None,
        params: Optional[Dict[str, str]] = None,
        returns: Optional[str] = None,
        loops: Optional[Dict[int, Dict[str, Any]]] = None,
        exceptional: str = "strict",
        cases: Optional[Dict[str, List[str]]] = None,
        props: Tuple[str, ...] = (),
        assume_only: bool = False,
        trusted_reason: str = "",
        ghost_pre: Optional[List[str]] = None,
        ghost_post: Optional[List[str]] = None,
        returns_expr: Optional[str] = None,
        task: Optional[str] = None,
        ghost_params: Optional[Dict[str, str]] = None,
        assumed_ensures: Optional[List[ClauseSrc]] = None,
        ghost_on_raise: Optional[Dict[str, List[str]]] = None,
        inline: bool = False,
        model_opts: Optional[Dict[str, Any]] = None,
        oracle_ensures: Optional[List[ClauseSrc]] = None,
    ) -> FnContract:
        short = qualname.split(":")[1]
        rc: Dict[str, List[Clause]] = {}
        rs: Dict[str, Optional[str]] = {}
        for k, v in (raises or {}).items():
            if v is None or isinstance(v, str):
                rs[k] = v
                rc[k] = mk_clauses(f"{short}.raises.{k}", [v] if v else [], props)
            else:  # dict(when=..., ensures=[...])
                rs[k] = v.get("when")
                rc[k] = mk_clauses(f"{short}.raises.{k}", v.get("ensures", []), props)
        f = FnContract(
            qualname=qualname,
            requires=mk_clauses(f"{short}.pre", requires, props),
            ensures=mk_clauses(f"{short}.post", ensures, props),
            raises=rs,
            modifies=modifies,
            effect=effect,
            params=dict(params or {}),
            returns=returns,
            loops=dict(loops or {}),
            exceptional=exceptional,
            cases=cases,
            props=tuple(props),
            assume_only=assume_only,
            trusted_reason=trusted_reason,
            ghost_pre=list(ghost_pre or []),
            ghost_post=list(ghost_post or []),
            raises_clauses=rc,
            returns_expr=returns_expr,
            task=task,
            ghost_params=dict(ghost_params or {}),
            assumed_ensures=mk_clauses(f"{short}.assumed-post", assumed_ensures, props),
            ghost_on_raise=dict(ghost_on_raise or {}),
            inline=inline,
            model_opts=dict(model_opts or {}),
            oracle_ensures=mk_clauses(f"{short}.oracle", oracle_ensures, props),
        )
        for lo in f.loops.values():
            lo["invariant"] = mk_clauses(f"{short}.loopinv", lo.get("invariant"), props)
        self.fns[qualname] = f
        return f


REG = Registry()
cls = REG.cls
fn = REG.fn


def specfn(name: str, params: List[str], rec: str, base: str, step: str, returns: str) -> None:
    """a recursive specification function (a ghost function with `decreases rec`):
         name(params) == base                 if rec <= 0
         name(params) == step                 if rec >  0      (step may call name(.., rec - 1, ..))
    `base` and `step` are expressions of the clause language.  With concrete arguments the
    function is evaluated by recursion; with symbolic ones it is an uninterpreted z3 function and
    every application that a clause mentions is unfolded once (its defining equation is assumed)."""
    import ast as _ast

    REG.specfns[name] = {
        "name": name, "params": list(params), "rec": rec, "returns": returns,
        "base": _ast.parse(base, mode="eval").body, "step": _ast.parse(step, mode="eval").body,
        "base_text": base, "step_text": step,
    }


def load_contracts(directory: str) -> Registry:
    """(re)load every contracts/*.py file into the global registry"""
    import glob
    import importlib.util
    import os

    REG.classes.clear()
    REG.fns.clear()
    REG.specfns.clear()
    for path in sorted(glob.glob(os.path.join(directory, "*.py"))):
        name = "pyvc_contracts_" + os.path.basename(path)[:-3]
        spec = importlib.util.spec_from_file_location(name, path)
        mod = importlib.util.module_from_spec(spec)
        spec.loader.exec_module(mod)
    return REG
