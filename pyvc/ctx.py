"""Path context and path explorer.

The interpreter executes ONE path at a time.  Whenever it needs to fork it calls `ctx.choose(n)`;
the explorer re-executes the unit from the start with a longer decision prefix for every
alternative (functions here are short, so re-execution is cheap and the interpreter can use plain
mutable state).  A path ends normally, by `PathEnd` (infeasible / cut) or by an engine error.
"""
from __future__ import annotations

import time
from dataclasses import dataclass, field
from typing import Any, Callable, Dict, List, Optional, Tuple

import z3

import os as _os0

SOLVER_TIMEOUT_MS = int(_os0.environ.get('PYVC_SOLVER_TIMEOUT_MS', '10000'))
# z3's incremental sequence solver is unstable (the same query that a fresh solver answers in
# milliseconds can time out after push/pop history): the incremental solver gets a short budget and
# an `unknown` is re-asked of fresh, non-incremental solvers with the full budget and two seeds
_INCR_BAD: dict = {}  # unit -> number of paths on which the incremental solver gave up
INCR_TIMEOUT_MS = int(_os0.environ.get('PYVC_INCR_TIMEOUT_MS', '2500'))


class PathEnd(Exception):
    """this path is cut (assumption unsatisfiable, loop iteration finished, ...)"""


class Unsupported(Exception):
    """construct outside the subset: the unit is UNDECIDED, never a violation"""


class ContractError(Exception):
    """a contract / model is ill-formed: checker failure (exit 3)"""


@dataclass
class ObInstance:
    name: str  # obligation name, e.g. C08.bound.pop
    clause: str  # source text of the clause
    where: str  # function:line of the program point
    status: str  # 'unsat' (discharged) | 'sat' | 'unknown'
    path: Tuple[str, ...]  # decision labels of the path
    ms: float = 0.0
    model: Optional[Dict[str, Any]] = None
    backend: str = "z3"
    pc_size: int = 0
    note: str = ""
    smt2: Optional[str] = None
    props: Tuple[str, ...] = ()
    xcheck: str = ""  # thorough tier: what cvc5 said about an obligation z3 discharged ("agree" / "unknown" / "DISAGREE")


_COVERED: set = set()
# term id -> (term, answer); the term is kept alive so that its id cannot be reused
_SEQ_CACHE: Dict[int, Tuple[Any, bool]] = {}


CVC5_BIN = "/usr/bin/cvc5"
CVC5_TIMEOUT_MS = int(_os0.environ.get("PYVC_CVC5_TIMEOUT_MS", "20000"))


def sanitize_smt2(t: str) -> str:
    """z3's printer leaves symbols like x' unquoted and prints its internal seq.nth_i / seq.nth_u
    (in-bounds / out-of-bounds halves of seq.nth): make the text standard SMT-LIB"""
    import re

    names = set(re.findall(r"\(declare-(?:fun|const) ([^\s|()]+) ", t))
    bad = [n for n in names if not re.fullmatch(r"[A-Za-z0-9~!@$%^&*_\-+=<>.?/]+", n)]
    for n in sorted(bad, key=len, reverse=True):
        t = re.sub(r"(?<=[\s(])" + re.escape(n) + r"(?=[\s)])", "|" + n + "|", t)
    t = t.replace("seq.nth_i", "seq.nth").replace("seq.nth_u", "seq.nth")
    return t


def cvc5_check(smt2: str):
    """ask cvc5 (CLI, --strings-exp); returns z3.sat / z3.unsat or None (unknown, error, absent)"""
    import subprocess
    import tempfile

    if not _os0.path.exists(CVC5_BIN):
        return None
    try:
        with tempfile.NamedTemporaryFile("w", suffix=".smt2", delete=False) as f:
            f.write("(set-logic ALL)\n" + sanitize_smt2(smt2))
            path = f.name
        try:
            out = subprocess.run([CVC5_BIN, "--strings-exp", f"--tlimit={CVC5_TIMEOUT_MS}", path], capture_output=True, text=True, timeout=CVC5_TIMEOUT_MS / 1000 + 5)
        finally:
            _os0.unlink(path)
        first = (out.stdout.strip().splitlines() or [""])[0].strip()
        if first == "sat":
            return z3.sat
        if first == "unsat":
            return z3.unsat
    except Exception:
        return None
    return None


XCHECK_EVERY = int(_os0.environ.get("PYVC_XCHECK_EVERY", "7"))


def _want_xcheck(name: str, labels) -> bool:
    """thorough tier: a deterministic sample (about one instance in XCHECK_EVERY) of the
    obligations z3 discharges is re-asked of cvc5"""
    if _os0.environ.get("PYVC_TIER", "quick") != "thorough":
        return False
    import zlib

    return zlib.crc32((name + "|" + " ".join(labels)).encode()) % XCHECK_EVERY == 0


def has_seq(e) -> bool:
    """does the term mention a sequence/string sorted sub-term?  (decides which solver answers
    feasibility queries)"""
    if isinstance(e, bool):
        return False
    i = e.get_id()
    r = _SEQ_CACHE.get(i)
    if r is not None:
        return r[1]
    stack = [e]
    seen = set()
    found = False
    while stack:
        t = stack.pop()
        ti = t.get_id()
        if ti in seen:
            continue
        seen.add(ti)
        c = _SEQ_CACHE.get(ti)
        if c is not None:
            if c[1]:
                found = True
                break
            continue
        k = t.sort().kind()
        if k in (z3.Z3_SEQ_SORT, z3.Z3_RE_SORT):
            found = True
            break
        if z3.is_quantifier(t):
            stack.append(t.body())
        elif z3.is_app(t):
            stack.extend(t.children())
    if len(_SEQ_CACHE) > 50000:
        _SEQ_CACHE.clear()
    _SEQ_CACHE[i] = (e, found)
    return found


class Ctx:
    def __init__(self, prefix: List[int], unit: str = ""):
        self.unit = unit
        self.prefix = list(prefix)
        self.pos = 0
        self.decisions: List[int] = []
        self.labels: List[str] = []
        self.new_prefixes: List[List[int]] = []
        self.solver = z3.Solver()
        self.solver.set("timeout", INCR_TIMEOUT_MS)
        # `fast` holds only the assertions without string/sequence terms: it over-approximates the
        # path condition, so "unsat" from it is conclusive and "sat" merely means "explore it"
        self.fresh_retries = 0
        self.incr_bad = False
        self.seq_defs = []  # (sequence term, index -> element term): pointwise definitions
        self._last_fresh = None
        self.fast = z3.Solver()
        self.fast.set("timeout", SOLVER_TIMEOUT_MS)
        self.n_assumed = 0
        self.obligations: List[ObInstance] = []
        self.counter: Dict[str, int] = {}
        self.solver_ms = 0.0
        self.ghost: Dict[str, Any] = {}  # per-path ghost globals (traces, counters)
        self.inputs: Dict[str, Any] = {}  # named symbolic inputs (for model extraction)
        self.covers: Dict[str, bool] = {}
        self.notes: List[str] = []
        self.lits: Dict[bytes, Any] = {}  # payload literals seen on this path
        self.known_region: Optional[Callable] = None
        self.assumptions_used: set = set()
        # quantifier handling by instantiation over index terms (array property fragment)
        self.keys: List[Any] = []
        self.key_ids: set = set()
        self.qfacts: List[Callable] = []
        self.seq_facts: List[Tuple[Any, Callable]] = []
        self.str_proxies: Dict[int, Dict[str, Any]] = {}

    # ------------------------------------------------------------------ fresh names
    def fresh_name(self, base: str) -> str:
        k = self.counter.get(base, 0)
        self.counter[base] = k + 1
        return f"{base}!{k}" if k else base

    def fresh(self, base: str, sort):
        return z3.Const(self.fresh_name(base), sort)

    def str_eq_lit(self, var, lit: str):
        """(var == lit) for an uninterpreted string constant and a literal, as a Bool proxy that the
        string-free solver can branch on (proxies of one variable are mutually exclusive)"""
        d = self.str_proxies.setdefault(var.get_id(), {})
        if lit in d:
            return d[lit]
        p = z3.Bool(f"{var}=={lit!r}")
        self.solver.add(p == (var == z3.StringVal(lit)))
        for other in d.values():
            self.fast.add(z3.Not(z3.And(p, other)))
        d[lit] = p
        return p

    def add_key(self, term) -> None:
        """`term` (an Int) may be used as a map / array index: instantiate every universally
        quantified fact assumed so far for it"""
        if isinstance(term, int):
            term = z3.IntVal(term)
        i = term.get_id()
        if i in self.key_ids:
            return
        self.key_ids.add(i)
        self.keys.append(term)
        for f in self.qfacts:
            self.assume(f(term), "forall instance")

    def assume_forall(self, body: Callable) -> None:
        """assume (forall k: Int. body(k)) -- by instantiation at all current and future keys"""
        self.qfacts.append(body)
        for k in list(self.keys):
            self.assume(body(k), "forall instance")

    # ------------------------------------------------------------------ forking
    def choose(self, n: int, label: str = "", names: Optional[List[str]] = None) -> int:
        assert n >= 1
        if n == 1:
            return 0
        if self.pos < len(self.prefix):
            k = self.prefix[self.pos]
        else:
            k = 0
            base = self.decisions[:]
            for alt in range(1, n):
                self.new_prefixes.append(base + [alt])
        self.pos += 1
        self.decisions.append(k)
        self.labels.append(f"{label}={names[k] if names else k}")
        return k

    def check(self, *extra) -> z3.CheckSatResult:
        """feasibility query.  Without string terms in `extra` the string-free solver answers
        (it over-approximates: exploring an infeasible path is harmless, its obligations are
        discharged by the full solver); `check_full` is used where exactness matters."""
        if not extra or not any(has_seq(x) for x in extra):
            return self.check_fast(*extra)
        return self.check_full(*extra)

    def check_full(self, *extra) -> z3.CheckSatResult:
        t0 = time.perf_counter()
        import os as _os1

        if _os1.environ.get("PYVC_DUMP_LAST"):
            with open(_os1.environ["PYVC_DUMP_LAST"], "w") as f:
                f.write(f"; extra={extra}\n{self.solver.to_smt2()}\n")
        if self.incr_bad or _INCR_BAD.get(self.unit, 0) >= 2:
            r = self._fresh_check(extra)
        else:
            r = self.solver.check(*extra)
            if r == z3.unknown:
                self._mark_incr_bad()
                r = self._fresh_check(extra)
        dt = (time.perf_counter() - t0) * 1000
        self.solver_ms += dt
        import os as _os

        if dt > 1500 and _os.environ.get("PYVC_DUMP_SLOW"):
            with open(_os.environ["PYVC_DUMP_SLOW"], "a") as f:
                f.write(f"; ---- slow check {dt:.0f} ms result {r} extra={extra}\n{self.solver.to_smt2()}\n")
        return r

    def _mark_incr_bad(self) -> None:
        if not self.incr_bad:
            self.incr_bad = True
            _INCR_BAD[self.unit] = _INCR_BAD.get(self.unit, 0) + 1

    def _fresh_check(self, extra) -> z3.CheckSatResult:
        r = z3.unknown
        for seed, budget in ((0, SOLVER_TIMEOUT_MS), (7, 2 * SOLVER_TIMEOUT_MS)):
            s = z3.Solver()
            s.set("timeout", budget)
            s.set("random_seed", seed)
            s.add(*self.solver.assertions())
            for e in extra:
                s.add(e)
            self._last_fresh = s
            r = s.check()
            self.fresh_retries += 1
            if r != z3.unknown:
                break
        return r

    def check_fast(self, *extra) -> z3.CheckSatResult:
        t0 = time.perf_counter()
        r = self.fast.check(*extra)
        self.solver_ms += (time.perf_counter() - t0) * 1000
        return r

    def assume(self, cond, why: str = "") -> None:
        """add to the path condition; cut the path if it becomes unsatisfiable"""
        if isinstance(cond, bool):
            if not cond:
                raise PathEnd(f"assume False {why}")
            return
        cond = z3.simplify(cond)
        if z3.is_true(cond):
            return
        if z3.is_false(cond):
            raise PathEnd(f"assume False {why}")
        self._add(cond)

    def _add(self, cond) -> None:
        self.solver.add(cond)
        if not has_seq(cond):
            self.fast.add(cond)
        self.n_assumed += 1

    def assume_checked(self, cond, why: str = "") -> None:
        self.assume(cond, why)
        if self.check() == z3.unsat:
            raise PathEnd(f"infeasible after assume {why}")

    def feasible(self, cond) -> bool:
        """may `cond` hold on this path?  unknown counts as feasible (sound for proofs)"""
        if isinstance(cond, bool):
            return cond
        r = self.check_full(cond) if has_seq(cond) else self.check_fast(cond)
        return r != z3.unsat

    def decided(self, cond):
        """True / False if the path condition (its string-free part) decides cond, else None"""
        if has_seq(cond):
            return None
        if self.check_fast(cond) == z3.unsat:
            return False
        if self.check_fast(z3.Not(cond)) == z3.unsat:
            return True
        return None

    def branch(self, cond, label: str = "") -> bool:
        """decide a symbolic condition: returns the python bool taken on this path"""
        if isinstance(cond, bool):
            return cond
        cond = z3.simplify(cond)
        if z3.is_true(cond):
            return True
        if z3.is_false(cond):
            return False
        if has_seq(cond):
            can_t = self.check_full(cond) != z3.unsat
            can_f = self.check_full(z3.Not(cond)) != z3.unsat
        else:
            can_t = self.check_fast(cond) != z3.unsat
            can_f = self.check_fast(z3.Not(cond)) != z3.unsat
        if can_t and can_f:
            k = self.choose(2, label, ["T", "F"])
            taken = k == 0
        elif can_t:
            taken = True
        elif can_f:
            taken = False
        else:
            raise PathEnd("path condition unsatisfiable")
        self._add(cond if taken else z3.Not(cond))
        return taken

    # ------------------------------------------------------------------ obligations
    def prove(self, name: str, cond, clause: str, where: str, note: str = "", assume_after=True, props=()):
        if isinstance(cond, bool):
            cond = z3.BoolVal(cond)
        pn = getattr(self, "pending_note", None)
        if pn:
            note = f"{note}; {pn}" if note else pn
            self.pending_note = None
        t0 = time.perf_counter()
        if self.known_region is None and not has_seq(cond):
            # the string-free part of the path condition often suffices (unsat there is unsat)
            self.fast.push()
            self.fast.add(z3.Not(cond))
            r0 = self.fast.check()
            self.fast.pop()
            if r0 == z3.unsat:
                xc = ""
                if _want_xcheck(name, self.labels):
                    self.fast.push()
                    self.fast.add(z3.Not(cond))
                    r2 = cvc5_check(self.fast.to_smt2())
                    self.fast.pop()
                    xc = "agree" if r2 == z3.unsat else ("DISAGREE" if r2 == z3.sat else "unknown")
                ms = (time.perf_counter() - t0) * 1000
                self.solver_ms += ms
                self.obligations.append(ObInstance(name=name, clause=clause, where=where, status="unsat", path=tuple(self.labels), ms=ms, pc_size=self.n_assumed, note=note, props=tuple(props), xcheck=xc))
                if assume_after:
                    self.assume(cond, "after prove")
                return "unsat"
        self.solver.push()
        self.solver.add(z3.Not(cond))
        if self.known_region is not None:
            extra = self.known_region(name)
            for e in extra:
                self.solver.add(e)
        if self.incr_bad or _INCR_BAD.get(self.unit, 0) >= 2:
            r = self._fresh_check(())
            model_solver = self._last_fresh
        else:
            r = self.solver.check()
            model_solver = self.solver
            if r == z3.unknown:
                self._mark_incr_bad()
                r = self._fresh_check(())
                model_solver = self._last_fresh
        backend = "z3"
        if r == z3.unknown:
            # z3 (incremental and two fresh attempts) gave up: second back end
            r2 = cvc5_check(self.solver.to_smt2())
            if r2 is not None:
                r = r2
                backend = "cvc5"
        model = None
        smt2 = None
        if r == z3.sat and backend == "cvc5":
            model = {}
        elif r == z3.sat:
            try:
                m = model_solver.model()
                model = self._model_inputs(m)
            except z3.Z3Exception:
                model = {}
        if r != z3.unsat:
            try:
                smt2 = self.solver.to_smt2()
            except Exception:
                smt2 = None
        xc = ""
        if r == z3.unsat and backend == "z3" and _want_xcheck(name, self.labels):
            r2 = cvc5_check(self.solver.to_smt2())
            xc = "agree" if r2 == z3.unsat else ("DISAGREE" if r2 == z3.sat else "unknown")
        import os as _os2

        if _os2.environ.get("PYVC_DUMP_SLOW") and (time.perf_counter() - t0) > 1.5:
            with open(_os2.environ["PYVC_DUMP_SLOW"], "a") as f:
                f.write(f"; ---- slow prove {name} {(time.perf_counter() - t0)*1000:.0f} ms result {r} path={' '.join(self.labels)}\n{self.solver.to_smt2()}\n")
        self.solver.pop()
        ms = (time.perf_counter() - t0) * 1000
        self.solver_ms += ms
        status = "unsat" if r == z3.unsat else ("sat" if r == z3.sat else "unknown")
        self.obligations.append(
            ObInstance(
                name=name,
                clause=clause,
                where=where,
                status=status,
                path=tuple(self.labels),
                ms=ms,
                model=model,
                backend=backend,
                xcheck=xc,
                pc_size=self.n_assumed,
                note=note,
                smt2=smt2 if status != "unsat" else None,
                props=tuple(props),
            )
        )
        # a failed obligation is reported, not assumed: assuming a clause the state contradicts ends
        # the path and would hide every later failure on it (session 3: a genuine defect sat behind
        # a recorded finding that way).  PYVC_ASSUME_FAILED=1 restores the old behaviour.
        if assume_after and (status == "unsat" or _os0.environ.get("PYVC_ASSUME_FAILED")):
            self.assume(cond, "after prove")
        return status

    def cover(self, name: str) -> None:
        """record that program point `name` is reached on a feasible path (vacuity guard)"""
        if self.covers.get(name) or (self.unit, name) in _COVERED:
            self.covers[name] = True
            return
        self.covers[name] = self.check_full() == z3.sat
        if self.covers[name]:
            _COVERED.add((self.unit, name))

    def _model_inputs(self, m) -> Dict[str, Any]:
        out: Dict[str, Any] = {}
        for name, term in self.inputs.items():
            try:
                v = m.eval(term, model_completion=True)
                if z3.is_int_value(v):
                    out[name] = v.as_long()
                elif z3.is_true(v) or z3.is_false(v):
                    out[name] = z3.is_true(v)
                elif z3.is_string_value(v):
                    out[name] = v.as_string()
                else:
                    out[name] = str(v)
            except Exception as e:  # pragma: no cover
                out[name] = f"<{e}>"
        return out


@dataclass
class UnitResult:
    unit: str
    paths: int = 0
    cut_paths: int = 0
    obligations: List[ObInstance] = field(default_factory=list)
    undecided: List[str] = field(default_factory=list)
    errors: List[str] = field(default_factory=list)
    solver_ms: float = 0.0
    wall_s: float = 0.0
    covers: Dict[str, bool] = field(default_factory=dict)
    assumptions: List[str] = field(default_factory=list)
    functions: List[Dict[str, Any]] = field(default_factory=list)
    pending: List[List[int]] = field(default_factory=list)

    def merge(self, other: "UnitResult") -> None:
        self.paths += other.paths
        self.cut_paths += other.cut_paths
        self.obligations.extend(other.obligations)
        self.undecided.extend(other.undecided)
        self.errors.extend(other.errors)
        self.solver_ms += other.solver_ms
        for k, v in other.covers.items():
            self.covers[k] = self.covers.get(k, False) or v
        self.assumptions = sorted(set(self.assumptions) | set(other.assumptions))


MAX_PATHS = 4000


def explore(unit: str, run: Callable[[Ctx], None], region=None, work=None, split_after: Optional[int] = None) -> UnitResult:
    """run `run(ctx)` once per path until every decision vector is explored.  With `split_after`
    the exploration stops after that many paths and leaves the unexplored decision prefixes in
    res.pending (they are farmed out to other processes)."""
    import traceback

    res = UnitResult(unit=unit)
    t0 = time.perf_counter()
    work = [list(w) for w in work] if work is not None else [[]]
    assumptions: set = set()
    import os as _os

    budget = float(_os.environ.get("PYVC_UNIT_BUDGET", "480"))
    trace = _os.environ.get("PYVC_TRACE")
    while work:
        if time.perf_counter() - t0 > budget:
            res.undecided.append(f"{unit}: exploration exceeded {budget:.0f} s after {res.paths + res.cut_paths} paths")
            break
        if split_after is not None and res.paths + res.cut_paths >= split_after and len(work) >= 2:
            res.pending = work
            break
        prefix = work.pop()
        ctx = Ctx(prefix, unit)
        ctx.known_region = region
        try:
            run(ctx)
            res.paths += 1
        except PathEnd as _pe:
            if trace:
                print(f"   [cut: {_pe}]", flush=True)
            if any(o.status != "unsat" for o in ctx.obligations):
                # cut by assuming an obligation that failed: the path itself was feasible
                res.paths += 1
            else:
                res.cut_paths += 1
        except Unsupported as e:
            res.undecided.append(f"{unit}: unsupported: {e} [path {' '.join(ctx.labels)}]")
        except ContractError as e:
            res.errors.append(f"{unit}: contract error: {e}")
        except RecursionError as e:
            res.errors.append(f"{unit}: recursion error {e}")
        except KeyError as e:
            if "no such function in" in str(e):
                # a function under contract no longer exists in this tree: undecided (the contract
                # has to follow the code), never a violation and not a checker failure
                res.undecided.append(f"{unit}: function under contract no longer exists: {e}")
            else:
                res.errors.append(f"{unit}: engine error: {e!r}\n{traceback.format_exc()}")
        except Exception as e:  # engine bug: checker failure, never a violation
            res.errors.append(f"{unit}: engine error: {e!r}\n{traceback.format_exc()}")
        if trace:
            print(f"[path {res.paths + res.cut_paths} {time.perf_counter() - t0:.1f}s solver {ctx.solver_ms:.0f}ms] {' '.join(ctx.labels)[-300:]}", flush=True)
        res.obligations.extend(ctx.obligations)
        res.solver_ms += ctx.solver_ms
        for k, v in ctx.covers.items():
            res.covers[k] = res.covers.get(k, False) or v
        assumptions |= ctx.assumptions_used
        work.extend(ctx.new_prefixes)
        if res.paths + res.cut_paths > MAX_PATHS:
            res.undecided.append(f"{unit}: more than {MAX_PATHS} paths")
            break
        if len(res.errors) > 3:
            break
    res.assumptions = sorted(assumptions)
    res.wall_s = time.perf_counter() - t0
    return res
