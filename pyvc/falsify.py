"""Native falsifier: random search of the real function's input space with the failed clause as
oracle (used when a counter-model does not concretise).  Seeded by VERIF_SEED."""
from __future__ import annotations

import os
import random
from typing import Any, Dict

from .replay import CannotReplay, native_replay


def random_model(unit: str, rng: random.Random, base: Dict[str, Any]) -> Dict[str, Any]:
    m = dict(base)
    for k, v in list(m.items()):
        if isinstance(v, bool):
            m[k] = rng.random() < 0.5
        elif isinstance(v, int):
            m[k] = rng.choice([0, 1, 2, v, v + 1, max(0, v - 1), rng.randrange(0, 70000), 16384, 32768, 32769])
    return m


def falsify(unit: str, ob, tries: int = 300) -> Dict[str, Any]:
    if not ob.model:
        raise CannotReplay("no model to start from")
    rng = random.Random(int(os.environ.get("VERIF_SEED", "0") or 0))
    last = None
    for i in range(tries):
        m = random_model(unit, rng, ob.model)
        out = native_replay(unit, ob, model=m)
        last = out
        if out.get("clause_violated"):
            out["tries"] = i + 1
            return out
    return {"clause_violated": False, "tries": tries, "last": last}
