"""Native falsifier: search of the real function's input space with the unit's own clauses as
oracle.  Two modes, both seeded by VERIF_SEED and both running the *real* function under CPython:

 * falsify(unit, ob): perturb the integers / booleans of the solver's counter-model (used when the
   counter-model itself does not concretise);
 * falsify_typed(unit, prop): type-directed random inputs for units whose parameters are plain
   values (ints, strings, header lists ...).  Every postcondition of the unit that is tagged with
   the property is evaluated concretely on the real result.  Used when the failed obligation has no
   usable model (a loop invariant that is no longer defined, a solver `unknown`): a hit is a real
   failing input, a miss proves nothing and is reported as such.
"""
from __future__ import annotations

import ast
import os
import random
from typing import Any, Dict, List, Optional

from .replay import CannotReplay, native_replay


def random_model(unit: str, rng: random.Random, base: Dict[str, Any]) -> Dict[str, Any]:
    m = dict(base)
    for k, v in list(m.items()):
        if isinstance(v, bool):
            m[k] = rng.random() < 0.5
        elif isinstance(v, int):
            m[k] = rng.choice([0, 1, 2, v, v + 1, max(0, v - 1), rng.randrange(0, 70000), 16384, 32768, 32769])
    return m


def falsify(unit: str, ob, tries: int = 300) -> Dict[str, Any]:
    if not ob.model:
        raise CannotReplay("no model to start from")
    rng = random.Random(int(os.environ.get("VERIF_SEED", "0") or 0))
    last = None
    for i in range(tries):
        m = random_model(unit, rng, ob.model)
        out = native_replay(unit, ob, model=m)
        last = out
        if out.get("clause_violated"):
            out["tries"] = i + 1
            return out
    return {"clause_violated": False, "tries": tries, "last": last}


# ------------------------------------------------------------------------------------------------
class Gen:
    """type-directed random values; string material is taken from the literals of the function"""

    def __init__(self, rng: random.Random, literals: List[Any]):
        self.rng = rng
        self.strs = sorted({x for x in literals if isinstance(x, str) and len(x) < 40}) or ["a"]
        self.bstrs = sorted({x for x in literals if isinstance(x, bytes) and len(x) < 40}) or [b"a"]
        self.ints = sorted({x for x in literals if isinstance(x, int) and not isinstance(x, bool)} | {0, 1, 2, 3})
        self.shared: List[bytes] = []  # byte strings already generated for this input (reused as names)

    def text(self, pool: List[str]) -> str:
        r = self.rng
        parts = []
        for _ in range(r.choice([0, 1, 1, 2, 3, 4])):
            parts.append(r.choice(pool + ["a", "b", "x1", " ", ",", ", ", "A", "10.0.0.1", "=", ";"]))
        s = "".join(parts)
        if r.random() < 0.2:
            s = s.upper()
        return s

    def value(self, ty: str, name: str = "") -> Any:
        from .rules import TYPE_ALIASES, _split_top

        r = self.rng
        ty = TYPE_ALIASES.get(ty.strip(), ty.strip())
        alts = _split_top(ty, "|")
        if len(alts) > 1:
            return self.value(r.choice(alts), name)
        if ty in ("int", "nat"):
            return r.choice(self.ints + [r.randrange(0, 6)])
        if ty == "bool":
            return r.random() < 0.5
        if ty == "str":
            return self.text(self.strs)
        if ty == "bstr":
            if self.shared and r.random() < 0.5:
                b = r.choice(self.shared)
                return b.upper() if r.random() < 0.2 else b
            b = self.text([x.decode("latin-1") for x in self.bstrs]).encode("latin-1")
            self.shared.append(b)
            return b
        if ty == "none":
            return None
        if ty.startswith("opt "):
            return None if r.random() < 0.3 else self.value(ty[4:], name)
        if ty == "hdrs":
            return [(self.value("bstr"), self.value("bstr")) for _ in range(r.choice([0, 1, 2, 2, 3, 4]))]
        if ty in ("strs", "bstrs"):
            return [self.value(ty[:-1]) for _ in range(r.choice([0, 1, 2, 3]))]
        if ty.startswith("const "):
            return eval(ty[6:], {"__builtins__": {}}, {})
        if ty.startswith("dict{"):
            d = {}
            for kv in _split_top(ty[5:-1], ";"):
                if kv:
                    k, v = kv.split(":", 1)
                    d[k.strip()] = self.value(v.strip(), k.strip())
            return d
        if ty.startswith("tuple("):
            return tuple(self.value(t) for t in _split_top(ty[6:-1], ";") if t)
        if ty == "bytes":
            return self.value("bstr")
        raise CannotReplay(f"type {ty} has no native generator")


def _literals(node) -> List[Any]:
    return [n.value for n in ast.walk(node) if isinstance(n, ast.Constant)]


def falsify_typed(unit: str, prop: Optional[str], tries: int = 400) -> Dict[str, Any]:
    from .contracts import REG
    from .ctx import Ctx
    from .replay import Builder
    from .source import find_def
    from .verify import Interp

    fc = REG.fns[unit]
    mi, node = find_def(unit)
    local = unit.split(":")[1]
    if fc.model_opts.get("native_oracle") is not None and fc.model_opts.get("native_args") is not None:
        import asyncio as _aio

        if _aio.iscoroutinefunction(fn0_probe(mi.module, local)):
            raise CannotReplay("native oracle handles synchronous functions only")
        # the contract brings its own generator of real arguments (objects of repository classes)
        # and an executable statement of the property: bounded native search, nothing else
        fn0 = mi.module
        for part_ in local.split("."):
            fn0 = getattr(fn0, part_)
        rng0 = random.Random(int(os.environ.get("VERIF_SEED", "0") or 0) * 7919 + 23)
        ran0 = 0
        for i in range(tries):
            a0 = fc.model_opts["native_args"](rng0)
            e0 = None
            try:
                r0 = fn0(**{k_: v_ for k_, v_ in a0.items() if not k_.startswith("_")})
            except Exception as ex:  # the oracle also judges what holds when the function raises
                r0, e0 = None, ex
            ran0 += 1
            if not fc.model_opts["native_oracle"](a0, r0, e0):
                return {"clause_violated": True, "violated_clause": fc.model_opts.get("native_oracle_name", "native-oracle"), "clause": (fc.model_opts["native_oracle"].__doc__ or "").strip(),
                        "tries": i + 1, "inputs": {k: _show(v) for k, v in a0.items() if k not in ("_box", "_sent")}, "result": repr(r0) if e0 is None else "raised " + repr(e0),
                        "how": "arguments from the contract's own generator run on the real function; the contract's executable oracle evaluated on the real result"}
        return {"clause_violated": False, "tries": tries, "executed": ran0}
    if "." in local:
        raise CannotReplay("typed falsifier handles module level functions only")
    if not (fc.modifies == [] and fc.effect == "atomic"):
        # only functions declared pure (no frame, no suspension) are safe and meaningful to run natively
        raise CannotReplay("typed falsifier handles functions declared pure (modifies=[], effect='atomic') only")
    names = [p.arg for p in node.args.posonlyargs + node.args.args + node.args.kwonlyargs]
    for p in names:
        if p not in fc.params:
            raise CannotReplay(f"parameter {p} has no declared type")
    fn = getattr(mi.module, local)
    import asyncio

    if asyncio.iscoroutinefunction(fn):
        raise CannotReplay("typed falsifier handles synchronous functions only")
    rng = random.Random(int(os.environ.get("VERIF_SEED", "0") or 0) * 7919 + 17)
    from .rules import clause_mentions_traces

    clauses = [cl for cl in list(fc.ensures) + list(fc.oracle_ensures) if (not prop or not cl.props or prop in cl.props) and not clause_mentions_traces(cl) and "local(" not in cl.text]
    if not clauses:
        raise CannotReplay("no postcondition to use as oracle")
    B = Builder({})
    ran = 0
    for i in range(tries):
        g = Gen(rng, _literals(node))
        try:
            args = {p: g.value(fc.params[p], p) for p in names}
        except CannotReplay:
            raise
        ctx = Ctx([], unit)
        interp = Interp(ctx, REG)
        interp.unit_module = mi
        interp.unit_name = local
        pre_env = {p: B.reflect_value(v, interp) for p, v in args.items()}
        try:
            if not all(_concrete_bool(interp.spec_eval(cl, dict(pre_env), None, mi)) for cl in fc.requires):
                continue
        except Exception:
            continue
        import copy

        real_args = copy.deepcopy(args)
        try:
            result = fn(**real_args)
        except Exception as e:  # an exception is judged by the no-unexpected-exception obligation
            continue
        ran += 1
        post_env = {p: B.reflect_value(v, interp) for p, v in real_args.items()}
        post_env["result"] = B.reflect_value(result, interp)
        for cl in clauses:
            try:
                v = _concrete_bool(interp.spec_eval(cl, dict(post_env), pre_env, mi))
            except Exception:
                continue
            if v is False:
                return {
                    "clause_violated": True, "violated_clause": cl.name, "clause": cl.text, "tries": i + 1,
                    "inputs": {k: repr(v_) for k, v_ in args.items()}, "result": repr(result),
                    "how": "type-directed random inputs run on the real function; the clause evaluated concretely on the real result",
                }
    return {"clause_violated": False, "tries": tries, "executed": ran}


def _concrete_bool(v):
    import z3

    from .sym import SymBool

    if isinstance(v, bool):
        return v
    if isinstance(v, SymBool):
        s = z3.simplify(v.e)
        if z3.is_true(s):
            return True
        if z3.is_false(s):
            return False
        raise ValueError("not concrete")
    return bool(v)


def _show(v):
    d = getattr(v, "__dict__", None)
    if d and not isinstance(v, type):
        return type(v).__name__ + "(" + ", ".join(f"{k}={x!r}" for k, x in list(d.items())[:8] if k in ("headers", "server_names", "_server_names", "method", "raw_path")) + ")"
    return repr(v)


def fn0_probe(module, local):
    f = module
    for part_ in local.split("."):
        f = getattr(f, part_)
    return f


# ------------------------------------------------------------------------------------------------
class RandomModel(dict):
    """a 'model' that answers every question the Builder asks with a random value of the asked type
    (memoised, so that one input is consistent)"""

    def __init__(self, rng):
        super().__init__()
        self.rng = rng

    def get(self, k, default=None):
        if k not in self:
            r = self.rng
            if isinstance(default, bool):
                self[k] = r.random() < 0.5
            elif isinstance(default, int):
                self[k] = r.choice([0, 0, 1, 2, 3, 7, 100, 16383, 16384, 16385, 32767, 32768, 32769, 40000, r.randrange(0, 70000)])
            elif isinstance(default, str):
                self[k] = r.choice(["", "a", "HEAD", "GET", "x-y", "A b", ":", "13", "websocket"])
            else:
                self[k] = default
        return self[k]


def crosscheck_unit(unit: str, proved_names, tries: int = 60) -> Dict[str, Any]:
    """Encoder cross-check (thorough tier): the unit's *proved* postconditions are evaluated on
    real executions of the real function under CPython, on random inputs that satisfy its
    preconditions.  A proved clause that is false on a real run means the encoding (or the clause
    evaluator) does not describe CPython: the checker is wrong, never the code (exit 3)."""
    from .contracts import REG
    from .rules import clause_mentions_traces

    fc = REG.fns[unit]
    local = unit.split(":")[1]
    out = {"unit": unit, "executed": 0, "clauses": 0, "disagreements": []}
    rng = random.Random(int(os.environ.get("VERIF_SEED", "0") or 0) * 104729 + sum(map(ord, unit)))
    clauses = [cl for cl in fc.ensures if f"{local}.{cl.name}" in proved_names and not clause_mentions_traces(cl) and "local(" not in cl.text and "call_" not in cl.text]
    if "." not in local and fc.modifies == [] and fc.effect == "atomic":
        # module level pure function: type-directed inputs (strings, header lists ...)
        try:
            r = falsify_typed(unit, None, tries=tries * 3)
        except CannotReplay as e:
            out["skipped"] = str(e)
            return out
        out["executed"] = r.get("executed", r.get("tries", 0))
        out["clauses"] = len(clauses)
        if r.get("clause_violated") and f"{local}.{r.get('violated_clause')}" in proved_names:
            out["disagreements"].append({"clause": r.get("violated_clause"), "inputs": r.get("inputs"), "result": r.get("result")})
        return out
    if fc.effect != "atomic":
        out["skipped"] = "not declared atomic: never run natively"
        return out

    class Ob:
        pass

    for cl in clauses:
        ran = 0
        for _ in range(tries):
            ob = Ob()
            ob.name = f"{local}.{cl.name}"
            try:
                r = native_replay(unit, ob, model=RandomModel(rng), check_pre=True)
            except CannotReplay as e:
                out.setdefault("skipped_clauses", {})[cl.name] = str(e)[:160]
                break
            except Exception as e:  # the harness, not the code
                out.setdefault("skipped_clauses", {})[cl.name] = "harness: " + repr(e)[:160]
                break
            if r.get("skipped"):
                continue
            ran += 1
            if r.get("clause_violated"):
                out["disagreements"].append({"clause": cl.name, "inputs": r.get("inputs"), "outcome": r.get("outcome"), "result": r.get("result")})
                break
        if ran:
            out["clauses"] += 1
            out["executed"] += ran
    return out
