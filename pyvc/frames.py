"""Frame inference: a syntactic over-approximation of what a method may write, used at call sites
of callees whose contract declares no `modifies`.

  may_write(cls, method) -> Frame(fields, deep, unknown)
    fields   names X such that the method (or a method of the same object it calls) may store
             self.X / self.X[...] / del self.X[...]
    deep     names X such that the object(s) held in self.X may themselves be mutated (a store
             through self.X.<attr>, a method call on self.X / self.X[k] / a local alias of them)
    unknown  something the analysis does not understand (setattr, writes through an alias it
             cannot trace back to a field of self): the caller falls back to "anything reachable"

Aliases are followed for plain local names bound from expressions rooted at self.<X>.  Calls on
callbacks (fields declared as callbacks in the class contract) write nothing themselves: what the
outside world does while they run is the business of the yield rule."""
from __future__ import annotations

import ast
from dataclasses import dataclass, field
from typing import Dict, Optional, Set

from .source import method_def


@dataclass
class FrameInfo:
    fields: Set[str] = field(default_factory=set)
    deep: Set[str] = field(default_factory=set)
    unknown: bool = False
    why: str = ""

    def merge(self, o: "FrameInfo"):
        self.fields |= o.fields
        self.deep |= o.deep
        if o.unknown and not self.unknown:
            self.unknown, self.why = True, o.why


_CACHE: Dict[tuple, FrameInfo] = {}

# methods that do not mutate their receiver (containers / values)
PURE_METHODS = {
    "get", "items", "keys", "values", "copy", "is_set", "decode", "encode", "lower", "upper", "strip", "split", "startswith", "endswith", "partition",
    "format", "join", "count", "index", "getvalue", "idle", "time", "done", "raw_items", "is_valid", "to_message", "complete", "selected_alpn_protocol",
    "get_extra_info", "at_eof", "getpeername", "getsockname", "response_headers", "isinstance",
}


def _root_field(e) -> Optional[str]:
    """X if the expression is rooted at self.X (self.X, self.X[k], self.X.y, self.X[k].y ...)"""
    while isinstance(e, (ast.Attribute, ast.Subscript, ast.Call, ast.Await)):
        if isinstance(e, ast.Attribute) and isinstance(e.value, ast.Name) and e.value.id == "self":
            return e.attr
        e = e.value if not isinstance(e, ast.Call) else e.func
    return None


def _field_class(reg, cc, attr):
    """qualified class name of the object a declared field holds, if it is a single class"""
    if cc is None:
        return None
    t = cc.fields.get(attr)
    if t is None:
        return None
    t = {"Event": "obj hypercorn.typing:Event"}.get(t, t)
    for pre in ("opt ", "maybe "):
        if t.startswith(pre):
            t = t[len(pre):]
    if t.startswith("obj ") and "|" not in t:
        return t[4:].strip()
    return None


def _callee_is_pure(reg, cc, recv, meth) -> bool:
    """self.a.b.m(...): resolve the receiver's class through the declared field types; pure iff the
    method has a contract that declares an empty frame"""
    chain = []
    e = recv
    while isinstance(e, ast.Attribute):
        chain.append(e.attr)
        e = e.value
    if not (isinstance(e, ast.Name) and e.id == "self"):
        return False
    qual = None
    cur = cc
    for a in reversed(chain):
        qual = _field_class(reg, cur, a)
        if qual is None:
            return False
        cur = reg.classes.get(qual)
    if qual is None:
        return False
    fc = reg.fns.get(f"{qual}.{meth}")
    if fc is None:
        # along the MRO of a real class
        try:
            from .source import class_of

            for k in class_of(qual).__mro__:
                fc = reg.fns.get(f"{k.__module__}:{k.__qualname__}.{meth}")
                if fc is not None:
                    break
        except Exception:
            fc = None
    return fc is not None and fc.modifies is not None and len(fc.modifies) == 0


def may_write(reg, cls, name: str, stack=()) -> FrameInfo:
    key = (cls, name)
    if key in _CACHE:
        return _CACHE[key]
    if key in stack:
        return FrameInfo()  # recursion: the fixed point is reached through the outer call
    md = method_def(cls, name) if isinstance(cls, type) else None
    if md is None:
        out = FrameInfo()
        out.unknown, out.why = True, f"no source for {getattr(cls, '__name__', cls)}.{name}"
        return out
    mi, node, owner = md
    out = _analyse(reg, cls, node, name, stack + (key,))
    _CACHE[key] = out
    return out


def block_may_write(reg, cls, stmts, label="block") -> FrameInfo:
    """the same analysis for a list of statements of a method of `cls` (a loop body)"""
    if not isinstance(cls, type):
        out = FrameInfo()
        out.unknown, out.why = True, "not a repository class"
        return out
    return _analyse(reg, cls, ast.Module(body=list(stmts), type_ignores=[]), label, ())


def _analyse(reg, cls, node, name, stack) -> FrameInfo:
    out = FrameInfo()
    key = None
    cc = None
    for k in cls.__mro__:
        cc = reg.classes.get(f"{k.__module__}:{k.__qualname__}")
        if cc is not None:
            break
    callbacks = set(cc.callbacks) if cc is not None else set()
    alias: Dict[str, str] = {}

    def note_alias(target, value):
        if isinstance(target, ast.Name):
            r = _root_field(value)
            if r is not None:
                alias[target.id] = r
            elif isinstance(value, ast.Name) and value.id in alias:
                alias[target.id] = alias[value.id]
            else:
                alias.pop(target.id, None)

    def store(t):
        # a store target
        if isinstance(t, (ast.Tuple, ast.List)):
            for x in t.elts:
                store(x)
            return
        if isinstance(t, ast.Starred):
            store(t.value)
            return
        if isinstance(t, ast.Name):
            return
        base = t
        attr_between = False  # an attribute access between the target and self.X / the alias
        while isinstance(base, (ast.Attribute, ast.Subscript)):
            if isinstance(base, ast.Attribute) and isinstance(base.value, ast.Name) and base.value.id == "self":
                (out.deep if attr_between else out.fields).add(base.attr)
                return
            if isinstance(base, ast.Attribute):
                attr_between = True
            base = base.value
        if isinstance(base, ast.Name) and base.id in alias:
            out.deep.add(alias[base.id])
            return
        if isinstance(base, ast.Name):
            return  # a local object (a dict / list built here, a parameter value)
        out.unknown, out.why = True, f"store through {ast.unparse(t)} at {name}:{getattr(t, 'lineno', 0)}"

    for n in ast.walk(node):
        if isinstance(n, ast.Assign):
            for t in n.targets:
                note_alias(t, n.value)
        elif isinstance(n, ast.AnnAssign) and n.value is not None:
            note_alias(n.target, n.value)
        elif isinstance(n, (ast.For, ast.AsyncFor)):
            r = _root_field(n.iter)
            if r is not None:
                for x in ast.walk(n.target):
                    if isinstance(x, ast.Name):
                        alias[x.id] = r
        elif isinstance(n, (ast.With, ast.AsyncWith)):
            for it in n.items:
                if it.optional_vars is not None:
                    note_alias(it.optional_vars, it.context_expr)

    for n in ast.walk(node):
        tgts = []
        if isinstance(n, ast.Assign):
            tgts = n.targets
        elif isinstance(n, ast.AugAssign):
            tgts = [n.target]
        elif isinstance(n, ast.AnnAssign) and n.value is not None:
            tgts = [n.target]
        elif isinstance(n, ast.Delete):
            tgts = n.targets
        elif isinstance(n, (ast.With, ast.AsyncWith)):
            tgts = [it.optional_vars for it in n.items if it.optional_vars is not None]
        elif isinstance(n, (ast.For, ast.AsyncFor)):
            tgts = [n.target]
        for t in tgts:
            store(t)
        if isinstance(n, ast.Call):
            f = n.func
            if isinstance(f, ast.Name) and f.id in ("setattr", "delattr"):
                out.unknown, out.why = True, f"{f.id}() at {name}:{n.lineno}"
            if isinstance(f, ast.Attribute):
                recv = f.value
                if isinstance(recv, ast.Name) and recv.id == "self":
                    if f.attr in callbacks:
                        continue
                    sub = method_def(cls, f.attr)
                    if sub is not None:
                        fc = reg.fns.get(f"{sub[2].__module__}:{sub[2].__qualname__}.{f.attr}")
                        if fc is not None and fc.modifies is not None:
                            for m in fc.modifies:
                                parts = m.split(".")
                                if parts[0] == "self" and len(parts) == 2:
                                    out.fields.add(parts[1])
                                elif parts[0] == "self" and len(parts) > 2:
                                    out.deep.add(parts[1])
                        else:
                            out.merge(may_write(reg, cls, f.attr, stack))
                    elif cc is not None and f.attr in cc.fields:
                        pass  # calling a callable stored in a field (self.app(...)): an outside call
                    continue
                if f.attr in PURE_METHODS:
                    continue
                r = _root_field(recv)
                if r is None and isinstance(recv, ast.Name) and recv.id in alias:
                    r = alias[recv.id]
                if r is not None:
                    if r in callbacks:
                        continue
                    if _callee_is_pure(reg, cc, recv, f.attr):
                        continue
                    out.deep.add(r)
    return out
