"""Attribute / subscript / slice / container operations (mixin of Interp)."""
from __future__ import annotations

import ast
import enum
import types
from typing import Any

import z3

from . import ops
from .ctx import ContractError, PathEnd, Unsupported
from .ops import PyRaise, mk_exc
from .sym import (
    ANY_TAGS,
    UNSET,
    BoundMethod,
    Closure,
    Pair,
    PDict,
    PList,
    PSet,
    SObj,
    Sym,
    SymAny,
    SymBool,
    SymBytes,
    SymEnum,
    SymInt,
    SymMap,
    SymMaybe,
    SymMsg,
    SymOpaque,
    SymOpt,
    SymSeq,
    SymStr,
    is_sym,
    kind_of_strlike,
    mk_bool,
    mk_int,
    mk_str,
    str_to_z3,
    z3_of_int,
)

VALUE_METHODS = (SymStr, SymBytes, SymSeq, PList, PDict, PSet, SymMsg, SymMap, SymAny, str, bytes, tuple)


class HeapMixin:
    # ============================================================== attributes
    def getattr_value(self, obj, attr, fr):
        ctx = self.ctx
        if type(obj).__name__ == "Bottom":
            return obj
        if isinstance(obj, SymOpt):
            if not fr.spec and ctx.branch(obj.is_none, f"isNone@{fr.line}"):
                raise mk_exc(AttributeError, f"'NoneType' object has no attribute '{attr}'", where=fr.where())
            obj = obj.value
        if obj is None:
            if fr.spec:
                from .interp import BOTTOM

                return BOTTOM
            raise mk_exc(AttributeError, f"'NoneType' object has no attribute '{attr}'", where=fr.where())
        if isinstance(obj, SObj):
            cc0 = self.class_contract(obj)
            if cc0 is not None and attr in cc0.callbacks:
                cb0 = cc0.callbacks[attr]
                if cb0.present is not None and obj.fields.get(attr, UNSET) is None:
                    # attribute initialised to None (WSStream.app_put) until the callable is set
                    import ast as _ast

                    from .contracts import Clause

                    cl = Clause(f"{cb0.name}.present", cb0.present, (), _ast.parse(cb0.present, mode="eval").body)
                    if not ctx.branch(self.as_z3_bool(self.spec_eval(cl, {"self": obj}, None)), f"has({cb0.name})@{fr.line}"):
                        return None
                    return BoundMethod(obj, attr)
                self.callback_present(obj, cb0, fr)
                return BoundMethod(obj, attr)
            if attr in obj.fields:
                v = obj.fields[attr]
                if type(v).__name__ == "LazyUnion":
                    v = self.materialise(obj, attr)
                if v is UNSET:
                    raise mk_exc(AttributeError, f"object has no attribute '{attr}'", where=fr.where())
                if isinstance(v, SymMaybe):
                    if ctx.branch(v.present, f"has({attr})@{fr.line}"):
                        obj.fields[attr] = v.value
                        return v.value
                    obj.fields[attr] = UNSET
                    raise mk_exc(AttributeError, f"object has no attribute '{attr}'", where=fr.where())
                if isinstance(v, SymOpt) and not fr.spec:
                    # narrow Optional fields once the path condition decides them
                    d = ctx.decided(v.is_none)
                    if d is False:
                        return v.value
                    if d is True:
                        return None
                return v
            return self.class_attr(obj, attr, fr)
        if not isinstance(obj, enum.Enum) and (isinstance(obj, (SymInt, SymBool, int, float)) and not isinstance(obj, bool) or isinstance(obj, (bool, SymBool))):
            if attr in ("real", "imag", "numerator", "denominator", "bit_length", "to_bytes"):
                raise Unsupported(f"int.{attr}")
            raise mk_exc(AttributeError, f"'int' object has no attribute '{attr}'", where=fr.where())
        if isinstance(obj, VALUE_METHODS) or isinstance(obj, (SymOpaque, SymEnum)):
            if isinstance(obj, SymEnum) and attr == "value":
                return mk_int(obj.e + 1)  # auto() numbering starts at 1
            return BoundMethod(obj, attr)
        if isinstance(obj, (types.ModuleType, type, enum.Enum)) or callable(obj):
            try:
                return getattr(obj, attr)
            except AttributeError:
                raise mk_exc(AttributeError, attr, where=fr.where())
        if type(obj).__name__ == "SuperProxy":
            return BoundMethod(obj, attr)
        if type(obj).__name__ == "SymGiven":
            from .models_cli import unwrap_given

            return self.getattr_value(unwrap_given(self, obj), attr, fr)
        if type(obj).__module__ == "argparse":
            # the real parser object the code builds: attribute access is native
            return getattr(obj, attr)
        if isinstance(obj, Closure):
            raise Unsupported(f"attribute {attr} of closure")
        raise Unsupported(f"getattr({obj!r}, {attr})")

    def class_attr(self, obj: SObj, attr, fr):
        cls = obj.cls
        model = self.model_for(cls)
        if model is not None and hasattr(model, "get_" + attr):
            return getattr(model, "get_" + attr)(self, obj, fr)
        if model is not None and hasattr(model, "m_" + attr):
            return BoundMethod(obj, attr)
        if isinstance(cls, type) and issubclass(cls, BaseException) and attr == "with_traceback":
            return BoundMethod(obj, attr)  # exc.with_traceback(tb) is exc (calls.call_method)
        if isinstance(cls, type):
            for k in cls.__mro__:
                if attr in k.__dict__:
                    raw = k.__dict__[attr]
                    if isinstance(raw, property):
                        return self.call_repo_function(raw.fget, [obj], {}, fr, awaited=False)
                    if isinstance(raw, (staticmethod,)):
                        return raw.__func__
                    if isinstance(raw, (types.FunctionType, classmethod)):
                        return BoundMethod(obj, attr)
                    if isinstance(raw, (int, str, bytes, bool, float, tuple, type(None))):
                        return raw
                    if isinstance(raw, type):
                        return raw
                    raise Unsupported(f"class attribute {k.__name__}.{attr} = {raw!r}")
        qn = self.qual_of(cls)
        cc = self.reg.classes.get(qn)
        if cc is not None and (attr in cc.callbacks or any(attr == m.split(".")[-1] for m in self.methods_with_contract(qn))):
            return BoundMethod(obj, attr)
        raise mk_exc(AttributeError, f"'{getattr(cls, '__name__', cls)}' object has no attribute '{attr}'", where=fr.where())

    def callback_present(self, obj, cb, fr):
        if cb.present is None:
            return
        import ast as _ast

        from .contracts import Clause

        cl = Clause(f"{cb.name}.present", cb.present, (), _ast.parse(cb.present, mode="eval").body)
        v = self.spec_eval(cl, {"self": obj}, None)
        if not self.ctx.branch(self.as_z3_bool(v), f"has({cb.name})@{fr.line}"):
            raise mk_exc(AttributeError, f"object has no attribute '{cb.name}'", where=fr.where())

    def methods_with_contract(self, qn):
        pre = qn + "."
        return [k for k in self.reg.fns if k.startswith(pre)]

    def setattr_value(self, obj, attr, v, fr):
        if type(v).__name__ == "SymGiven":
            from .models_cli import unwrap_given

            v = unwrap_given(self, v)
        if isinstance(obj, SymOpt):
            if self.ctx.branch(obj.is_none, f"isNone@{fr.line}"):
                raise mk_exc(AttributeError, "NoneType", where=fr.where())
            obj = obj.value
        if not isinstance(obj, SObj):
            raise Unsupported(f"setattr on {obj!r}")
        cls = obj.cls
        if isinstance(cls, type) and not (cls.__module__ or "").startswith("hypercorn") and self.model_for(cls) is not None:
            # an attribute of a modelled library object (cancel_scope.shield = True): a plain field
            self.note_write(obj, attr, fr)
            obj.fields[attr] = v
            return
        if isinstance(cls, type):
            p = getattr(cls, "__dataclass_params__", None)
            if p is not None and p.frozen and not fr.fn_qual.endswith("__init__") and not getattr(fr, "allow_frozen", False):
                raise mk_exc(__import__("dataclasses").FrozenInstanceError, attr, where=fr.where())
            for k in cls.__mro__:
                raw = k.__dict__.get(attr)
                if isinstance(raw, property):
                    if raw.fset is None:
                        raise mk_exc(AttributeError, f"can't set attribute {attr}", where=fr.where())
                    from .source import module_info

                    mi = module_info(k.__module__)
                    fs = raw.fset
                    key = f"{k.__qualname__}.{fs.__name__}" + (".setter" if fs.__name__ == attr else "")
                    node = mi.defs.get(key) or mi.defs.get(f"{k.__qualname__}.{fs.__name__}")
                    if node is None:
                        raise Unsupported(f"no source for setter of {attr}")
                    self.run_function(node, mi, f"{k.__module__}:{key}", [obj, v], {})
                    return
                if raw is not None:
                    break
        self.note_write(obj, attr, fr)
        obj.fields[attr] = v

    def note_write(self, obj, attr, fr):
        w = getattr(self, "writes", None)
        if w is not None:
            w.append((obj, attr, fr.where()))

    # ============================================================== subscripts
    def subscript(self, obj, key, fr):
        ctx = self.ctx
        if isinstance(obj, SymOpt):
            if ctx.branch(obj.is_none, f"isNone@{fr.line}"):
                raise mk_exc(TypeError, "'NoneType' object is not subscriptable", where=fr.where())
            obj = obj.value
        if obj is None:
            raise mk_exc(TypeError, "'NoneType' object is not subscriptable", where=fr.where())
        if isinstance(obj, PDict):
            if is_sym(key):
                return self.pdict_sym_get(obj, key, fr)
            if key in obj.items:
                return obj.items[key]
            if (obj.sym_entries or obj.base is not None) and isinstance(key, str):
                return self.pdict_sym_get(obj, key, fr)
            raise mk_exc(KeyError, key, where=fr.where())
        if type(obj).__name__ == "Bottom":
            return obj
        if isinstance(obj, z3.SeqRef) and fr.spec:
            return obj[z3_of_int(key)]
        if isinstance(obj, SymMsg):
            return self.msg_get(obj, key, fr, required=True)
        if isinstance(obj, SymMap):
            return self.map_get(obj, key, fr)
        if isinstance(obj, tuple):
            if is_sym(key):
                raise Unsupported("symbolic index into tuple")
            try:
                return obj[key]
            except IndexError:
                raise mk_exc(IndexError, where=fr.where())
        if isinstance(obj, (str, bytes)) and not is_sym(key):
            try:
                return obj[key]
            except IndexError:
                raise mk_exc(IndexError, where=fr.where())
        if isinstance(obj, (SymStr, str, bytes)):
            e = str_to_z3(obj)
            n = z3.Length(e)
            k = z3_of_int(key)
            if not fr.spec and not ctx.branch(z3.And(k < n, k >= -n), f"idx@{fr.line}"):
                raise mk_exc(IndexError, "string index out of range", where=fr.where())
            idx = z3.If(k >= 0, k, n + k)
            kind = kind_of_strlike(obj)
            if kind == "bytes":
                return mk_int(z3.StrToCode(z3.SubString(e, idx, 1)))
            return mk_str(z3.SubString(e, idx, 1), "str")
        if isinstance(obj, PList):
            return self.list_index(obj, key, fr)
        if isinstance(obj, SymSeq):
            return self.seq_index(obj, key, fr)
        if isinstance(obj, SymAny):
            return self.any_subscript(obj, key, fr)
        if isinstance(obj, SymBytes):
            # payload bytes are abstracted by identity and length: indexing gives IndexError out
            # of range, otherwise a byte value that is a function of (payload, position)
            if isinstance(key, slice):
                raise Unsupported("slice of payload bytes")
            k = z3_of_int(key)
            n = obj.n
            if not self.ctx.branch(z3.And(k < n, k >= -n), f"payload-index-in-range@{fr.line}"):
                raise mk_exc(IndexError, "index out of range", where=fr.where())
            byte_at = z3.Function("payload_byte_at", obj.t.sort(), z3.IntSort(), z3.IntSort())
            v = byte_at(obj.t, z3.If(k >= 0, k, n + k))
            self.ctx.assume(z3.And(v >= 0, v <= 255))
            return mk_int(v)
        if isinstance(obj, (int, SymInt, bool, SymBool, float)):
            raise mk_exc(TypeError, "object is not subscriptable", where=fr.where())
        if isinstance(obj, type):  # typing generics like trio.open_memory_channel[T]
            return obj
        if callable(obj) and not is_sym(key):
            try:
                return obj[key]
            except Exception:
                raise Unsupported(f"subscript of callable {obj!r}")
        if isinstance(obj, SObj):
            model = self.model_for(obj.cls)
            if model is not None and hasattr(model, "m___getitem__"):
                return model.m___getitem__(self, obj, [key], {}, fr)
        raise Unsupported(f"subscript of {obj!r}")

    def list_index(self, obj: PList, key, fr):
        ctx = self.ctx
        if obj.sym is None and not is_sym(key):
            try:
                return obj.items[key]
            except IndexError:
                raise mk_exc(IndexError, "list index out of range", where=fr.where())
        if obj.sym is None and is_sym(key):
            if not obj.items:
                raise mk_exc(IndexError, "list index out of range", where=fr.where())
            try:
                return self.seq_index(ops.to_seq(ctx, obj), key, fr)
            except Unsupported:
                raise Unsupported("symbolic index into concrete list")
        n_items = len(obj.items)
        if not is_sym(key) and 0 <= key < n_items:
            return obj.items[key]
        seq = ops.to_seq(ctx, obj)
        return self.seq_index(seq, key, fr)

    def seq_index(self, seq: SymSeq, key, fr):
        ctx = self.ctx
        n = z3.Length(seq.e)
        k = z3_of_int(key)
        if not fr.spec and not ctx.branch(z3.And(k < n, k >= -n), f"idx@{fr.line}"):
            raise mk_exc(IndexError, "list index out of range", where=fr.where())
        idx = z3.If(k >= 0, k, n + k)
        return self.seq_elem(seq, z3.simplify(idx))

    def seq_elem(self, seq: SymSeq, idx):
        el = seq.e[idx]
        for (sq, elem_at) in self.ctx.seq_defs:
            if z3.eq(sq, seq.e):
                iz = idx if z3.is_expr(idx) else z3.IntVal(idx)
                self.ctx.assume(z3.Implies(z3.And(iz >= 0, iz < z3.Length(sq)), el == elem_at(iz)), "pointwise definition")
        for (sq, pred) in self.ctx.seq_facts:
            if z3.eq(sq, seq.e):
                self.ctx.assume(pred(el), "element fact")
        if seq.elem == "pair":
            return (mk_str(Pair.fst(el), "bytes"), mk_str(Pair.snd(el), "bytes"))
        if seq.elem == "spair":  # pairs of text strings (WSGI response headers)
            return (mk_str(Pair.fst(el), "str"), mk_str(Pair.snd(el), "str"))
        if seq.elem == "int":
            self.ctx.add_key(el)
            return mk_int(el)
        if seq.elem == "str":
            return mk_str(el, "str")
        if seq.elem == "bstr":
            return mk_str(el, "bytes")
        raise Unsupported(f"seq elem {seq.elem}")

    def store_subscript(self, obj, key, v, fr):
        if isinstance(obj, SymOpt):
            if self.ctx.branch(obj.is_none, f"isNone@{fr.line}"):
                raise mk_exc(TypeError, "NoneType", where=fr.where())
            obj = obj.value
        if isinstance(obj, PDict):
            if is_sym(key):
                self.pdict_sym_store(obj, key, v, fr)
                return
            obj.items[key] = v
            if obj.sym_entries or obj.base is not None:
                # a later concrete store wins over earlier symbolic ones with the same key
                obj.sym_entries.append(("shadow", str_to_z3(key))) if isinstance(key, str) else None
            return
        if isinstance(obj, PList):
            if obj.sym is None and not is_sym(key):
                try:
                    obj.items[key] = v
                except IndexError:
                    raise mk_exc(IndexError, where=fr.where())
                return
            if not is_sym(key) and 0 <= key < len(obj.items):
                obj.items[key] = v
                return
            if not is_sym(key) and key >= 0 and obj.sym is not None:
                k = key - len(obj.items)
                sq = obj.sym
                n = z3.Length(sq.e)
                if not self.ctx.branch(k < n, f"idx@{fr.line}"):
                    raise mk_exc(IndexError, "list assignment index out of range", where=fr.where())
                unit = ops.to_seq(self.ctx, PList([v]), like=sq)
                new = z3.Concat(z3.SubSeq(sq.e, 0, k), unit.e, z3.SubSeq(sq.e, k + 1, n - k - 1))
                obj.sym = SymSeq(z3.simplify(new), sq.elem)
                return
            raise Unsupported("store into symbolic list")
        if isinstance(obj, SymMap):
            return self.map_set(obj, key, v, fr)
        if isinstance(obj, SObj):
            model = self.model_for(obj.cls)
            if model is not None and hasattr(model, "m___setitem__"):
                return model.m___setitem__(self, obj, [key, v], {}, fr)
        raise Unsupported(f"store subscript on {obj!r}")

    def del_item(self, obj, key, fr):
        if isinstance(obj, SymMap):
            return self.map_del(obj, key, fr)
        if isinstance(obj, PDict):
            if key in obj.items:
                del obj.items[key]
                return
            raise mk_exc(KeyError, key, where=fr.where())
        raise Unsupported(f"del item on {obj!r}")

    def del_slice(self, obj, lo, hi, target_node, fr):
        """del x[lo:hi] -- only for a payload held in a variable/field: rebinding the container"""
        if isinstance(obj, SymBytes) or isinstance(obj, (bytes, bytearray)):
            p = ops.as_payload(self.ctx, obj)
            lo_n, hi_n = self.norm_slice(p.n, lo, hi)
            if not (isinstance(lo_n, int) and lo_n == 0):
                raise Unsupported("del payload[lo:hi] with lo != 0")
            rest = ops.payload_slice(self.ctx, p, hi_n, p.n)
            ops.payload_split_axiom(self.ctx, p, hi_n)
            # bytearray is mutable: write the new content back to where it came from
            self.assign(target_node_store(target_node), rest, fr)
            return
        raise Unsupported(f"del slice on {obj!r}")

    def norm_slice(self, n, lo, hi):
        """python slice clamping for 0 <= stuff; returns (lo, hi) as python ints or z3 ints with
        0 <= lo <= hi <= n"""
        n_e = z3_of_int(n) if not isinstance(n, z3.ExprRef) else n

        def clamp(v, default):
            if v is None:
                return default
            e = z3_of_int(v)
            e = z3.If(e < 0, z3.If(n_e + e < 0, z3.IntVal(0), n_e + e), z3.If(e > n_e, n_e, e))
            return z3.simplify(e)

        lo_e = clamp(lo, z3.IntVal(0))
        hi_e = clamp(hi, n_e)
        hi_e = z3.simplify(z3.If(hi_e < lo_e, lo_e, hi_e))

        def back(e, nm):
            if z3.is_int_value(e):
                return e.as_long()
            if z3.is_const(e):
                return e
            v = self.ctx.fresh(nm, z3.IntSort())
            self.ctx.assume(v == e)
            return v

        return back(lo_e, "slice_lo"), back(hi_e, "slice_hi")

    def slice_value(self, obj, lo, hi, fr):
        ctx = self.ctx
        if isinstance(obj, list):
            obj = PList(obj)
        if isinstance(obj, SymOpt):
            if ctx.branch(obj.is_none, f"isNone@{fr.line}"):
                raise mk_exc(TypeError, "NoneType", where=fr.where())
            obj = obj.value
        if isinstance(obj, (str, bytes, tuple)) and not is_sym(lo) and not is_sym(hi):
            return obj[lo:hi]
        if isinstance(obj, SymBytes) or (isinstance(obj, bytes) and (is_sym(lo) or is_sym(hi))):
            p = ops.as_payload(ctx, obj)
            lo_n, hi_n = self.norm_slice(p.n, lo, hi)
            ops.payload_split_axiom(ctx, p, hi_n)
            return ops.payload_slice(ctx, p, lo_n, hi_n)
        if isinstance(obj, (SymStr, str)):
            e = str_to_z3(obj)
            lo_n, hi_n = self.norm_slice(z3.Length(e), lo, hi)
            sub = z3.SubString(e, z3_of_int(lo_n), z3_of_int(hi_n) - z3_of_int(lo_n))
            from .sym import s_ascii_ok as _ok

            self.ctx.assume(z3.Implies(_ok(e), _ok(sub)))  # a slice of an ASCII string is ASCII
            return mk_str(sub, kind_of_strlike(obj))
        if isinstance(obj, PList) and obj.sym is None and not is_sym(lo) and not is_sym(hi):
            return PList(obj.items[lo:hi])
        if isinstance(obj, (PList, SymSeq)):
            seq = ops.to_seq(ctx, obj)
            lo_n, hi_n = self.norm_slice(z3.Length(seq.e), lo, hi)
            sub = z3.SubSeq(seq.e, z3_of_int(lo_n), z3_of_int(hi_n) - z3_of_int(lo_n))
            return PList(sym=SymSeq(z3.simplify(sub), seq.elem))
        raise Unsupported(f"slice of {obj!r}")

    # ============================================================== membership
    def contains(self, container, item, fr):
        ctx = self.ctx
        if type(container).__name__ == "LazySetComp":
            return container.contains(self, item).e
        if isinstance(container, SymOpt):
            if fr.spec:
                r = self.contains(container.value, item, fr)
                rz = z3.BoolVal(r) if isinstance(r, bool) else r
                return z3.And(z3.Not(container.is_none), rz)
            if ctx.branch(container.is_none, f"isNone@{fr.line}"):
                raise mk_exc(TypeError, "argument of type 'NoneType' is not iterable", where=fr.where())
            container = container.value
        if container is None and fr.spec:
            return False
        if isinstance(container, (PSet, tuple)) or (isinstance(container, PList) and container.sym is None):
            items = container.items if not isinstance(container, tuple) else container
            rs = [ops.eq(ctx, item, x) for x in items]
            if any(r is True for r in rs):
                return True
            rs = [r for r in rs if r is not False]
            if not rs:
                return False
            return z3.Or(*rs)
        if isinstance(container, (set, frozenset, list)):
            return self.contains(PSet(list(container)), item, fr)
        if isinstance(container, PDict):
            if is_sym(item) or ((container.sym_entries or container.base is not None) and isinstance(item, str) and item not in container.items):
                return self.pdict_sym_has(container, item)
            return item in container.items
        if isinstance(container, dict):
            return self.contains(PSet(list(container.keys())), item, fr)
        if isinstance(container, SymMap):
            return z3.Select(container.has, z3_of_int(item))
        if isinstance(container, SymMsg):
            if is_sym(item):
                raise Unsupported("symbolic key in message")
            if item == "type":
                return True
            return self.msg_key(container, item)[0]
        if isinstance(container, (SymStr, str, bytes)) and kind_of_strlike(item):
            return z3.Contains(str_to_z3(container), str_to_z3(item))
        if isinstance(container, (SymSeq, PList)):
            seq = ops.to_seq(ctx, container)
            if seq.elem in ("str", "bstr") and isinstance(item, SymAny):
                # an application supplied value looked up in a list of strings: a member only if
                # it is a string of that kind (no exception otherwise: == between types is False)
                want = "str" if seq.elem == "str" else "bytes"
                p = ops.any_proj(ctx, item, want)
                if isinstance(p, SymStr):
                    return z3.And(ops.any_tag_is(item, want), z3.Contains(seq.e, z3.Unit(p.e)))
                return False
            if seq.elem in ("str", "bstr"):
                return z3.Contains(seq.e, z3.Unit(str_to_z3(item)))
            if seq.elem == "pair" and isinstance(item, tuple):
                return z3.Contains(seq.e, z3.Unit(Pair.mk(str_to_z3(item[0]), str_to_z3(item[1]))))
        if isinstance(container, SymBytes) and isinstance(item, (bytes, SymStr)) and kind_of_strlike(item) == "bytes":
            # payload bytes are abstract: whether they contain a given byte string is an
            # uninterpreted predicate of (payload, needle); the empty payload contains only b''
            f = z3.Function("payload_contains", container.t.sort(), z3.StringSort(), z3.BoolSort())
            needle = str_to_z3(item)
            r = f(container.t, needle)
            ctx.assume(z3.Implies(z3.And(container.n == 0, z3.Length(needle) > 0), z3.Not(r)))
            return r
        if isinstance(container, SymAny) and not fr.spec and kind_of_strlike(item):
            # `needle in x` for an application supplied x and a str / bytes needle, by CPython's
            # table: not iterable -> TypeError; str / bytes -> substring test (TypeError when the
            # needle is of the other kind); list / tuple / memoryview / array / anything else ->
            # element comparison, whose outcome is not determined by the bytes the value converts to
            want = kind_of_strlike(item)
            tag, val = ops.any_split(ctx, container, "in", interesting=("str", "bytes", "seq", "other"))
            if tag == "rest":
                raise mk_exc(TypeError, "argument of this type is not iterable", where=fr.where())
            if tag in ("str", "bytes"):
                if tag != want:
                    raise mk_exc(TypeError, "'in <string>' requires string as left operand / a bytes-like object is required", where=fr.where())
                return self.contains(val, item, fr)
            return ctx.fresh(f"elem_in({container.name})@{fr.line}", z3.BoolSort())
        if isinstance(container, (SymInt, SymBool, int, float)) and not fr.spec:
            raise mk_exc(TypeError, "argument of type 'int' is not iterable", where=fr.where())
        if isinstance(container, SObj):
            model = self.model_for(container.cls)
            if model is not None and hasattr(model, "m___contains__"):
                return model.m___contains__(self, container, [item], {}, fr)
        raise Unsupported(f"`in` on {container!r}")

    # ============================================================== dicts with symbolic string keys
    def _pdict_key_cases(self, d: PDict, key):
        """(concrete key, condition key == that key) for the concrete string keys of d"""
        kz = str_to_z3(key)
        out = []
        for k in d.items:
            if isinstance(k, str):
                out.append((k, kz == z3.StringVal(k)))
        return kz, out

    def pdict_sym_has(self, d: PDict, key):
        kz, cases = self._pdict_key_cases(d, key)
        alts = [c for _, c in cases]
        for ent in d.sym_entries:
            if not (isinstance(ent[0], str) and ent[0] == "shadow"):
                alts.append(kz == ent[0])
        if d.base is not None:
            alts.append(d.base[0](kz))
        alts = [a for a in alts if not z3.is_false(z3.simplify(a))]
        return z3.Or(*alts) if alts else False

    def pdict_sym_get(self, d: PDict, key, fr):
        """d[key] for a symbolic (or not statically present) string key: a KeyError alternative
        and the value selected by key equality; values under symbolic keys are strings"""
        ctx = self.ctx
        has = self.pdict_sym_has(d, key)
        hz = z3.BoolVal(has) if isinstance(has, bool) else has
        if not fr.spec and not ctx.branch(hz, f"dict has key@{fr.line}"):
            raise mk_exc(KeyError, "key", where=fr.where())
        kz, cases = self._pdict_key_cases(d, key)
        # a concrete key that the symbolic key may equal: decided by a case split (its value may be of any kind)
        for k, cond in cases:
            if ctx.feasible(cond):
                if fr.spec:
                    if not kind_of_strlike(d.items[k]):
                        continue
                elif ctx.branch(cond, f"key=={k!r}@{fr.line}"):
                    return d.items[k]
        val = d.base[1](kz) if d.base is not None else z3.StringVal("")
        for ent in d.sym_entries:
            if isinstance(ent[0], str) and ent[0] == "shadow":
                continue
            val = z3.If(kz == ent[0], ent[1], val)
        if fr.spec:
            for k, cond in cases:
                if kind_of_strlike(d.items[k]) == "str":
                    val = z3.If(cond, str_to_z3(d.items[k]), val)
        return mk_str(val, "str")

    def pdict_sym_store(self, d: PDict, key, v, fr):
        ctx = self.ctx
        if kind_of_strlike(v) != "str":
            raise Unsupported("value stored under a symbolic dict key must be a text string")
        kz, cases = self._pdict_key_cases(d, key)
        unit = getattr(self, "unit_name", "?")
        for k, cond in cases:
            if kind_of_strlike(d.items[k]) != "str":
                # entries that are not text (objects, numbers, tuples) are kept as they are across
                # loop summaries; that is justified by this obligation: no computed key hits them
                ctx.prove(f"{unit}.dict-store.misses.{k}", z3.Not(cond), f"a key computed at run time is never {k!r} (whose value is not text)", fr.where(), note="store under a computed dict key")
                continue
            if ctx.feasible(cond):
                if ctx.branch(cond, f"key=={k!r}@{fr.line}"):
                    d.items[k] = v
                    return
        d.sym_entries.append((kz, str_to_z3(v)))

    # ============================================================== ASGI messages / Any
    def msg_key(self, msg: SymMsg, key: str):
        if key not in msg.keys:
            present = z3.Bool(f"{msg.name}.has_{key}")
            kind = msg.kinds.get(key, "payload")
            want = None
            if "=" in kind:  # "payload=bytes": a message the server itself built, the field has this type
                kind, want = kind.split("=", 1)
            val = SymAny(f"{msg.name}.{key}", z3.Int(f"{msg.name}.{key}.tag"), bytes_kind=kind)
            self.ctx.assume(z3.And(val.tag >= 0, val.tag < len(ANY_TAGS)))
            if want:
                self.ctx.assume(ops.any_tag_is(val, want))
            self.ctx.inputs[f"{msg.name}.has_{key}"] = present
            self.ctx.inputs[f"{msg.name}.{key}.tag"] = val.tag
            msg.keys[key] = (present, val)
        return msg.keys[key]

    def msg_get(self, msg: SymMsg, key, fr, required, default=None):
        if is_sym(key):
            raise Unsupported("symbolic key into message")
        if key == "type":
            return msg.keys["type"][1]
        present, val = self.msg_key(msg, key)
        if self.ctx.branch(present, f"has[{key}]"):
            return val
        if required:
            raise mk_exc(KeyError, key, where=fr.where())
        return default

    def any_subscript(self, v: SymAny, key, fr):
        tag, val = ops.any_split(self.ctx, v, "subscript", interesting=("str", "bytes", "seq", "other"))
        if tag == "rest":
            raise mk_exc(TypeError, "not subscriptable", where=fr.where())
        if tag in ("str", "bytes"):
            if isinstance(val, SymBytes):
                raise Unsupported("index into payload")
            return self.subscript(val, key, fr)
        if tag == "seq":
            # element of an application supplied sequence: arbitrary value (may also IndexError)
            if self.ctx.choose(2, f"seqidx:{v.name}", ["ok", "IndexError"]) == 1:
                raise mk_exc(IndexError, where=fr.where())
            return self.fresh_any(f"{v.name}[{key}]", v.bytes_kind)
        # other: anything can happen
        if self.ctx.choose(2, f"otheridx:{v.name}", ["ok", "raise"]) == 1:
            raise mk_exc(TypeError, "not subscriptable", where=fr.where())
        return self.fresh_any(f"{v.name}[{key}]", v.bytes_kind)

    def fresh_any(self, name, bytes_kind="payload"):
        name = self.ctx.fresh_name(name)
        a = SymAny(name, z3.Int(name + ".tag"), bytes_kind=bytes_kind)
        self.ctx.assume(z3.And(a.tag >= 0, a.tag < len(ANY_TAGS)))
        self.ctx.inputs[name + ".tag"] = a.tag
        return a

    def any_unpack(self, v: SymAny, n, fr):
        tag, val = ops.any_split(self.ctx, v, "unpack", interesting=("str", "bytes", "seq", "other"))
        if tag == "rest":
            raise mk_exc(TypeError, "cannot unpack", where=fr.where())
        if tag in ("str", "bytes"):
            if isinstance(val, SymBytes):
                if not self.ctx.branch(val.n == n, "unpacklen"):
                    raise mk_exc(ValueError, "unpack", where=fr.where())
                return [mk_int(self.ctx.fresh("byte", z3.IntSort())) for _ in range(n)]
            ln = z3.Length(val.e)
            if not self.ctx.branch(ln == n, "unpacklen"):
                raise mk_exc(ValueError, "unpack", where=fr.where())
            if val.kind == "bytes":
                return [mk_int(z3.StrToCode(z3.SubString(val.e, i, 1))) for i in range(n)]
            return [mk_str(z3.SubString(val.e, i, 1), "str") for i in range(n)]
        if self.ctx.choose(2, f"unpack:{v.name}", ["ok", "raise"]) == 1:
            raise mk_exc(ValueError if tag == "seq" else TypeError, "unpack", where=fr.where())
        return [self.fresh_any(f"{v.name}.{i}", v.bytes_kind) for i in range(n)]

    # ============================================================== symbolic maps
    def map_lookup(self, m: SymMap, key):
        k = z3_of_int(key)
        self.ctx.add_key(k)
        for (kk, vv) in m.cache:
            if z3.eq(z3.simplify(kk), z3.simplify(k)):
                return vv
        for (kk, vv) in m.cache:
            # same key under the path condition?
            if self.ctx.check(kk != k) == z3.unsat:
                return vv
        # distinct from all cached keys on this path? otherwise fork on aliasing
        for (kk, vv) in m.cache:
            if self.ctx.check(kk == k) != z3.unsat:
                if self.ctx.branch(kk == k, f"alias({m.name})"):
                    return vv
        v = m.mk(self, m, k)
        m.cache.append((k, v))
        return v

    def map_get(self, m: SymMap, key, fr):
        k = z3_of_int(key)
        self.ctx.add_key(k)
        if not self.ctx.branch(z3.Select(m.has, k), f"in({m.name})@{fr.line}"):
            raise mk_exc(KeyError, where=fr.where())
        return self.map_lookup(m, key)

    def map_set(self, m: SymMap, key, v, fr):
        k = z3_of_int(key)
        self.ctx.add_key(k)
        was = z3.Select(m.has, k)
        if m.size is not None:
            m.size = z3.simplify(m.size + z3.If(was, 0, 1))
        m.has = z3.Store(m.has, k, z3.BoolVal(True))
        # drop possibly aliasing cache entries, then record
        new_cache = []
        for (kk, vv) in m.cache:
            if self.ctx.check(kk == k) == z3.unsat:
                new_cache.append((kk, vv))
            elif self.ctx.check(kk != k) == z3.unsat:
                continue
            else:
                if self.ctx.branch(kk == k, f"alias({m.name})"):
                    continue
                new_cache.append((kk, vv))
        new_cache.append((k, v))
        m.cache = new_cache
        self.note_write(m, "[]", fr)

    def map_del(self, m: SymMap, key, fr):
        k = z3_of_int(key)
        self.ctx.add_key(k)
        if not self.ctx.branch(z3.Select(m.has, k), f"in({m.name})@{fr.line}"):
            raise mk_exc(KeyError, where=fr.where())
        if m.size is not None:
            m.size = z3.simplify(m.size - 1)
        m.has = z3.Store(m.has, k, z3.BoolVal(False))
        m.cache = [(kk, vv) for (kk, vv) in m.cache if self.ctx.check(kk == k) == z3.unsat]
        self.note_write(m, "[]", fr)


def target_node_store(node):
    """turn a Load expression node (Name / Attribute) into the same node usable as Store target"""
    import copy

    n = copy.copy(node)
    n.ctx = ast.Store()
    return n
