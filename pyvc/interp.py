"""Single-path symbolic interpreter over the real ASTs (statements and expressions).

Forks go through ctx.choose/branch; python exceptions of the interpreted program are PyRaise.
Calls, attribute access on library values and contracts live in calls.py (mixed in below).
"""
from __future__ import annotations

import ast
import builtins
import enum
from typing import Any, Dict, List, Optional

import z3

from . import ops
from .ctx import ContractError, Ctx, PathEnd, Unsupported
from .ops import PyRaise, mk_exc
from .sym import (
    UNSET,
    BoundMethod,
    Closure,
    PDict,
    PList,
    PSet,
    SObj,
    Sym,
    SymAny,
    SymBool,
    SymBytes,
    SymEnum,
    SymInt,
    SymMap,
    SymMaybe,
    SymMsg,
    SymOpaque,
    SymOpt,
    SymSeq,
    SymStr,
    is_sym,
    mk_bool,
    mk_int,
)


class ReturnSig(Exception):
    def __init__(self, value):
        self.value = value


class BreakSig(Exception):
    pass


class ContinueSig(Exception):
    pass


class Bottom:
    """result of a partial operation (index out of range, missing key) inside a contract clause:
    comparisons with it are False, so the clause simply does not hold there"""

    def __repr__(self):
        return "BOTTOM"


BOTTOM = Bottom()


class MaybeUnbound:
    """local variable that may be unbound after a havoc (loop rule)"""

    __slots__ = ("bound", "value")

    def __init__(self, bound, value):
        self.bound = bound
        self.value = value


class Frame:
    def __init__(self, fn_qual: str, module, parent: Optional["Frame"] = None, spec=False):
        self.fn_qual = fn_qual
        self.module = module  # ModuleInfo or None
        self.locals: Dict[str, Any] = {}
        self.parent = parent
        self.spec = spec
        self.local_names: set = set()
        self.nonlocals: set = set()
        self.old: Optional[Dict[str, Any]] = None  # snapshot env for old()
        self.handling: List[SObj] = []  # exceptions currently being handled (for bare raise)
        self.loop_ordinal = 0
        self.line = 0

    def where(self) -> str:
        return f"{self.fn_qual}:{self.line}"


def assigned_names(nodes) -> set:
    """names bound in a list of statements (not descending into nested defs)"""
    out = set()

    def visit(n):
        if isinstance(n, (ast.FunctionDef, ast.AsyncFunctionDef, ast.ClassDef)):
            out.add(n.name)
            return
        if isinstance(n, ast.Lambda):
            return
        if isinstance(n, ast.Name) and isinstance(n.ctx, (ast.Store, ast.Del)):
            out.add(n.id)
        if isinstance(n, ast.ExceptHandler) and n.name:
            out.add(n.name)
        if isinstance(n, (ast.ListComp, ast.SetComp, ast.DictComp, ast.GeneratorExp)):
            # comprehension targets are local to the comprehension; walrus is not
            for c in ast.walk(n):
                if isinstance(c, ast.NamedExpr):
                    out.add(c.target.id)
            return
        for c in ast.iter_child_nodes(n):
            visit(c)

    for n in nodes:
        visit(n)
    return out


MUTATORS = {"append", "extend", "insert", "pop", "remove", "clear", "update", "add", "discard", "setdefault", "sort", "reverse", "write", "popitem"}


def mutated_names(nodes) -> set:
    """local names whose *object* is mutated in the statements (method call, item store/delete)"""
    out = set()
    for st in nodes:
        for n in ast.walk(st):
            if isinstance(n, ast.Call) and isinstance(n.func, ast.Attribute) and n.func.attr in MUTATORS and isinstance(n.func.value, ast.Name):
                out.add(n.func.value.id)
            if isinstance(n, ast.Subscript) and isinstance(n.ctx, (ast.Store, ast.Del)):
                b = n.value
                while isinstance(b, ast.Subscript):
                    b = b.value
                if isinstance(b, ast.Name):
                    out.add(b.id)
    return out


class InterpCore:
    def __init__(self, ctx: Ctx, reg):
        self.ctx = ctx
        self.reg = reg
        self.depth = 0
        self.unit_self: Optional[SObj] = None  # object whose class invariant the yield rule uses
        self.traces: Dict[str, list] = {}
        self.loop_specs = None

    # ============================================================== statements
    def exec_block(self, stmts, fr: Frame) -> None:
        for s in stmts:
            self.exec_stmt(s, fr)

    def exec_stmt(self, s, fr: Frame) -> None:
        fr.line = getattr(s, "lineno", fr.line)
        m = getattr(self, "st_" + type(s).__name__, None)
        if m is None:
            raise Unsupported(f"statement {type(s).__name__} at {fr.where()}")
        m(s, fr)

    def st_Expr(self, s, fr):
        self.ev(s.value, fr)

    def st_Pass(self, s, fr):
        pass

    def st_Import(self, s, fr):
        import importlib

        for a in s.names:
            mod = importlib.import_module(a.name)
            fr.locals[a.asname or a.name.split(".")[0]] = (
                mod if a.asname else importlib.import_module(a.name.split(".")[0])
            )

    def st_ImportFrom(self, s, fr):
        import importlib

        mod = importlib.import_module(s.module)
        for a in s.names:
            fr.locals[a.asname or a.name] = getattr(mod, a.name)

    def st_Assert(self, s, fr):
        v = self.ev(s.test, fr)
        if not ops.truth_branch(self.ctx, v, f"assert@{s.lineno}"):
            raise mk_exc(AssertionError, where=fr.where())

    def st_Nonlocal(self, s, fr):
        fr.nonlocals.update(s.names)

    def st_Global(self, s, fr):
        raise Unsupported("global")

    def st_Return(self, s, fr):
        raise ReturnSig(self.ev(s.value, fr) if s.value is not None else None)

    def st_Break(self, s, fr):
        raise BreakSig()

    def st_Continue(self, s, fr):
        raise ContinueSig()

    def st_Assign(self, s, fr):
        v = self.ev(s.value, fr)
        for t in s.targets:
            self.assign(t, v, fr)

    def st_AnnAssign(self, s, fr):
        if s.value is not None:
            self.assign(s.target, self.ev(s.value, fr), fr)

    def st_AugAssign(self, s, fr):
        t = s.target
        if isinstance(t, ast.Name):
            cur = self.load_name(t.id, fr)
            self.store_name(t.id, ops.binop(self.ctx, s.op, cur, self.ev(s.value, fr)), fr)
        elif isinstance(t, ast.Attribute):
            obj = self.ev(t.value, fr)
            cur = self.getattr_value(obj, t.attr, fr)
            self.setattr_value(obj, t.attr, ops.binop(self.ctx, s.op, cur, self.ev(s.value, fr)), fr)
        elif isinstance(t, ast.Subscript):
            obj = self.ev(t.value, fr)
            key = self.ev(t.slice, fr)
            cur = self.subscript(obj, key, fr)
            self.store_subscript(obj, key, ops.binop(self.ctx, s.op, cur, self.ev(s.value, fr)), fr)
        else:
            raise Unsupported("augassign target")

    def st_Delete(self, s, fr):
        for t in s.targets:
            if isinstance(t, ast.Subscript):
                obj = self.ev(t.value, fr)
                if isinstance(t.slice, ast.Slice):
                    lo = self.ev(t.slice.lower, fr) if t.slice.lower is not None else None
                    hi = self.ev(t.slice.upper, fr) if t.slice.upper is not None else None
                    self.del_slice(obj, lo, hi, t.value, fr)
                else:
                    self.del_item(obj, self.ev(t.slice, fr), fr)
            elif isinstance(t, ast.Name):
                fr.locals.pop(t.id, None)
            else:
                raise Unsupported("del target")

    def st_If(self, s, fr):
        v = self.ev(s.test, fr)
        if self.try_merge_if(s, v, fr):
            return
        if ops.truth_branch(self.ctx, v, f"if@{s.lineno}"):
            self.exec_block(s.body, fr)
        else:
            self.exec_block(s.orelse, fr)

    def try_merge_if(self, s, cond_v, fr) -> bool:
        """`if c: obj.attr = <name/attribute expression>` with a symbolic c and a plain data
        attribute: no fork, the attribute becomes  c ? value : old value"""
        from .sym import SymIte

        if s.orelse or len(s.body) != 1 or fr.spec:
            return False
        st = s.body[0]
        if not (isinstance(st, ast.Assign) and len(st.targets) == 1 and isinstance(st.targets[0], ast.Attribute)):
            return False
        if not isinstance(st.value, (ast.Attribute, ast.Name, ast.Constant)):
            return False
        t = ops.truth(self.ctx, cond_v)
        if isinstance(t, bool):
            return False
        tgt = st.targets[0]
        owner = self.ev(tgt.value, fr)
        if not isinstance(owner, SObj) or not isinstance(owner.cls, type):
            return False
        for k in owner.cls.__mro__:
            if isinstance(k.__dict__.get(tgt.attr), property):
                return False  # a setter runs code: handled by forking
        if tgt.attr not in owner.fields:
            return False
        new = self.ev(st.value, fr)
        old = owner.fields[tgt.attr]
        if type(old).__name__ == "LazyUnion":
            old = self.materialise(owner, tgt.attr)
        self.note_write(owner, tgt.attr, fr)
        owner.fields[tgt.attr] = SymIte(z3.simplify(t), new, old)
        return True

    def st_FunctionDef(self, s, fr):
        for d in s.decorator_list:
            # only functools.wraps (metadata) may decorate a nested function
            if not (isinstance(d, ast.Call) and isinstance(d.func, ast.Name) and d.func.id == "wraps"):
                raise Unsupported(f"decorator on nested function {s.name}")
        fr.locals[s.name] = Closure(s, fr, fr.module)

    st_AsyncFunctionDef = st_FunctionDef

    def st_Raise(self, s, fr):
        if s.exc is None:
            if not fr.handling:
                raise mk_exc(RuntimeError, "No active exception to reraise", where=fr.where())
            raise PyRaise(fr.handling[-1], fr.where())
        v = self.ev(s.exc, fr)
        if isinstance(v, type) and issubclass(v, BaseException):
            v = self.call_value(v, [], {}, fr)
        if not isinstance(v, SObj):
            raise Unsupported(f"raise of {v!r}")
        if s.cause is not None:
            self.ev(s.cause, fr)
        raise PyRaise(v, fr.where())

    def st_Try(self, s, fr):
        try:
            try:
                self.exec_block(s.body, fr)
            except PyRaise as pr:
                handler = self.match_handler(s.handlers, pr.exc, fr)
                if handler is None:
                    raise
                fr.handling.append(pr.exc)
                try:
                    if handler.name:
                        fr.locals[handler.name] = pr.exc
                    self.exec_block(handler.body, fr)
                finally:
                    fr.handling.pop()
                    if handler.name:
                        fr.locals.pop(handler.name, None)
            else:
                self.exec_block(s.orelse, fr)
        except (PathEnd, Unsupported, ContractError):
            raise
        except (PyRaise, ReturnSig, BreakSig, ContinueSig):
            # finally runs on every exit; an exit raised inside finalbody replaces the pending one
            self.exec_block(s.finalbody, fr)
            raise
        else:
            self.exec_block(s.finalbody, fr)

    def match_handler(self, handlers, exc: SObj, fr):
        for h in handlers:
            if h.type is None:
                return h
            t = self.ev(h.type, fr)
            classes = t if isinstance(t, tuple) else (t,)
            for c in classes:
                if not isinstance(c, type):
                    raise Unsupported(f"except clause with non-class {c!r}")
                if isinstance(exc.cls, type) and issubclass(exc.cls, c):
                    return h
        return None

    def st_With(self, s, fr):
        self.exec_with(s, fr, False)

    def st_AsyncWith(self, s, fr):
        self.exec_with(s, fr, True)

    def st_While(self, s, fr):
        self.exec_while(s, fr)

    def st_For(self, s, fr):
        self.exec_for(s, fr)

    def st_AsyncFor(self, s, fr):
        raise Unsupported("async for")

    # ============================================================== assignment targets
    def assign(self, t, v, fr):
        if isinstance(t, ast.Name):
            self.store_name(t.id, v, fr)
        elif isinstance(t, ast.Attribute):
            self.setattr_value(self.ev(t.value, fr), t.attr, v, fr)
        elif isinstance(t, ast.Subscript):
            obj = self.ev(t.value, fr)
            if isinstance(t.slice, ast.Slice):
                raise Unsupported("slice assignment")
            self.store_subscript(obj, self.ev(t.slice, fr), v, fr)
        elif isinstance(t, (ast.Tuple, ast.List)):
            parts = self.unpack(v, len(t.elts), fr)
            for e, p in zip(t.elts, parts):
                self.assign(e, p, fr)
        else:
            raise Unsupported(f"assignment target {type(t).__name__}")

    def store_name(self, name, v, fr):
        f = fr
        if name in fr.nonlocals:
            f = fr.parent
            while f is not None and name not in f.local_names and name not in f.locals:
                f = f.parent
            if f is None:
                raise Unsupported(f"nonlocal {name} not found")
        f.locals[name] = v

    def load_name(self, name, fr):
        f = fr
        while f is not None:
            if name in f.locals:
                v = f.locals[name]
                if isinstance(v, MaybeUnbound):
                    if type(v.value).__name__ == "LazyUnknown":
                        if self.ctx.check(v.bound) == z3.unsat:
                            raise mk_exc(UnboundLocalError, name, where=fr.where())
                        raise Unsupported(v.value.msg)
                    if self.ctx.branch(v.bound, f"bound({name})"):
                        f.locals[name] = v.value
                        return v.value
                    raise mk_exc(UnboundLocalError, name, where=fr.where())
                if isinstance(v, SymOpt) and not fr.spec:
                    # narrow Optional locals once the path condition decides them
                    d = self.ctx.decided(v.is_none)
                    if d is False:
                        f.locals[name] = v.value
                        return v.value
                    if d is True:
                        f.locals[name] = None
                        return None
                return v
            if name in f.local_names and name not in f.nonlocals:
                raise mk_exc(UnboundLocalError, name, where=fr.where())
            f = f.parent
        if name.startswith("lib_") and fr.spec:
            import importlib

            return importlib.import_module(name[4:])
        mod = fr.module
        while mod is None and fr.parent is not None:
            fr = fr.parent
            mod = fr.module
        if mod is not None and hasattr(mod.module, name):
            return getattr(mod.module, name)
        if hasattr(builtins, name):
            return getattr(builtins, name)
        raise mk_exc(NameError, name, where=fr.where())

    def unpack(self, v, n, fr):
        if isinstance(v, tuple):
            if len(v) != n:
                raise mk_exc(ValueError, "unpack", where=fr.where())
            return list(v)
        if isinstance(v, PList) and v.sym is None:
            if len(v.items) != n:
                raise mk_exc(ValueError, "unpack", where=fr.where())
            return list(v.items)
        if isinstance(v, SymAny):
            return self.any_unpack(v, n, fr)
        raise Unsupported(f"unpack of {v!r}")

    # ============================================================== expressions
    def ev(self, e, fr: Frame):
        m = getattr(self, "ev_" + type(e).__name__, None)
        if m is None:
            raise Unsupported(f"expression {type(e).__name__} at {fr.where()}")
        return m(e, fr)

    def ev_Constant(self, e, fr):
        return e.value

    def ev_Name(self, e, fr):
        return self.load_name(e.id, fr)

    def ev_Tuple(self, e, fr):
        return tuple(self.ev(x, fr) for x in e.elts)

    def ev_List(self, e, fr):
        return PList([self.ev(x, fr) for x in e.elts])

    def ev_Set(self, e, fr):
        return PSet([self.ev(x, fr) for x in e.elts])

    def ev_Dict(self, e, fr):
        d = PDict()
        for k, v in zip(e.keys, e.values):
            if k is None:
                raise Unsupported("dict unpacking")
            kv = self.ev(k, fr)
            if is_sym(kv):
                raise Unsupported("symbolic dict key in literal")
            d.items[kv] = self.ev(v, fr)
        return d

    def ev_JoinedStr(self, e, fr):
        parts = []
        sym = False
        for v in e.values:
            if isinstance(v, ast.Constant):
                parts.append(v.value)
            else:
                x = self.ev(v.value, fr)
                if is_sym(x) or isinstance(x, (SObj, PList, PDict)):
                    sym = True
                parts.append(x)
        if not sym:
            return "".join(str(p) for p in parts)
        # pieces that are (symbolic) str values are concatenated; anything else makes it opaque
        from .sym import i_fmt, str_to_z3

        zs = []
        for p in parts:
            if isinstance(p, str):
                zs.append(z3.StringVal(p))
            elif isinstance(p, SymStr) and p.kind == "str":
                zs.append(p.e)
            elif isinstance(p, int) and not isinstance(p, bool):
                zs.append(z3.StringVal(str(p)))
            elif isinstance(p, SymInt):
                zs.append(i_fmt(p.e))
            else:
                return SymStr(self.ctx.fresh("fstr", z3.StringSort()), "str")
        return SymStr(z3.simplify(z3.Concat(*zs)) if len(zs) > 1 else zs[0], "str")

    def ev_Attribute(self, e, fr):
        return self.getattr_value(self.ev(e.value, fr), e.attr, fr)

    def ev_Subscript(self, e, fr):
        obj = self.ev(e.value, fr)
        if fr.spec:
            if obj is BOTTOM:
                return BOTTOM
            try:
                return self._ev_subscript(e, obj, fr)
            except PyRaise as pr:
                if issubclass(pr.exc.cls, (IndexError, KeyError, TypeError)):
                    # a partial operation inside a clause: the clause does not hold there.  When
                    # this happens while *proving* it usually means the clause is mis-written
                    # (it would be vacuously satisfied), so it is reported as a contract error.
                    self.bottoms = getattr(self, "bottoms", 0) + 1
                    self.bottom_where = f"{ast.unparse(e)} ({pr})"
                    return BOTTOM
                raise
        return self._ev_subscript(e, obj, fr)

    def _ev_subscript(self, e, obj, fr):
        if isinstance(e.slice, ast.Slice):
            lo = self.ev(e.slice.lower, fr) if e.slice.lower is not None else None
            hi = self.ev(e.slice.upper, fr) if e.slice.upper is not None else None
            if e.slice.step is not None:
                raise Unsupported("slice step")
            return self.slice_value(obj, lo, hi, fr)
        return self.subscript(obj, self.ev(e.slice, fr), fr)

    def ev_UnaryOp(self, e, fr):
        v = self.ev(e.operand, fr)
        if isinstance(e.op, ast.Not):
            t = ops.truth(self.ctx, v)
            return (not t) if isinstance(t, bool) else mk_bool(z3.Not(t))
        if isinstance(e.op, ast.USub):
            if is_sym(v):
                return mk_int(-ops.z3_of_int(v))
            return -v
        raise Unsupported("unary op")

    def ev_BinOp(self, e, fr):
        a, b = self.ev(e.left, fr), self.ev(e.right, fr)
        if fr.spec:
            # inside a clause arithmetic on an Optional is arithmetic on its value (the clause
            # guards it with `is not None`; an unguarded use is just an unconstrained number)
            from .sym import SymOpt as _SO

            if isinstance(a, _SO):
                a = a.value
            if isinstance(b, _SO):
                b = b.value
        return ops.binop(self.ctx, e.op, a, b)

    def ev_BoolOp(self, e, fr):
        if fr.spec:
            is_and = isinstance(e.op, ast.And)
            zs = []
            for sub in e.values:
                t = ops.truth(self.ctx, self.ev(sub, fr))
                if isinstance(t, bool):
                    if t != is_and:  # False in a conjunction / True in a disjunction decides it
                        return t
                    continue
                zs.append(t)
            if not zs:
                return is_and
            return mk_bool(z3.And(*zs) if is_and else z3.Or(*zs))
        # python semantics: value of the deciding operand, short-circuit with forking
        v = None
        for i, sub in enumerate(e.values):
            v = self.ev(sub, fr)
            if i == len(e.values) - 1:
                return v
            t = ops.truth_branch(self.ctx, v, f"{'and' if isinstance(e.op, ast.And) else 'or'}@{e.lineno}")
            if isinstance(e.op, ast.And) and not t:
                return v
            if isinstance(e.op, ast.Or) and t:
                return v
        return v

    def ev_Compare(self, e, fr):
        left = self.ev(e.left, fr)
        result = None
        for op, right_node in zip(e.ops, e.comparators):
            right = self.ev(right_node, fr)
            if isinstance(op, (ast.In, ast.NotIn)):
                r = self.contains(right, left, fr)
                if isinstance(op, ast.NotIn):
                    r = (not r) if isinstance(r, bool) else z3.Not(r)
            else:
                r = ops.compare(self.ctx, op, left, right)
            if len(e.ops) == 1:
                return r if isinstance(r, bool) else mk_bool(r)
            if fr.spec:
                rz = z3.BoolVal(r) if isinstance(r, bool) else r
                result = rz if result is None else z3.And(result, rz)
            else:
                if not self.ctx.branch(r, f"cmp@{e.lineno}"):
                    return False
                result = True
            left = right
        return result if isinstance(result, bool) else mk_bool(result)

    def ev_IfExp(self, e, fr):
        c = self.ev(e.test, fr)
        if fr.spec:
            t = ops.truth(self.ctx, c)
            if isinstance(t, bool):
                return self.ev(e.body if t else e.orelse, fr)
            a, b = self.ev(e.body, fr), self.ev(e.orelse, fr)
            return self.ite(t, a, b)
        if ops.truth_branch(self.ctx, c, f"ifexp@{e.lineno}"):
            return self.ev(e.body, fr)
        return self.ev(e.orelse, fr)

    def ite(self, c, a, b):
        if isinstance(a, (int, SymInt, bool, SymBool)) and isinstance(b, (int, SymInt, bool, SymBool)):
            if isinstance(a, (bool, SymBool)) and isinstance(b, (bool, SymBool)):
                return mk_bool(z3.If(c, ops.z3_of_bool(a), ops.z3_of_bool(b)))
            return mk_int(z3.If(c, ops.z3_of_int(a), ops.z3_of_int(b)))
        from .sym import kind_of_strlike, mk_str, str_to_z3

        ka, kb = kind_of_strlike(a), kind_of_strlike(b)
        if ka and ka == kb:
            return mk_str(z3.If(c, str_to_z3(a), str_to_z3(b)), ka)
        from .sym import PList as _PL, SymSeq as _SS

        if isinstance(a, (_PL, _SS, list)) and isinstance(b, (_PL, _SS, list)):
            def empty(x):
                return (isinstance(x, list) and not x) or (isinstance(x, _PL) and x.sym is None and not x.items)

            if empty(a) and empty(b):
                return _PL([])
            sa = ops.to_seq(self.ctx, a) if not empty(a) else None
            sb = ops.to_seq(self.ctx, b) if not empty(b) else None
            like = sa or sb
            ea = sa.e if sa is not None else z3.Empty(like.e.sort())
            eb = sb.e if sb is not None else z3.Empty(like.e.sort())
            return _PL(sym=_SS(z3.If(c, ea, eb), like.elem))
        raise Unsupported("ite on non scalar in spec")

    def ev_NamedExpr(self, e, fr):
        v = self.ev(e.value, fr)
        self.store_name(e.target.id, v, fr)
        return v

    def ev_Await(self, e, fr):
        if isinstance(e.value, ast.Call):
            return self.ev_Call(e.value, fr, awaited=True)
        v = self.ev(e.value, fr)
        return self.await_value(v, fr)

    def ev_Lambda(self, e, fr):
        return Closure(e, fr, fr.module)

    def ev_Starred(self, e, fr):
        raise Unsupported("starred")

    def ev_ListComp(self, e, fr):
        return self.comprehension(e, fr, "list")

    def ev_GeneratorExp(self, e, fr):
        return self.comprehension(e, fr, "gen")

    def ev_DictComp(self, e, fr):
        return self.comprehension(e, fr, "dict")

    def ev_SetComp(self, e, fr):
        return self.comprehension(e, fr, "set")
