"""Assumed contracts on dependencies, written at the meta level (DESIGN 2.6).

MODEL_CLASSES: name -> model (for abstract classes referred to by name in contracts)
MODEL_BY_REAL: real class -> model (so that `h11.Connection(...)` in the code builds the model)
"""
from __future__ import annotations

from typing import Any, Dict

MODEL_CLASSES: Dict[str, Any] = {}
MODEL_BY_REAL: Dict[Any, Any] = {}
EXC_ALIASES: Dict[str, Any] = {}


def register(name=None, real=None):
    def deco(cls):
        inst = cls()
        if name:
            MODEL_CLASSES[name] = inst
        if real is not None:
            for r in real if isinstance(real, (list, tuple)) else [real]:
                MODEL_BY_REAL[r] = inst
        return cls

    return deco


def builtin_table(interp):
    t = {}
    for f in _BUILTIN_HOOKS:
        t.update(f(interp))
    return t


_BUILTIN_HOOKS = []


def builtin_hook(f):
    _BUILTIN_HOOKS.append(f)
    return f


def load_all():
    from . import models_h2  # noqa: F401
    from . import models_ws  # noqa: F401
    from . import models_h11  # noqa: F401


load_all()
