"""Assumed contracts on dependencies, written at the meta level (DESIGN 2.6).

MODEL_CLASSES: name -> model (for abstract classes referred to by name in contracts)
MODEL_BY_REAL: real class -> model (so that `h11.Connection(...)` in the code builds the model)
"""
from __future__ import annotations

from typing import Any, Dict

MODEL_CLASSES: Dict[str, Any] = {}
MODEL_BY_REAL: Dict[Any, Any] = {}
EXC_ALIASES: Dict[str, Any] = {}


def register(name=None, real=None):
    def deco(cls):
        inst = cls()
        if name:
            MODEL_CLASSES[name] = inst
        if real is not None:
            for r in real if isinstance(real, (list, tuple)) else [real]:
                MODEL_BY_REAL[r] = inst
        return cls

    return deco


def builtin_table(interp):
    t = {}
    for f in _BUILTIN_HOOKS:
        t.update(f(interp))
    return t


_BUILTIN_HOOKS = []
import z3 as _z3

_Str = _z3.StringSort()
f_urlunsplit = _z3.Function("urlunsplit", _Str, _Str, _Str, _Str, _Str, _Str)


def builtin_hook(f):
    _BUILTIN_HOOKS.append(f)
    return f


@register(name="pyvc:Callable")
class CallableModel:
    """an abstract callable passed as argument (application, send, receive ...): calls are
    recorded in the trace named by the object's `record`; it may raise one of `raises`"""

    def m___call__(self, interp, obj, args, kwargs, fr):
        from .ops import PyRaise
        from .sym import SObj

        if obj.fields.get("coro"):
            # an async function: calling it only creates the coroutine
            c = SObj("pyvc:CoroOf", {"fn": obj, "args": tuple(args)}, tag=f"coro({obj.tag})")
            if obj.fields.get("record"):
                interp.traces.setdefault(obj.fields["record"], []).append(c)
            return c
        rec = obj.fields.get("record")
        if rec:
            entry = tuple(args) if len(args) != 1 else args[0]
            if "index" in obj.fields:
                entry = (obj.fields["index"],) + tuple(interp.snap(a, {}) for a in args)
            interp.traces.setdefault(rec, []).append(entry)
        raises = obj.fields.get("raises") or []
        if raises:
            names = ["normal"] + [r.__name__ for r in raises]
            k = interp.ctx.choose(len(names), f"call({obj.tag})@{fr.line}", names)
            if k > 0:
                if obj.fields.get("yields"):
                    interp.yield_point(fr, f"callable {obj.tag}")
                ex = SObj(raises[k - 1], {"args": ()})
                if rec:
                    interp.traces.setdefault(rec + "_raised", []).append(ex)
                hook = obj.fields.get("on_raise")
                if hook:
                    hook(interp, ex)
                raise PyRaise(ex, f"{obj.tag} called at {fr.where()}")
        if obj.fields.get("yields"):
            interp.yield_point(fr, f"callable {obj.tag}")
        ret = obj.fields.get("returns")
        if ret:
            return interp.make_symbolic(ret, interp.ctx.fresh_name(f"ret_{obj.tag}"))
        return None


@register(name="pyvc:CoroOf")
class CoroOfModel:
    def m___await__(self, interp, obj, args, kwargs, fr):
        from .sym import SObj

        fn = obj.fields.get("fn")
        if isinstance(fn, SObj) and fn.fields.get("yields", True):
            interp.yield_point(fr, f"await {obj.tag}")
        rec = fn.fields.get("record") if isinstance(fn, SObj) else None
        if rec:
            interp.traces.setdefault(rec + "_done", []).append(obj)  # the coroutine ran to completion
        return None


def load_all():
    from . import models_h2  # noqa: F401
    from . import models_ws  # noqa: F401
    from . import models_h11  # noqa: F401
    from . import models_cli  # noqa: F401
    from . import models_rt  # noqa: F401
    from . import models_io  # noqa: F401
    from . import models_serve  # noqa: F401
    from . import models_wsgi  # noqa: F401


load_all()


# ------------------------------------------------------------------------------------------------
@register(name="pyvc:Mounts")
class MountsModel:
    """DispatcherMiddleware.mounts: an insertion ordered dict str -> application, of any size.
    keys: z3 Seq(String); the application mounted at position j is the abstract callable #j."""

    def symbolic(self, interp, name):
        import z3

        from .sym import SObj, StrSeq

        ks = z3.Const(interp.ctx.fresh_name(name + ".keys"), StrSeq)
        interp.ctx.inputs[str(ks)] = ks
        return SObj("pyvc:Mounts", {"keys": ks}, tag=name)

    def m_items(self, interp, obj, args, kwargs, fr):
        from .sym import SObj

        return SObj("pyvc:MountItems", {"mounts": obj})

    def m___iter__keys(self, interp, obj):
        from .sym import SymSeq

        return SymSeq(obj.fields["keys"], "str")

    def iter_source(self, interp, obj, fr):  # `for path in self.mounts`
        from .sym import SymSeq

        return SymSeq(obj.fields["keys"], "str")

    def m_values(self, interp, obj, args, kwargs, fr):
        raise __import__("pyvc.ctx", fromlist=["Unsupported"]).Unsupported("mounts.values()")

    def m_get(self, interp, obj, args, kwargs, fr):
        """mounts.get(key[, default]): the application mounted exactly at `key` (the abstract
        callable of its position), or the default when no mount has that key"""
        import z3

        from .sym import SObj, str_to_z3

        ctx = interp.ctx
        key = str_to_z3(args[0])
        ks = obj.fields["keys"]
        if ctx.choose(2, f"mounts.get@{fr.line}", ["hit", "miss"]) == 0:
            j = ctx.fresh("_mount_j", z3.IntSort())
            ctx.assume(z3.And(j >= 0, j < z3.Length(ks), ks[j] == key))
            # a dict has one entry per key: no other position holds it
            ctx.assume_forall(lambda i: z3.Implies(z3.And(i >= 0, i < z3.Length(ks), i != j), ks[i] != key))
            ctx.add_key(j)
            interp.loop_index_value = j
            return SObj("pyvc:Callable", {"record": "mounted_app", "raises": [], "returns": None, "yields": True, "index": j}, tag="mounted_app")
        ctx.assume_forall(lambda i: z3.Implies(z3.And(i >= 0, i < z3.Length(ks)), ks[i] != key))
        return args[1] if len(args) > 1 else None


class _MountItemsSource:
    def __init__(self, mounts):
        self.mounts = mounts
        self.e = mounts.fields["keys"]  # so that tail_len() sees a sequence

    def elem(self, interp, i, fr):
        from .sym import SObj, mk_str

        app = SObj("pyvc:Callable", {"record": "mounted_app", "raises": [], "returns": None, "yields": True, "index": i}, tag="mounted_app")
        interp.loop_index_value = i
        return (mk_str(self.mounts.fields["keys"][i], "str"), app)


@register(name="pyvc:MountItems")
class MountItemsModel:
    def iter_source(self, interp, obj, fr):
        return _MountItemsSource(obj.fields["mounts"])


@builtin_hook
def _url_builtins(interp):
    import urllib.parse

    from .sym import SymStr, is_sym, mk_str, str_to_z3

    def urlunsplit(a, k, fr):
        parts = a[0]
        if not any(is_sym(p) for p in parts):
            return urllib.parse.urlunsplit(parts)
        interp.ctx.assumptions_used.add("urllib.parse.urlunsplit is an uninterpreted function of its five components")
        return mk_str(f_urlunsplit(*[str_to_z3(p) for p in parts]), "str")

    return {urllib.parse.urlunsplit: urlunsplit}


@builtin_hook
def _misc_builtins(interp):
    import wsgiref.handlers

    import z3

    from .sym import Str, SymStr

    def format_date_time(a, k, fr):
        # an RFC 7231 date string: opaque (well-formedness is the standard library's)
        interp.ctx.assumptions_used.add("wsgiref.handlers.format_date_time returns a well-formed RFC 7231 date (uninterpreted)")
        from .sym import s_ascii_ok

        d = interp.ctx.fresh("http_date", Str)
        interp.ctx.assume(s_ascii_ok(d))
        return SymStr(d, "str")

    return {wsgiref.handlers.format_date_time: format_date_time}


@builtin_hook
def _cli_builtins(interp):
    import warnings

    t = {warnings.warn: lambda a, k, fr: None}
    try:
        import hypercorn.run as hr

        def run(a, k, fr):
            interp.traces.setdefault("run", []).append(a[0])
            return 0

        t[hr.run] = run
    except Exception:
        pass
    return t


# ------------------------------------------------------------------------------------------------
_B = _z3.BoolSort()
f_all_true = _z3.Function("all_flags_true", _z3.ArraySort(_Str, _B), _z3.ArraySort(_Str, _B), _B)


def flags_all(interp, has, val, keys=()):
    """all(table.values()) for a str -> bool table given by (has, val): the uninterpreted
    predicate all_flags_true(has, val), pinned down by instances of its definition
        all_flags_true(has, val)  <=>  forall k. has[k] => val[k]
    at the keys in play (=>) and at a witness of its negation (<=)."""
    ctx = interp.ctx
    r = f_all_true(has, val)
    for k in keys:
        ctx.assume(_z3.Implies(r, _z3.Implies(_z3.Select(has, k), _z3.Select(val, k))))
    w = ctx.fresh("flag_witness", _Str)
    ctx.assume(_z3.Implies(_z3.Not(r), _z3.And(_z3.Select(has, w), _z3.Not(_z3.Select(val, w)))))
    return r


@register(name="pyvc:FlagTable")
class FlagTableModel:
    """Dict[str, bool] of any size (DispatcherMiddleware.startup_complete / shutdown_complete: one
    flag per mount).  State: has, val : Array(String, Bool).  Other tasks (the send() calls of the
    other mounts) only ever set flags: across a suspension entries stay and True stays True
    (assumed rely of the table, which every send() of the class guarantees: obligation
    C20.fanout.marks-only-own)."""

    def symbolic(self, interp, name):
        from .sym import SObj

        ctx = interp.ctx
        A = _z3.ArraySort(_Str, _B)
        return SObj("pyvc:FlagTable", {"has": ctx.fresh(name + ".has", A), "val": ctx.fresh(name + ".val", A), "keys": []}, tag=name)

    def m___setitem__(self, interp, obj, args, kwargs, fr):
        from . import ops
        from .sym import str_to_z3

        k = str_to_z3(args[0])
        t = ops.truth(interp.ctx, args[1])
        tz = _z3.BoolVal(t) if isinstance(t, bool) else t
        obj.fields["has"] = _z3.Store(obj.fields["has"], k, _z3.BoolVal(True))
        obj.fields["val"] = _z3.Store(obj.fields["val"], k, tz)
        obj.fields["keys"] = obj.fields["keys"] + [k]
        return None

    def m___getitem__(self, interp, obj, args, kwargs, fr):
        from .ops import mk_exc
        from .sym import SymBool, str_to_z3

        k = str_to_z3(args[0])
        if not interp.ctx.branch(_z3.Select(obj.fields["has"], k), f"flag-known@{fr.line}"):
            raise mk_exc(KeyError, "no such mount", where=fr.where())
        obj.fields["keys"] = obj.fields["keys"] + [k]
        return SymBool(_z3.Select(obj.fields["val"], k))

    def m_values(self, interp, obj, args, kwargs, fr):
        from .sym import SObj

        return SObj("pyvc:FlagValues", {"has": obj.fields["has"], "val": obj.fields["val"], "keys": list(obj.fields["keys"])}, tag="flags")

    def havoc(self, interp, obj):
        ctx = interp.ctx
        A = _z3.ArraySort(_Str, _B)
        h0, v0 = obj.fields["has"], obj.fields["val"]
        h1, v1 = ctx.fresh((obj.tag or "flags") + ".has'", A), ctx.fresh((obj.tag or "flags") + ".val'", A)
        for k in obj.fields["keys"]:
            ctx.assume(_z3.And(_z3.Implies(_z3.Select(h0, k), _z3.Select(h1, k)), _z3.Implies(_z3.And(_z3.Select(h0, k), _z3.Select(v0, k)), _z3.Select(v1, k))))
        ctx.assumptions_used.add("flag tables of DispatcherMiddleware: while a send() is suspended other tasks only set flags (entries stay, True stays True)")
        obj.fields["has"], obj.fields["val"] = h1, v1


@register(name="pyvc:FlagValues")
class FlagValuesModel:
    """table.values(): only all() / any() are defined on it"""

    def quantify_all(self, interp, obj):
        from .sym import SymBool

        return SymBool(flags_all(interp, obj.fields["has"], obj.fields["val"], obj.fields["keys"]))


@builtin_hook
def _inspect_builtins(interp):
    import inspect

    def iscoroutinefunction(a, k, fr):
        # whether an application object is a coroutine function is not modelled: either answer
        interp.ctx.assumptions_used.add("inspect.iscoroutinefunction of an application object: either answer (not modelled)")
        from .sym import SymBool

        return SymBool(_z3.Bool(interp.ctx.fresh_name("iscoroutinefunction")))

    return {inspect.iscoroutinefunction: iscoroutinefunction}
