"""Command line (hypercorn/__main__.py): the real argparse parser object is built natively by the
code under verification (all add_argument calls are concrete); only parse_args() is replaced: it
returns a namespace in which every option is either *not given* (its default) or *given* with an
arbitrary value of the option's type."""
from __future__ import annotations

import argparse

import z3

from . import ops
from .ctx import Unsupported
from .models import MODEL_BY_REAL, MODEL_CLASSES, builtin_hook, register
from .sym import PList, SObj, Str, StrSeq, Sym, SymBool, SymInt, SymOpaque, SymSeq, SymStr, mk_int


class SymGiven(Sym):
    """value of an option: `given` (z3 Bool) ? value : default (a concrete python object)"""

    __slots__ = ("given", "value", "default", "dest")

    def __init__(self, given, value, default, dest):
        self.given = given
        self.value = value
        self.default = default
        self.dest = dest


def make_namespace(interp, parser: argparse.ArgumentParser) -> SObj:
    ctx = interp.ctx
    ns = SObj("pyvc:Namespace", {}, tag="args")
    for act in parser._actions:
        if isinstance(act, argparse._HelpAction):
            continue
        d = act.dest
        given = z3.Bool(f"given({d})")
        ctx.inputs[f"given({d})"] = given
        if isinstance(act, argparse._StoreTrueAction):
            val = True
        elif isinstance(act, argparse._AppendAction):
            sq = z3.Const(f"args.{d}", StrSeq)
            ctx.assume(z3.Length(sq) >= 1)
            val = PList(sym=SymSeq(sq, "str"))
        elif act.type is int:
            v = z3.Int(f"args.{d}")
            ctx.inputs[f"args.{d}"] = v
            val = SymInt(v)
        elif act.type is None:
            v = z3.String(f"args.{d}")
            ctx.inputs[f"args.{d}"] = v
            val = SymStr(v, "str")
        else:  # converted by a type function (verify mode): opaque converted value
            from .sym import Opaque

            val = SymOpaque(z3.Const(f"args.{d}", Opaque), d)
        if not act.option_strings:  # positional: always given
            ctx.assume(given)
        fc = interp.reg.fns.get(getattr(interp, "unit_qual", ""))
        if fc is not None and d in fc.model_opts.get("cli_not_given", ()):
            ctx.assume(z3.Not(given))
        ns.fields[d] = SymGiven(given, val, act.default, d)
    ns.fields["$parser"] = parser
    return ns


@register(name="pyvc:Namespace")
class NamespaceModel:
    pass


def unwrap_given(interp, v):
    """read an option value where a plain value is needed: decided by the path condition"""
    if not isinstance(v, SymGiven):
        return v
    d = interp.ctx.decided(v.given)
    if d is True:
        return v.value
    if d is False:
        return wrap_default(v.default)
    if interp.ctx.branch(v.given, f"given({v.dest})"):
        return v.value
    return wrap_default(v.default)


def wrap_default(d):
    if isinstance(d, list):
        return PList(list(d))
    return d
