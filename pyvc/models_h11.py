"""Assumed contract for h11.Connection (server role), h11 0.16.  Trusted; see DESIGN 2.6 and
Appendix A."""
from __future__ import annotations

import h11
import z3

from . import ops
from .ctx import PathEnd, Unsupported
from .models import EXC_ALIASES, MODEL_BY_REAL, MODEL_CLASSES, register
from .ops import PyRaise, mk_exc
from .sym import PairSeq, PList, SObj, Str, SymBool, SymBytes, SymEnum, SymInt, SymSeq, SymStr, mk_bool, mk_int, z3_of_int

I = z3.IntSort()
EXC_ALIASES["h11.LocalProtocolError"] = h11.LocalProtocolError
EXC_ALIASES["h11.RemoteProtocolError"] = h11.RemoteProtocolError


class _States:
    """option set behaving like an Enum class for SymEnum"""

    members = [h11.IDLE, h11.SEND_RESPONSE, h11.SEND_BODY, h11.DONE, h11.MUST_CLOSE, h11.CLOSED, h11.ERROR, h11.MIGHT_SWITCH_PROTOCOL, h11.SWITCHED_PROTOCOL]
    __name__ = "h11.state"
    __module__ = "h11"
    __qualname__ = "state"

    def __iter__(self):
        return iter(self.members)


STATES = _States()


def sidx(s):
    return STATES.members.index(s)


def st_is(v, s):
    """z3 Bool: state value v (concrete sentinel or SymEnum) is s"""
    if isinstance(v, SymEnum):
        return v.e == sidx(s)
    return z3.BoolVal(v is s)


def st_in(v, ss):
    return z3.Or(*[st_is(v, s) for s in ss])


@register(name="M_h11", real=h11.Connection)
class H11ConnModel:
    real_class = h11.Connection

    def _fresh(self, interp, obj, name):
        ctx = interp.ctx
        f = obj.fields
        for side in ("our_state", "their_state"):
            e = ctx.fresh(f"{name}.{side}", I)
            ctx.assume(z3.And(e >= 0, e < len(STATES.members)))
            ctx.inputs[str(e)] = e
            f[side] = SymEnum(STATES, e)
        f["they_are_waiting_for_100_continue"] = SymBool(z3.Bool(ctx.fresh_name(name + ".waiting_100")))
        f["pending"] = SymBool(z3.Bool(ctx.fresh_name(name + ".pending")))  # unparsed bytes buffered
        f["recv_closed"] = SymBool(z3.Bool(ctx.fresh_name(name + ".recv_closed")))
        # a 100-continue is only outstanding while the request body is still expected
        ctx.assume(z3.Implies(f["they_are_waiting_for_100_continue"].e, z3.And(st_is(f["their_state"], h11.SEND_BODY), st_is(f["our_state"], h11.SEND_RESPONSE))))
        # server side reachable combinations: we are IDLE exactly while the client is IDLE
        ctx.assume(st_is(f["their_state"], h11.IDLE) == st_is(f["our_state"], h11.IDLE))

    def symbolic(self, interp, name):
        obj = SObj(h11.Connection, {}, tag=name)
        self._fresh(interp, obj, name)
        obj.fields["trailing"] = ops.fresh_payload(interp.ctx, name + ".trailing")
        obj.fields["max_incomplete_event_size"] = mk_int(interp.ctx.fresh(name + ".max_incomplete", I))
        return obj

    def new(self, interp, cls, args, kwargs, fr):
        obj = SObj(h11.Connection, {}, tag="h11conn")
        obj.fields.update({
            "our_state": h11.IDLE, "their_state": h11.IDLE, "they_are_waiting_for_100_continue": False,
            "pending": False, "recv_closed": False, "trailing": ops.payload_lit(interp.ctx, b""),
            "role": args[0] if args else kwargs.get("our_role"),
            "max_incomplete_event_size": kwargs.get("max_incomplete_event_size", 16 * 1024),
        })
        interp.register_shared(obj)
        return obj

    def havoc(self, interp, obj):
        # the other tasks on this connection (reader / application) drive the same state machine --
        # but only a stream's application sends through it: while no stream is attached to the
        # protocol nobody else touches the connection
        us = interp.unit_self
        if us is not None and us.fields.get("connection") is obj and "stream" in us.fields:
            pre = getattr(interp, "pre_havoc_self", None)
            st = (pre if pre is not None else us).fields["stream"]
            if st is None or (hasattr(st, "is_none") and interp.ctx.decided(st.is_none) is True):
                return
        keep = {k: obj.fields[k] for k in ("role", "max_incomplete_event_size") if k in obj.fields}
        old_their, old_our = obj.fields["their_state"], obj.fields["our_state"]
        self._fresh(interp, obj, obj.tag or "h11conn")
        # ERROR is absorbing on either side
        interp.ctx.assume(z3.Implies(st_is(old_their, h11.ERROR), st_is(obj.fields["their_state"], h11.ERROR)))
        interp.ctx.assume(z3.Implies(st_is(old_our, h11.ERROR), st_is(obj.fields["our_state"], h11.ERROR)))
        obj.fields["trailing"] = ops.fresh_payload(interp.ctx, "trailing")
        obj.fields.update(keep)

    def get_trailing_data(self, interp, obj, fr):
        return (obj.fields["trailing"], SymBool(z3.Bool(interp.ctx.fresh_name("trailing_closed"))))

    # -------------------------------------------------------------------------------------
    def m_receive_data(self, interp, obj, args, kwargs, fr):
        ctx = interp.ctx
        data = ops.as_payload(ctx, args[0])
        closed = ops.z3_of_bool(obj.fields["recv_closed"])
        if ctx.branch(z3.And(closed, data.n > 0), f"h11.data-after-eof@{fr.line}"):
            raise PyRaise(SObj(RuntimeError, {"args": ()}), fr.where())
        obj.fields["recv_closed"] = mk_bool(z3.Or(closed, data.n == 0))
        obj.fields["pending"] = SymBool(z3.Bool(ctx.fresh_name("h11.pending")))
        interp.traces.setdefault("h11_in", []).append(data)
        return None

    def _request(self, interp):
        ctx = interp.ctx
        ev = SObj(h11.Request, {}, tag="req")
        for nm in ("method", "target", "http_version"):
            s = z3.String(ctx.fresh_name(f"req.{nm}"))
            ctx.inputs[str(s)] = s
            ev.fields[nm] = SymStr(s, "bytes")
        # what h11 guarantees: non-empty token method (ascii), non-empty visible-ascii target,
        # version 1.0 or 1.1, header names lower-cased non-empty tokens
        from .sym import s_ascii_ok

        ctx.assume(z3.And(z3.Length(ev.fields["method"].e) >= 1, s_ascii_ok(ev.fields["method"].e), z3.Length(ev.fields["target"].e) >= 1, s_ascii_ok(ev.fields["target"].e)))
        # any "d.d" version reaches hypercorn (this is how the cleartext HTTP/2 preface PRI * HTTP/2.0 is seen)
        ctx.assume(z3.And(z3.Length(ev.fields["http_version"].e) == 3, s_ascii_ok(ev.fields["http_version"].e)))
        hs = z3.Const(ctx.fresh_name("req.headers"), PairSeq)
        ctx.inputs[str(hs)] = hs
        from .sym import Pair, s_lower

        ctx.seq_facts.append((hs, lambda el: z3.And(z3.Length(Pair.fst(el)) >= 1, s_lower(Pair.fst(el)) == Pair.fst(el), s_ascii_ok(Pair.fst(el)))))
        ev.fields["headers"] = PList(sym=SymSeq(hs, "pair"))
        return ev

    def m_next_event(self, interp, obj, args, kwargs, fr):
        """DESIGN appendix A.  What may be returned depends on the client's state."""
        ctx = interp.ctx
        f = obj.fields
        their, our = f["their_state"], f["our_state"]
        alts = ["NEED_DATA", "Request", "Data", "EndOfMessage", "ConnectionClosed", "PAUSED", "RemoteProtocolError"]
        k = ctx.choose(len(alts), f"h11.next_event@{fr.line}", alts)
        a = alts[k]
        if a == "NEED_DATA":
            ctx.assume_checked(z3.Not(st_in(their, [h11.ERROR])), "need-data")
            return h11.NEED_DATA
        if a == "Request":
            ctx.assume_checked(st_is(their, h11.IDLE), "request only when idle")
            ev = self._request(interp)
            nxt = ctx.fresh("h11.their", I)
            ctx.assume(z3.Or(nxt == sidx(h11.SEND_BODY), nxt == sidx(h11.DONE), nxt == sidx(h11.MIGHT_SWITCH_PROTOCOL)))
            f["their_state"] = SymEnum(STATES, nxt)
            f["our_state"] = h11.SEND_RESPONSE
            w = z3.Bool(ctx.fresh_name("h11.waiting_100"))
            ctx.assume(z3.Implies(w, nxt == sidx(h11.SEND_BODY)))
            f["they_are_waiting_for_100_continue"] = SymBool(w)
            us = interp.unit_self
            if us is not None and "g_requests" in us.fields:
                us.fields["g_requests"] = ops.binop(ctx, __import__("ast").Add(), us.fields["g_requests"], 1)
            return ev
        if a == "Data":
            ctx.assume_checked(st_is(their, h11.SEND_BODY), "data only in body")
            f["they_are_waiting_for_100_continue"] = False
            return SObj(h11.Data, {"data": ops.fresh_payload(ctx, "h11.data"), "chunk_start": False, "chunk_end": False})
        if a == "EndOfMessage":
            ctx.assume_checked(st_is(their, h11.SEND_BODY), "eom only in body")
            nxt = ctx.fresh("h11.their", I)
            ctx.assume(z3.Or(nxt == sidx(h11.DONE), nxt == sidx(h11.MUST_CLOSE)))
            f["their_state"] = SymEnum(STATES, nxt)
            f["they_are_waiting_for_100_continue"] = False
            return SObj(h11.EndOfMessage, {"headers": PList([])})
        if a == "ConnectionClosed":
            ctx.assume_checked(z3.And(ops.z3_of_bool(f["recv_closed"]), st_in(their, [h11.IDLE, h11.DONE, h11.MUST_CLOSE, h11.CLOSED])), "closed")
            f["their_state"] = h11.CLOSED
            return SObj(h11.ConnectionClosed, {})
        if a == "PAUSED":
            ctx.assume_checked(z3.And(st_in(their, [h11.DONE, h11.MUST_CLOSE, h11.MIGHT_SWITCH_PROTOCOL, h11.SWITCHED_PROTOCOL]), ops.z3_of_bool(f["pending"])), "paused")
            return h11.PAUSED
        # RemoteProtocolError: malformed input (or EOF mid-message); the client side is ERROR now
        f["their_state"] = h11.ERROR
        hint = ctx.fresh("error_status_hint", I)
        ctx.assume(z3.And(hint >= 400, hint <= 599))
        interp.traces.setdefault("h11_err", []).append(mk_int(hint))
        raise PyRaise(SObj(h11.RemoteProtocolError, {"args": (), "error_status_hint": mk_int(hint)}), fr.where())

    def m_send(self, interp, obj, args, kwargs, fr):
        ctx = interp.ctx
        f = obj.fields
        ev = args[0]
        our = f["our_state"]

        def fail():
            f["our_state"] = h11.ERROR
            interp.traces.setdefault("h11_refused", []).append(ev)  # contracts: what became of a refused send
            raise PyRaise(SObj(h11.LocalProtocolError, {"args": ()}), fr.where())

        cls = ev.cls if isinstance(ev, SObj) else None
        if cls is h11.InformationalResponse:
            if not ctx.branch(st_is(our, h11.SEND_RESPONSE), f"h11.send.state@{fr.line}"):
                fail()
            if not self._server_headers(interp) and ctx.choose(2, f"h11.send.headers@{fr.line}", ["ok", "LocalProtocolError"]) == 1:
                fail()
            f["they_are_waiting_for_100_continue"] = False
            sc = ev.fields.get("status_code")
            # 101 switches protocols
            if not ops.is_sym(sc) and sc == 101:
                f["our_state"] = h11.SWITCHED_PROTOCOL
        elif cls is h11.Response:
            if not ctx.branch(st_is(our, h11.SEND_RESPONSE), f"h11.send.state@{fr.line}"):
                fail()
            # header validation (names/values, content-length) can reject what the application gave
            if not self._server_headers(interp) and ctx.choose(2, f"h11.send.headers@{fr.line}", ["ok", "LocalProtocolError"]) == 1:
                fail()
            f["our_state"] = h11.SEND_BODY
            f["they_are_waiting_for_100_continue"] = False
        elif cls is h11.Data:
            if not ctx.branch(st_is(our, h11.SEND_BODY), f"h11.send.state@{fr.line}"):
                fail()
            # more data than the declared content-length
            if ctx.choose(2, f"h11.send.length@{fr.line}", ["ok", "LocalProtocolError"]) == 1:
                fail()
        elif cls is h11.EndOfMessage:
            if not ctx.branch(st_is(our, h11.SEND_BODY), f"h11.send.state@{fr.line}"):
                fail()
            # fewer bytes than the declared content-length
            if not self._server_headers(interp) and ctx.choose(2, f"h11.send.length@{fr.line}", ["ok", "LocalProtocolError"]) == 1:
                fail()
            nxt = ctx.fresh("h11.our", I)
            ctx.assume(z3.Or(nxt == sidx(h11.DONE), nxt == sidx(h11.MUST_CLOSE)))
            f["our_state"] = SymEnum(STATES, nxt)
        else:
            raise Unsupported(f"h11 send of {ev!r}")
        interp.traces.setdefault("h11", []).append(ev)
        return ops.fresh_payload(ctx, "h11wire")

    def _server_headers(self, interp):
        """units that only send server generated headers (date/server/alt-svc from the
        configuration): h11 accepts them (assumption listed in the evidence)"""
        fc = interp.reg.fns.get(getattr(interp, "unit_qual", ""))
        ok = bool(fc and fc.model_opts.get("h11_server_headers_ok"))
        if ok:
            interp.ctx.assumptions_used.add("h11 accepts the server generated headers (date, server, alt-svc from the configuration)")
        return ok

    def m_start_next_cycle(self, interp, obj, args, kwargs, fr):
        ctx = interp.ctx
        f = obj.fields
        ok = z3.And(st_is(f["our_state"], h11.DONE), st_is(f["their_state"], h11.DONE))
        if not ctx.branch(ok, f"h11.both-done@{fr.line}"):
            f["our_state"] = h11.ERROR
            raise PyRaise(SObj(h11.LocalProtocolError, {"args": ()}), fr.where())
        f["our_state"] = h11.IDLE
        f["their_state"] = h11.IDLE
        interp.traces.setdefault("h11", []).append("start_next_cycle")
        return None


class _ReqSym:
    def symbolic(self, interp, name):
        return MODEL_BY_REAL[h11.Connection]._request(interp)


MODEL_CLASSES["h11:Request"] = _ReqSym()
