"""Assumed contracts for h2.connection.H2Connection (4.4.1) and priority.PriorityTree (2.0).

These are *trusted*: they are listed in every evidence file that uses them and are conformance-
fuzzed against the installed libraries in the thorough tier (tools/conformance_h2.py).
State lives in SObj.fields as raw z3 terms.
"""
from __future__ import annotations

import h2.config
import h2.connection
import h2.events
import h2.exceptions
import h2.settings
import priority
import z3

from . import ops
from .ctx import PathEnd, Unsupported
from .models import EXC_ALIASES, MODEL_BY_REAL, MODEL_CLASSES, register
from .ops import PyRaise, mk_exc
from .sym import PDict, PList, PSet, SObj, SymBool, SymBytes, SymInt, SymSeq, SymStr, mk_bool, mk_int, z3_of_int, PairSeq, Pair

I, B = z3.IntSort(), z3.BoolSort()

for _n in ("StreamClosedError", "ProtocolError", "FlowControlError", "FrameTooLargeError", "NoSuchStreamError"):
    EXC_ALIASES["h2." + _n] = getattr(h2.exceptions, _n)
for _n in ("DeadlockError", "MissingStreamError", "DuplicateStreamError", "TooManyStreamsError", "PseudoStreamError", "PriorityLoop", "BadWeightError"):
    EXC_ALIASES["priority." + _n] = getattr(priority, _n)


def _raise(cls, where):
    raise PyRaise(SObj(cls, {"args": ()}), where)


# ================================================================================== priority
@register(name="M_prio", real=priority.PriorityTree)
class PriorityModel:
    """set of streams in the tree (`has`), which of them are unblocked (`active`), and how many."""

    real_class = priority.PriorityTree
    MAX = 1000

    def _fresh(self, interp, obj, name):
        ctx = interp.ctx
        obj.fields["has"] = z3.Array(ctx.fresh_name(name + ".has"), I, B)
        obj.fields["active"] = z3.Array(ctx.fresh_name(name + ".active"), I, B)
        n = ctx.fresh(name + ".n", I)
        obj.fields["n"] = n
        ctx.assume(z3.And(n >= 1, n <= self.MAX))
        ctx.assume(z3.Select(obj.fields["has"], 0))  # the root pseudo stream
        ctx.assume(z3.Not(z3.Select(obj.fields["active"], 0)))

    def symbolic(self, interp, name):
        obj = SObj(priority.PriorityTree, {}, tag=name)
        self._fresh(interp, obj, name)
        return obj

    def new(self, interp, cls, args, kwargs, fr):
        obj = SObj(priority.PriorityTree, {}, tag="priority")
        # the capacity the tree was built with (the library's default is 1000 nodes; the root
        # counts): contracts can ask that it has not been reduced (get_capacity)
        cap = kwargs.get("maximum_streams", args[0] if args else self.MAX)
        obj.fields["capacity"] = cap
        obj.fields["has"] = z3.Store(z3.K(I, z3.BoolVal(False)), 0, z3.BoolVal(True))
        obj.fields["active"] = z3.K(I, z3.BoolVal(False))
        obj.fields["n"] = z3.IntVal(1)
        interp.register_shared(obj)
        return obj

    def get_capacity(self, interp, obj, fr):
        c = obj.fields.get("capacity", self.MAX)
        return c if not isinstance(c, int) else mk_int(z3.IntVal(c))

    def havoc(self, interp, obj):
        # other tasks insert / remove / block / unblock streams while this one is suspended
        self._fresh(interp, obj, obj.tag or "priority")

    # -- operations ------------------------------------------------------------------------
    def _sid(self, args, kwargs, name="stream_id"):
        return z3_of_int(args[0] if args else kwargs[name])

    def _key(self, interp, sid):
        interp.ctx.add_key(sid)

    def _need(self, interp, obj, sid, fr, what):
        ctx = interp.ctx
        ctx.add_key(sid)
        if ctx.branch(sid == 0, f"{what}(0)"):
            _raise(priority.PseudoStreamError, fr.where())
        if not ctx.branch(z3.Select(obj.fields["has"], sid), f"{what}:in-tree@{fr.line}"):
            _raise(priority.MissingStreamError, fr.where())

    def m_block(self, interp, obj, args, kwargs, fr):
        sid = self._sid(args, kwargs)
        self._need(interp, obj, sid, fr, "block")
        interp.unit_call_requires("PriorityTree.block", fr)
        obj.fields["active"] = z3.Store(obj.fields["active"], sid, z3.BoolVal(False))

    def m_unblock(self, interp, obj, args, kwargs, fr):
        sid = self._sid(args, kwargs)
        self._need(interp, obj, sid, fr, "unblock")
        obj.fields["active"] = z3.Store(obj.fields["active"], sid, z3.BoolVal(True))

    def m_remove_stream(self, interp, obj, args, kwargs, fr):
        sid = self._sid(args, kwargs)
        self._need(interp, obj, sid, fr, "remove")
        obj.fields["has"] = z3.Store(obj.fields["has"], sid, z3.BoolVal(False))
        obj.fields["active"] = z3.Store(obj.fields["active"], sid, z3.BoolVal(False))
        obj.fields["n"] = obj.fields["n"] - 1

    def _insert_parent(self, interp, obj, dep, fr):
        """_get_or_insert_parent: a missing parent is inserted blocked (may hit the stream limit)"""
        ctx = interp.ctx
        if dep is None:
            return
        d = z3_of_int(dep)
        ctx.add_key(d)
        if ctx.branch(z3.Or(d == 0, z3.Select(obj.fields["has"], d)), f"parent-known@{fr.line}"):
            return
        if not ctx.branch(obj.fields["n"] + 1 <= self.MAX, f"room-for-parent@{fr.line}"):
            _raise(priority.TooManyStreamsError, fr.where())
        obj.fields["has"] = z3.Store(obj.fields["has"], d, z3.BoolVal(True))
        obj.fields["active"] = z3.Store(obj.fields["active"], d, z3.BoolVal(False))
        obj.fields["n"] = obj.fields["n"] + 1

    def _dep(self, interp, v):
        """`depends_on or None` already applied by the caller; None / 0 mean the root"""
        if v is None:
            return None
        return v

    def m_insert_stream(self, interp, obj, args, kwargs, fr):
        ctx = interp.ctx
        sid = self._sid(args, kwargs)
        dep = kwargs.get("depends_on", args[1] if len(args) > 1 else None)
        weight = kwargs.get("weight", args[2] if len(args) > 2 else 16)
        ctx.add_key(sid)
        if ctx.branch(z3.Select(obj.fields["has"], sid), f"insert:dup@{fr.line}"):
            _raise(priority.DuplicateStreamError, fr.where())
        if not ctx.branch(obj.fields["n"] + 1 <= self.MAX, f"insert:room@{fr.line}"):
            _raise(priority.TooManyStreamsError, fr.where())
        w = z3_of_int(weight)
        if not ctx.branch(z3.And(w >= 1, w <= 256), f"insert:weight@{fr.line}"):
            _raise(priority.BadWeightError, fr.where())
        if dep is not None:
            if ctx.branch(z3_of_int(dep) == sid, f"insert:self-dep@{fr.line}"):
                _raise(priority.PriorityLoop, fr.where())
            self._insert_parent(interp, obj, dep, fr)
        obj.fields["has"] = z3.Store(obj.fields["has"], sid, z3.BoolVal(True))
        obj.fields["active"] = z3.Store(obj.fields["active"], sid, z3.BoolVal(True))
        obj.fields["n"] = obj.fields["n"] + 1

    def m_reprioritize(self, interp, obj, args, kwargs, fr):
        ctx = interp.ctx
        sid = self._sid(args, kwargs)
        dep = kwargs.get("depends_on", args[1] if len(args) > 1 else None)
        weight = kwargs.get("weight", args[2] if len(args) > 2 else 16)
        if ctx.branch(sid == 0, "reprioritize(0)"):
            _raise(priority.PseudoStreamError, fr.where())
        if not ctx.branch(z3.Select(obj.fields["has"], sid), f"reprio:in-tree@{fr.line}"):
            _raise(priority.MissingStreamError, fr.where())
        if dep is not None:
            if ctx.branch(z3_of_int(dep) == sid, f"reprio:self-dep@{fr.line}"):
                _raise(priority.PriorityLoop, fr.where())
            self._insert_parent(interp, obj, dep, fr)
        w = z3_of_int(weight)
        if not ctx.branch(z3.And(w >= 1, w <= 256), f"reprio:weight@{fr.line}"):
            _raise(priority.BadWeightError, fr.where())

    def m___next__(self, interp, obj, args, kwargs, fr):
        ctx = interp.ctx
        k = ctx.choose(2, f"next(priority)@{fr.line}", ["stream", "Deadlock"])
        sid = ctx.fresh("next_sid", I)
        if k == 1:
            has, act = obj.fields["has"], obj.fields["active"]
            ctx.assume_forall(lambda j: z3.Not(z3.And(z3.Select(has, j), z3.Select(act, j))))
            if ctx.check() == z3.unsat:
                raise PathEnd("deadlock infeasible")
            _raise(priority.DeadlockError, fr.where())
        ctx.add_key(sid)
        ctx.assume_checked(z3.And(sid != 0, z3.Select(obj.fields["has"], sid), z3.Select(obj.fields["active"], sid)), "next")
        return mk_int(sid)


# ================================================================================== h2
H2_EVENT_CLASSES = [
    h2.events.RequestReceived,
    h2.events.DataReceived,
    h2.events.StreamEnded,
    h2.events.StreamReset,
    h2.events.WindowUpdated,
    h2.events.PriorityUpdated,
    h2.events.RemoteSettingsChanged,
    h2.events.ConnectionTerminated,
    h2.events.PingReceived,  # stands for every event class hypercorn ignores
]


class H2EventSource:
    """the list returned by receive_data: any number of events, each an arbitrary member of the
    alphabet with arbitrary fields (subject to what h2 guarantees about them)"""

    def __init__(self, conn):
        self.conn = conn

    def elem(self, interp, i, fr):
        ctx = interp.ctx
        names = [c.__name__ for c in H2_EVENT_CLASSES]
        k = ctx.choose(len(names), "h2event", names)
        return self.make(interp, H2_EVENT_CLASSES[k])

    def make(self, interp, cls):
        ctx = interp.ctx
        ev = SObj(cls, {}, tag="ev")
        sid = ctx.fresh("ev.stream_id", I)
        ctx.inputs[str(sid)] = sid
        ctx.add_key(sid)
        if cls is h2.events.RequestReceived:
            ctx.assume(z3.And(sid > 0, sid % 2 == 1))
            ev.fields["stream_id"] = mk_int(sid)
            ev.fields["headers"] = request_headers(interp, "ev")
            # h2 has just opened this stream
            self.conn.fields["open"] = z3.Store(self.conn.fields["open"], sid, z3.BoolVal(True))
            self.conn.fields["known"] = z3.Store(self.conn.fields["known"], sid, z3.BoolVal(True))
        elif cls is h2.events.DataReceived:
            ctx.assume(sid > 0)
            ev.fields["stream_id"] = mk_int(sid)
            data = ops.fresh_payload(ctx, "ev.data")
            ev.fields["data"] = data
            fcl = ctx.fresh("ev.flow_controlled_length", I)
            ctx.assume(fcl >= data.n)
            ev.fields["flow_controlled_length"] = mk_int(fcl)
        elif cls in (h2.events.StreamEnded, h2.events.StreamReset):
            ctx.assume(sid > 0)
            ev.fields["stream_id"] = mk_int(sid)
            if cls is h2.events.StreamReset:
                self.conn.fields["open"] = z3.Store(self.conn.fields["open"], sid, z3.BoolVal(False))
        elif cls is h2.events.WindowUpdated:
            ctx.assume(sid >= 0)
            ev.fields["stream_id"] = mk_int(sid)
            ev.fields["delta"] = mk_int(ctx.fresh("ev.delta", I))
        elif cls is h2.events.PriorityUpdated:
            ctx.assume(sid > 0)
            ev.fields["stream_id"] = mk_int(sid)
            dep = ctx.fresh("ev.depends_on", I)
            ctx.assume(z3.And(dep >= 0, dep != sid))  # h2 rejects self-dependency (ProtocolError)
            ev.fields["depends_on"] = mk_int(dep)
            w = ctx.fresh("ev.weight", I)
            ctx.assume(z3.And(w >= 1, w <= 256))
            ev.fields["weight"] = mk_int(w)
            ev.fields["exclusive"] = SymBool(z3.Bool(ctx.fresh_name("ev.exclusive")))
        elif cls is h2.events.RemoteSettingsChanged:
            # h2 commits the peer's settings before it delivers the event: for a changed setting
            # new_value is already the connection's value, original_value the one before
            nv, ov = ctx.fresh("ev.iws.new", I), ctx.fresh("ev.iws.original", I)
            ctx.assume(z3.And(nv >= 0, ov >= 0, nv != ov))
            ev.fields["changed_settings"] = SObj("pyvc:ChangedSettings", {"has_iws": SymBool(z3.Bool(ctx.fresh_name("ev.changes_initial_window"))), "new": nv, "original": ov})
            if self.conn is not None:
                self.conn.fields["remote_iws"] = nv
        return ev


def request_headers(interp, name):
    """what h2 guarantees about RequestReceived.headers (inbound validation on): pseudo-headers
    first, :method and :scheme present unless CONNECT, :path present unless (plain) CONNECT,
    :authority optional, :protocol optional; then regular headers whose names do not start with
    ':'.  One representative order of the pseudo-headers is used."""
    ctx = interp.ctx
    items = []
    method = z3.String(ctx.fresh_name(f"{name}.:method"))
    ctx.inputs[str(method)] = method
    items.append((b":method", SymStr(method, "bytes")))
    if ctx.choose(2, ":scheme", ["present", "absent"]) == 0:
        items.append((b":scheme", SymStr(z3.String(ctx.fresh_name(f"{name}.:scheme")), "bytes")))
    if ctx.choose(2, ":authority", ["present", "absent"]) == 0:
        items.append((b":authority", SymStr(z3.String(ctx.fresh_name(f"{name}.:authority")), "bytes")))
    if ctx.choose(2, ":path", ["present", "absent"]) == 0:
        p = z3.String(ctx.fresh_name(f"{name}.:path"))
        ctx.inputs[str(p)] = p
        items.append((b":path", SymStr(p, "bytes")))
    else:
        # h2 only lets :path be absent on CONNECT requests
        ctx.assume(method == z3.StringVal("CONNECT"))
    if ctx.choose(2, ":protocol", ["absent", "present"]) == 1:
        items.append((b":protocol", SymStr(z3.String(ctx.fresh_name(f"{name}.:protocol")), "bytes")))
    rest = z3.Const(ctx.fresh_name(f"{name}.headers.rest"), PairSeq)
    # h2 rejects empty header names and pseudo-headers after regular ones
    ctx.seq_facts.append((rest, lambda el: z3.And(z3.Length(Pair.fst(el)) >= 1, z3.Not(z3.PrefixOf(z3.StringVal(":"), Pair.fst(el))))))
    return PList(items, sym=SymSeq(rest, "pair"))


@register(name="pyvc:ChangedSettings")
class ChangedSettingsModel:
    def m___contains__(self, interp, obj, args, kwargs, fr):
        if args[0] is h2.settings.SettingCodes.INITIAL_WINDOW_SIZE:
            return obj.fields["has_iws"].e
        return z3.Bool(interp.ctx.fresh_name("changed_has"))

    def _setting(self, interp, obj):
        return SObj("pyvc:ChangedSetting", {"setting": h2.settings.SettingCodes.INITIAL_WINDOW_SIZE, "original_value": mk_int(obj.fields["original"]), "new_value": mk_int(obj.fields["new"])}, tag="changed_setting")

    def m_get(self, interp, obj, args, kwargs, fr):
        if args[0] is not h2.settings.SettingCodes.INITIAL_WINDOW_SIZE or "new" not in obj.fields:
            raise __import__("pyvc.ctx", fromlist=["Unsupported"]).Unsupported("changed_settings.get() of another setting")
        if interp.ctx.branch(obj.fields["has_iws"].e, f"changes initial window@{fr.line}"):
            return self._setting(interp, obj)
        return args[1] if len(args) > 1 else None

    def m___getitem__(self, interp, obj, args, kwargs, fr):
        from .ops import mk_exc

        if args[0] is not h2.settings.SettingCodes.INITIAL_WINDOW_SIZE or "new" not in obj.fields:
            raise __import__("pyvc.ctx", fromlist=["Unsupported"]).Unsupported("changed_settings[...] of another setting")
        if interp.ctx.branch(obj.fields["has_iws"].e, f"changes initial window@{fr.line}"):
            return self._setting(interp, obj)
        raise mk_exc(KeyError, "INITIAL_WINDOW_SIZE", where=fr.where())


@register(name="pyvc:ChangedSetting")
class ChangedSettingModel:
    pass


@register(name="pyvc:RemoteSettings")
class RemoteSettingsModel:
    def get_initial_window_size(self, interp, obj, fr):
        return mk_int(obj.fields["conn"].fields["remote_iws"])


@register(name="pyvc:H2Events")
class H2EventsModel:
    def symbolic(self, interp, name):
        return SObj("pyvc:H2Events", {"conn": None}, tag=name)

    def iter_source(self, interp, obj, fr):
        conn = obj.fields["conn"]
        if conn is None:
            conn = interp.unit_self.fields["connection"]
        return H2EventSource(conn)


def _sym_event(cls_):
    class _M:
        def symbolic(self, interp, name):
            conn = interp.unit_self.fields["connection"] if interp.unit_self is not None else None
            src = H2EventSource(conn)
            return src.make(interp, cls_)

    return _M


for _c in H2_EVENT_CLASSES:
    MODEL_CLASSES[f"h2.events:{_c.__name__}"] = _sym_event(_c)()


@register(real=[h2.settings.Settings, h2.config.H2Configuration])
class RecordModel:
    """library value objects that hypercorn only constructs and hands over"""

    H2CONFIG_DEFAULTS = {"client_side": True, "header_encoding": None, "validate_outbound_headers": True, "normalize_outbound_headers": True,
                         "validate_inbound_headers": True, "normalize_inbound_headers": True}

    def new(self, interp, cls, args, kwargs, fr):
        if cls is h2.config.H2Configuration:
            return SObj(cls, dict(self.H2CONFIG_DEFAULTS, **kwargs))  # what is not passed has the library's default
        return SObj(cls, dict(kwargs))


@register(name="M_h2", real=h2.connection.H2Connection)
class H2ConnModel:
    real_class = h2.connection.H2Connection

    def _fresh(self, interp, obj, name):
        ctx = interp.ctx
        f = obj.fields
        f["open"] = z3.Array(ctx.fresh_name(name + ".open"), I, B)  # we may still send on it
        f["known"] = z3.Array(ctx.fresh_name(name + ".known"), I, B)  # h2 still tracks it
        f["win"] = z3.Array(ctx.fresh_name(name + ".win"), I, I)
        f["cwin"] = ctx.fresh(name + ".cwin", I)
        f["mfs"] = ctx.fresh(name + ".max_outbound_frame_size", I)
        f["conn_closed"] = z3.Bool(ctx.fresh_name(name + ".closed"))
        ctx.assume(z3.And(f["mfs"] >= 16384, f["mfs"] <= 16777215))
        op, kn = f["open"], f["known"]
        ctx.assume_forall(lambda j: z3.Implies(z3.Select(op, j), z3.Select(kn, j)))
        ctx.inputs[str(f["cwin"])] = f["cwin"]
        ctx.inputs[str(f["mfs"])] = f["mfs"]

    def symbolic(self, interp, name):
        obj = SObj(h2.connection.H2Connection, {}, tag=name)
        self._fresh(interp, obj, name)
        for g in ("g_data_calls", "g_end_calls"):
            obj.fields[g] = 0
        return obj

    def new(self, interp, cls, args, kwargs, fr):
        obj = SObj(h2.connection.H2Connection, {"config": kwargs.get("config")}, tag="connection")
        f = obj.fields
        f["open"] = z3.K(I, z3.BoolVal(False))
        f["known"] = z3.K(I, z3.BoolVal(False))
        f["win"] = z3.K(I, z3.IntVal(65535))
        f["cwin"] = z3.IntVal(65535)
        f["mfs"] = z3.IntVal(16384)
        f["conn_closed"] = z3.BoolVal(False)
        # h2 configures its header decoder from the settings it is constructed with (default 65536)
        # and afterwards only when an acknowledged local setting *changes*
        f["decoder"] = SObj("h2:Decoder", {"max_header_list_size": 65536}, tag="decoder")
        interp.register_shared(obj)
        return obj

    def havoc(self, interp, obj):
        keep = {k: v for k, v in obj.fields.items() if k not in ("open", "known", "win", "cwin", "mfs", "conn_closed")}
        self._fresh(interp, obj, obj.tag or "connection")
        obj.fields.update(keep)

    def get_max_outbound_frame_size(self, interp, obj, fr):
        return mk_int(obj.fields["mfs"])

    def get_remote_settings(self, interp, obj, fr):
        if "remote_iws" not in obj.fields:
            v = interp.ctx.fresh("h2.remote.initial_window_size", I)
            interp.ctx.assume(v >= 0)
            obj.fields["remote_iws"] = v
        return SObj("pyvc:RemoteSettings", {"conn": obj}, tag="remote_settings")

    # -- helpers ---------------------------------------------------------------------------
    def _may_fail(self, interp, fr, what, excs):
        """the connection state machine / header validation may reject: ProtocolError family"""
        ctx = interp.ctx
        names = ["ok"] + [e.__name__ for e in excs]
        k = ctx.choose(len(names), f"h2.{what}@{fr.line}", names)
        if k > 0:
            interp.traces.setdefault("h2_refused", []).append(what)
            _raise(excs[k - 1], fr.where())

    def _require_open(self, interp, obj, sid, fr, what, extra=()):
        ctx = interp.ctx
        if ctx.branch(obj.fields["conn_closed"], f"h2.closed@{fr.line}"):
            interp.traces.setdefault("h2_refused", []).append(what)
            _raise(h2.exceptions.ProtocolError, fr.where())
        if not ctx.branch(z3.Select(obj.fields["open"], sid), f"h2.open({what})@{fr.line}"):
            excs = [h2.exceptions.StreamClosedError, h2.exceptions.ProtocolError] + list(extra)
            k = ctx.choose(len(excs), f"h2.{what}.closed@{fr.line}", [e.__name__ for e in excs])
            interp.traces.setdefault("h2_refused", []).append(what)
            _raise(excs[k], fr.where())

    # -- API used by hypercorn ----------------------------------------------------------------
    def m_initiate_connection(self, interp, obj, args, kwargs, fr):
        interp.unit_call_requires("H2Connection.initiate_connection", fr)
        return None

    def m_initiate_upgrade_connection(self, interp, obj, args, kwargs, fr):
        """settings_header comes from the client's HTTP2-Settings header: base64 / SETTINGS body
        decoding can fail with binascii.Error (ValueError) or hyperframe InvalidFrameError,
        neither of which is an h2 ProtocolError (observed with h2 4.4.1)"""
        import hyperframe.exceptions

        ctx = interp.ctx
        settings = args[0] if args else kwargs.get("settings_header")
        t = ops.truth(ctx, settings)
        if ctx.branch(t, "settings-nonempty"):
            k = ctx.choose(4, f"h2.upgrade-settings@{fr.line}", ["ok", "ValueError", "InvalidFrameError", "ProtocolError"])
            if k == 1:
                _raise(ValueError, fr.where())
            if k == 2:
                _raise(hyperframe.exceptions.InvalidFrameError, fr.where())
            if k == 3:
                _raise(h2.exceptions.ProtocolError, fr.where())
        obj.fields["open"] = z3.Store(obj.fields["open"], 1, z3.BoolVal(True))
        obj.fields["known"] = z3.Store(obj.fields["known"], 1, z3.BoolVal(True))
        return None

    def m_local_flow_control_window(self, interp, obj, args, kwargs, fr):
        ctx = interp.ctx
        sid = z3_of_int(args[0])
        if not ctx.branch(z3.Select(obj.fields["known"], sid), f"h2.known@{fr.line}"):
            k = ctx.choose(2, "h2.lfcw.unknown", ["StreamClosedError", "NoSuchStreamError"])
            _raise([h2.exceptions.StreamClosedError, h2.exceptions.NoSuchStreamError][k], fr.where())
        w = z3.Select(obj.fields["win"], sid)
        c = obj.fields["cwin"]
        return mk_int(z3.If(c < w, c, w))

    def m_send_data(self, interp, obj, args, kwargs, fr):
        ctx = interp.ctx
        sid = z3_of_int(args[0])
        data = ops.as_payload(ctx, args[1])
        unit = getattr(interp, "unit_name", "?")
        f = obj.fields
        # C09: never more DATA than the windows and the frame size allow.  (h2 would raise
        # FlowControlError / FrameTooLargeError, which _send_data would swallow as 'stream
        # closed' -- so this is an obligation at the call, not a modelled exception.)
        ok = z3.And(
            z3.Or(data.n == 0, z3.And(data.n <= z3.Select(f["win"], sid), data.n <= f["cwin"])),
            data.n <= f["mfs"],
        )
        ctx.prove(f"{unit}.C09.window", ok, "len(data) <= stream window, connection window and max frame size at connection.send_data", fr.where(), note="precondition of h2 send_data", props=("C09",))
        self._require_open(interp, obj, sid, fr, "send_data", extra=(KeyError,))
        f["win"] = z3.Store(f["win"], sid, z3.Select(f["win"], sid) - data.n)
        f["cwin"] = f["cwin"] - data.n
        interp.traces.setdefault("h2", []).append(("send_data", mk_int(sid), data))
        return None

    def m_end_stream(self, interp, obj, args, kwargs, fr):
        sid = z3_of_int(args[0])
        interp.unit_call_requires("H2Connection.end_stream", fr)
        self._require_open(interp, obj, sid, fr, "end_stream")
        obj.fields["open"] = z3.Store(obj.fields["open"], sid, z3.BoolVal(False))
        interp.traces.setdefault("h2", []).append(("end_stream", mk_int(sid)))
        return None

    def m_send_headers(self, interp, obj, args, kwargs, fr):
        sid = z3_of_int(args[0])
        self._require_open(interp, obj, sid, fr, "send_headers")
        # outbound header validation may reject what the application supplied
        self._may_fail(interp, fr, "send_headers", [h2.exceptions.ProtocolError])
        es = kwargs.get("end_stream", args[2] if len(args) > 2 else False)
        interp.traces.setdefault("h2", []).append(("send_headers", mk_int(sid), args[1], es))
        return None

    def m_reset_stream(self, interp, obj, args, kwargs, fr):
        ctx = interp.ctx
        sid = z3_of_int(args[0])
        if ctx.branch(obj.fields["conn_closed"], f"h2.closed@{fr.line}"):
            _raise(h2.exceptions.ProtocolError, fr.where())
        if not ctx.branch(z3.Select(obj.fields["known"], sid), f"h2.known@{fr.line}"):
            _raise(h2.exceptions.StreamClosedError, fr.where())
        obj.fields["open"] = z3.Store(obj.fields["open"], sid, z3.BoolVal(False))
        interp.traces.setdefault("h2", []).append(("reset_stream", mk_int(sid)))
        return None

    def m_close_connection(self, interp, obj, args, kwargs, fr):
        interp.unit_call_requires("H2Connection.close_connection", fr)
        # SEND_GOAWAY is accepted in every connection state
        interp.traces.setdefault("h2", []).append(("close_connection",))
        obj.fields["conn_closed"] = z3.BoolVal(True)
        return None

    def m_update_settings(self, interp, obj, args, kwargs, fr):
        if interp.ctx.branch(obj.fields["conn_closed"], f"h2.closed@{fr.line}"):
            _raise(h2.exceptions.ProtocolError, fr.where())
        interp.traces.setdefault("h2", []).append(("update_settings", args[0]))
        return None

    def m_acknowledge_received_data(self, interp, obj, args, kwargs, fr):
        ctx = interp.ctx
        n, sid = z3_of_int(args[0]), z3_of_int(args[1])
        if not ctx.branch(z3.And(sid > 0, n >= 0), f"h2.ack-args@{fr.line}"):
            _raise(ValueError, fr.where())
        interp.traces.setdefault("h2", []).append(("ack", mk_int(sid), mk_int(n)))
        return None

    def m_data_to_send(self, interp, obj, args, kwargs, fr):
        return ops.fresh_payload(interp.ctx, "wire")

    def m_receive_data(self, interp, obj, args, kwargs, fr):
        ctx = interp.ctx
        interp.traces.setdefault("h2_in", []).append(ops.as_payload(ctx, args[0]))
        k = ctx.choose(2, f"h2.receive_data@{fr.line}", ["events", "ProtocolError"])
        if k == 1:
            obj.fields["conn_closed"] = z3.BoolVal(True)
            _raise(h2.exceptions.ProtocolError, fr.where())
        return SObj("pyvc:H2Events", {"conn": obj})

    def m_get_next_available_stream_id(self, interp, obj, args, kwargs, fr):
        ctx = interp.ctx
        if ctx.choose(2, f"h2.next-id@{fr.line}", ["ok", "NoAvailableStreamIDError"]) == 1:
            _raise(h2.exceptions.NoAvailableStreamIDError, fr.where())
        sid = ctx.fresh("push_id", I)
        ctx.assume(z3.And(sid > 0, sid % 2 == 0))
        return mk_int(sid)

    def m_push_stream(self, interp, obj, args, kwargs, fr):
        self._may_fail(interp, fr, "push_stream", [h2.exceptions.ProtocolError])
        sid = z3_of_int(kwargs["promised_stream_id"])
        obj.fields["open"] = z3.Store(obj.fields["open"], sid, z3.BoolVal(True))
        obj.fields["known"] = z3.Store(obj.fields["known"], sid, z3.BoolVal(True))
        return None
