"""Assumed contracts for the transports the two TCPServer classes drive: asyncio StreamReader /
StreamWriter, the socket and ssl objects behind them, and trio (SSL)SocketStream.  Trusted; the
behaviour written down here is the documented behaviour of CPython 3.12 asyncio streams and trio
0.2x streams as far as tcp_server.py depends on it.

Recorded traces (clauses speak about them):
  'net'      transport operations in order: ('write', payload) ('drain',) ('write_eof',)
             ('close',) ('wait_closed',) ('send_all', payload) ('send_eof',) ('aclose',) ('handshake',)
  'reads'    payloads returned by read()/receive_some() in order (b'' = EOF)
"""
from __future__ import annotations

import asyncio
import ssl as _ssl

import trio
import z3

from . import ops
from .ctx import Unsupported
from .models import EXC_ALIASES, MODEL_BY_REAL, MODEL_CLASSES, builtin_hook, register
from .ops import PyRaise, mk_exc
from .sym import SObj, SymBool, SymInt, SymOpt, SymStr, mk_bool, mk_int, z3_of_int

EXC_ALIASES.setdefault("trio.BrokenResourceError", trio.BrokenResourceError)
EXC_ALIASES.setdefault("trio.ClosedResourceError", trio.ClosedResourceError)
EXC_ALIASES.setdefault("trio.BusyResourceError", trio.BusyResourceError)
EXC_ALIASES.setdefault("trio.TooSlowError", trio.TooSlowError)
EXC_ALIASES.setdefault("SSLError", _ssl.SSLError)


def _b(v):
    return z3.BoolVal(v) if isinstance(v, bool) else v.e


def _net(interp, *entry):
    interp.traces.setdefault("net", []).append(tuple(entry))


def _raise_one(interp, fr, label, classes):
    """one alternative per exception class plus the normal one; returns if normal"""
    names = ["ok"] + [c.__name__ for c in classes]
    k = interp.ctx.choose(len(names), label, names)
    if k > 0:
        _net(interp, "error", label.split("@")[0])
        raise PyRaise(SObj(classes[k - 1], {"args": ()}), fr.where())


# ------------------------------------------------------------------------------------ sockets
@register(name="io:Socket")
class SocketModel:
    def symbolic(self, interp, name):
        fam = interp.ctx.fresh(name + ".family", z3.IntSort())
        return SObj("io:Socket", {"family": SymInt(fam)}, tag=name)

    def _addr(self, interp, obj, fr, which):
        # the peer may already be gone: OSError (ENOTCONN)
        if interp.ctx.choose(2, f"{which}@{fr.line}", ["ok", "OSError"]) == 1:
            raise PyRaise(SObj(OSError, {"args": ()}), fr.where())
        host = SymStr(interp.ctx.fresh(f"{which}.host", z3.StringSort()), "str")
        port = mk_int(interp.ctx.fresh(f"{which}.port", z3.IntSort()))
        return (host, port)

    def m_getpeername(self, interp, obj, args, kwargs, fr):
        return self._addr(interp, obj, fr, "peername")

    def m_getsockname(self, interp, obj, args, kwargs, fr):
        return self._addr(interp, obj, fr, "sockname")


@register(name="io:SSLObject")
class SSLObjectModel:
    def symbolic(self, interp, name):
        return SObj("io:SSLObject", {}, tag=name)

    def m_selected_alpn_protocol(self, interp, obj, args, kwargs, fr):
        v = obj.fields.get("alpn")
        if v is None:
            v = obj.fields["alpn"] = interp.make_symbolic("opt str", "alpn")
        return v


# ------------------------------------------------------------------------------------ asyncio
@register(name="asyncio:StreamReader", real=asyncio.StreamReader)
class StreamReaderModel:
    """eof: feed_eof() has been called; buffered: bytes are waiting.  at_eof() == eof and not
    buffered; once that holds it holds for ever (nothing is fed after EOF)."""

    real_class = asyncio.StreamReader
    ASYNC = ("read",)

    def symbolic(self, interp, name):
        ctx = interp.ctx
        obj = SObj(asyncio.StreamReader, {"eof": SymBool(z3.Bool(ctx.fresh_name(name + ".eof"))), "buffered": SymBool(z3.Bool(ctx.fresh_name(name + ".buffered")))}, tag=name)
        interp.register_shared(obj)
        return obj

    def havoc(self, interp, obj):
        # the transport feeds data / EOF while this task is suspended
        ctx = interp.ctx
        eof0, buf0 = _b(obj.fields["eof"]), _b(obj.fields["buffered"])
        eof1, buf1 = z3.Bool(ctx.fresh_name("reader.eof'")), z3.Bool(ctx.fresh_name("reader.buffered'"))
        ctx.assume(z3.Implies(eof0, eof1))
        ctx.assume(z3.Implies(z3.And(eof0, z3.Not(buf0)), z3.Not(buf1)))
        # only this task reads: buffered data does not disappear
        ctx.assume(z3.Implies(buf0, buf1))
        obj.fields["eof"], obj.fields["buffered"] = SymBool(eof1), SymBool(buf1)

    def m_at_eof(self, interp, obj, args, kwargs, fr):
        return mk_bool(z3.And(_b(obj.fields["eof"]), z3.Not(_b(obj.fields["buffered"]))))

    def m_read(self, interp, obj, args, kwargs, fr):
        ctx = interp.ctx
        n = args[0] if args else -1
        # waits until data or EOF is available (other tasks run; the reader is fed)
        interp.yield_point(fr, "reader.read")
        _raise_one(interp, fr, f"read@{fr.line}", [ConnectionResetError, OSError, _ssl.SSLError])
        eof, buf = _b(obj.fields["eof"]), _b(obj.fields["buffered"])
        ctx.assume(z3.Or(eof, buf))  # read() returned, so there was something to return
        if ctx.branch(buf, f"read.data@{fr.line}"):
            data = ops.fresh_payload(ctx, "read")
            ctx.assume(data.n >= 1)
            if not (isinstance(n, int) and n < 0):
                ctx.assume(data.n <= z3_of_int(n))
            # what is left in the buffer, and whether EOF has been fed meanwhile, is unknown
            obj.fields["buffered"] = SymBool(z3.Bool(ctx.fresh_name("reader.buffered'")))
        else:
            data = ops.payload_lit(ctx, b"")
        interp.traces.setdefault("reads", []).append(data)
        return data


@register(name="asyncio:StreamWriter", real=asyncio.StreamWriter)
class StreamWriterModel:
    real_class = asyncio.StreamWriter
    ASYNC = ("drain", "wait_closed")

    def symbolic(self, interp, name):
        ctx = interp.ctx
        obj = SObj(asyncio.StreamWriter, {"closing": SymBool(z3.Bool(ctx.fresh_name(name + ".closing"))), "socket": interp.make_symbolic("obj io:Socket", name + ".socket"),
                                          "ssl_object": interp.make_symbolic("opt obj io:SSLObject", name + ".ssl_object")}, tag=name)
        return obj

    def m_get_extra_info(self, interp, obj, args, kwargs, fr):
        key = args[0]
        if key == "socket":
            return obj.fields["socket"]
        if key == "ssl_object":
            return obj.fields["ssl_object"]
        raise Unsupported(f"get_extra_info({key!r})")

    def m_write(self, interp, obj, args, kwargs, fr):
        interp.unit_call_requires("transport.write", fr)
        _net(interp, "write", ops.as_payload(interp.ctx, args[0]))
        return None

    def m_drain(self, interp, obj, args, kwargs, fr):
        _net(interp, "drain")
        interp.yield_point(fr, "writer.drain")
        _raise_one(interp, fr, f"drain@{fr.line}", [ConnectionResetError, BrokenPipeError, RuntimeError])
        return None

    def m_write_eof(self, interp, obj, args, kwargs, fr):
        _raise_one(interp, fr, f"write_eof@{fr.line}", [NotImplementedError, OSError, RuntimeError])
        _net(interp, "write_eof")
        return None

    def m_close(self, interp, obj, args, kwargs, fr):
        obj.fields["closing"] = True
        _net(interp, "close")
        return None

    def m_is_closing(self, interp, obj, args, kwargs, fr):
        return obj.fields["closing"]

    def m_wait_closed(self, interp, obj, args, kwargs, fr):
        _net(interp, "wait_closed")
        interp.yield_point(fr, "writer.wait_closed")
        _raise_one(interp, fr, f"wait_closed@{fr.line}", [BrokenPipeError, ConnectionAbortedError, ConnectionResetError, RuntimeError])
        return None


# ------------------------------------------------------------------------------------ trio
@register(name="trio:Stream")
class TrioStreamModel:
    """a trio.SocketStream (is_ssl false: no do_handshake / selected_alpn_protocol /
    transport_stream attributes, has .socket) or a trio.SSLStream wrapping one"""

    ASYNC = ("do_handshake", "send_all", "receive_some", "send_eof", "aclose")

    def symbolic(self, interp, name):
        ctx = interp.ctx
        obj = SObj("trio:Stream", {"is_ssl": SymBool(z3.Bool(ctx.fresh_name(name + ".is_ssl"))), "closed": SymBool(z3.Bool(ctx.fresh_name(name + ".closed"))),
                                   "sock": interp.make_symbolic("obj io:Socket", name + ".socket"), "eof_seen": False,
                                   "alpn": interp.make_symbolic("opt str", name + ".alpn")}, tag=name)  # what TLS negotiated (meaningful when is_ssl)
        return obj

    def _ssl_only(self, interp, obj, fr, attr):
        if not interp.ctx.branch(_b(obj.fields["is_ssl"]), f"is_ssl@{fr.line}"):
            raise mk_exc(AttributeError, f"'SocketStream' object has no attribute '{attr}'", where=fr.where())

    def get_socket(self, interp, obj, fr):
        if interp.ctx.branch(_b(obj.fields["is_ssl"]), f"is_ssl@{fr.line}"):
            raise mk_exc(AttributeError, "'SSLStream' object has no attribute 'socket'", where=fr.where())
        return obj.fields["sock"]

    def get_transport_stream(self, interp, obj, fr):
        self._ssl_only(interp, obj, fr, "transport_stream")
        return SObj("trio:Stream", {"is_ssl": False, "closed": obj.fields["closed"], "sock": obj.fields["sock"], "eof_seen": False}, tag="transport_stream")

    def m_do_handshake(self, interp, obj, args, kwargs, fr):
        self._ssl_only(interp, obj, fr, "do_handshake")
        interp.yield_point(fr, "stream.do_handshake")
        _raise_one(interp, fr, f"handshake@{fr.line}", [trio.BrokenResourceError])
        _net(interp, "handshake")
        return None

    def m_selected_alpn_protocol(self, interp, obj, args, kwargs, fr):
        self._ssl_only(interp, obj, fr, "selected_alpn_protocol")
        v = obj.fields.get("alpn")
        if v is None:
            v = obj.fields["alpn"] = interp.make_symbolic("opt str", "alpn")
        return v

    def m_send_all(self, interp, obj, args, kwargs, fr):
        interp.unit_call_requires("transport.write", fr)
        _net(interp, "send_all", ops.as_payload(interp.ctx, args[0]))
        interp.yield_point(fr, "stream.send_all")
        _raise_one(interp, fr, f"send_all@{fr.line}", [trio.BrokenResourceError, trio.ClosedResourceError])
        return None

    def m_receive_some(self, interp, obj, args, kwargs, fr):
        ctx = interp.ctx
        interp.yield_point(fr, "stream.receive_some")
        _raise_one(interp, fr, f"receive_some@{fr.line}", [trio.ClosedResourceError, trio.BrokenResourceError])
        if ctx.choose(2, f"receive_some.data@{fr.line}", ["data", "eof"]) == 0:
            data = ops.fresh_payload(ctx, "received")
            ctx.assume(data.n >= 1)
            if args and not (isinstance(args[0], int) and args[0] < 0):
                ctx.assume(data.n <= z3_of_int(args[0]))
        else:
            data = ops.payload_lit(ctx, b"")
        interp.traces.setdefault("reads", []).append(data)
        return data

    def m_send_eof(self, interp, obj, args, kwargs, fr):
        # SSLStream has no send_eof (AttributeError); a socket stream may be broken / busy / closed
        if interp.ctx.branch(_b(obj.fields["is_ssl"]), f"is_ssl@{fr.line}"):
            raise mk_exc(AttributeError, "'SSLStream' object has no attribute 'send_eof'", where=fr.where())
        interp.yield_point(fr, "stream.send_eof")
        _raise_one(interp, fr, f"send_eof@{fr.line}", [trio.BrokenResourceError, trio.BusyResourceError, trio.ClosedResourceError])
        _net(interp, "send_eof")
        return None

    def m_aclose(self, interp, obj, args, kwargs, fr):
        obj.fields["closed"] = True
        _net(interp, "aclose")
        interp.yield_point(fr, "stream.aclose")
        return None


@builtin_hook
def _io_builtins(interp):
    from .sym import SymReal

    return {}
