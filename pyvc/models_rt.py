"""Assumed contracts for the asyncio / trio primitives hypercorn builds on (M_rt, DESIGN 2.6).
Events, locks, queues / memory channels, task groups / nurseries, timeouts on a ghost clock.
Trusted; the scheduler is assumed fair for every 'promptly' in the properties."""
from __future__ import annotations

import asyncio
import functools

import trio
import z3

from . import ops
from .ctx import PathEnd, Unsupported
from .models import EXC_ALIASES, MODEL_BY_REAL, MODEL_CLASSES, builtin_hook, register
from .ops import PyRaise, mk_exc
from .sym import SObj, SymBool, SymInt, SymOpaque, mk_bool, mk_int, z3_of_int

EXC_ALIASES["asyncio.CancelledError"] = asyncio.CancelledError
EXC_ALIASES["asyncio.TimeoutError"] = asyncio.TimeoutError
EXC_ALIASES["trio.Cancelled"] = trio.Cancelled
EXC_ALIASES["trio.TooSlowError"] = trio.TooSlowError
EXC_ALIASES["trio.BrokenResourceError"] = trio.BrokenResourceError
EXC_ALIASES["trio.ClosedResourceError"] = trio.ClosedResourceError
EXC_ALIASES["trio.BusyResourceError"] = trio.BusyResourceError
EXC_ALIASES["BaseExceptionGroup"] = BaseExceptionGroup


def _flag(v):
    return z3.BoolVal(v) if isinstance(v, bool) else v.e


# ------------------------------------------------------------------------------------ events
class _EventModel:
    HAS_CLEAR = True
    ASYNC = ("wait",)

    def new(self, interp, cls, args, kwargs, fr):
        obj = SObj(cls, {"flag": False, "sticky": False}, tag="ev")
        interp.register_shared(obj)
        return obj

    def symbolic(self, interp, name):
        nm = interp.ctx.fresh_name(name + ".flag")
        obj = SObj(self.real_class, {"flag": SymBool(z3.Bool(nm)), "sticky": SymBool(z3.Bool(interp.ctx.fresh_name(name + ".sticky")))}, tag=name)
        interp.register_shared(obj)
        return obj

    def havoc(self, interp, obj):
        # sticky (ghost): nobody ever clears this event, so once set it stays set
        old = _flag(obj.fields["flag"])
        new_ = z3.Bool(interp.ctx.fresh_name((obj.tag or "ev") + ".flag'"))
        interp.ctx.assume(z3.Implies(z3.And(_flag(obj.fields.get("sticky", False)), old), new_))
        obj.fields["flag"] = SymBool(new_)

    def m_set(self, interp, obj, args, kwargs, fr):
        obj.fields["flag"] = True

    def m_is_set(self, interp, obj, args, kwargs, fr):
        return obj.fields["flag"]

    def m_wait(self, interp, obj, args, kwargs, fr):
        # returns only after the flag was set at some point; another task may run meanwhile
        if getattr(interp, "clock", None) is not None:
            # when the wait on this event began (contracts: call_time('wait:<field>'))
            interp.traces.setdefault("call_times", []).append((f"wait:{(obj.tag or '').split('.')[-1]}", interp.clock))
        interp.yield_point(fr, "Event.wait")
        # ... and for an event that is never cleared it is still set
        interp.ctx.assume(z3.Implies(_flag(obj.fields.get("sticky", False)), _flag(obj.fields["flag"])))
        return True

    def m_clear(self, interp, obj, args, kwargs, fr):
        if not self.HAS_CLEAR:
            raise mk_exc(AttributeError, "'Event' object has no attribute 'clear'", where=fr.where())
        unit = getattr(interp, "unit_name", "?")
        interp.ctx.prove(f"{unit}.call.Event.clear.not-sticky", z3.Not(_flag(obj.fields.get("sticky", False))), "an event declared never-cleared (sticky) is not cleared", fr.where(), note="precondition of Event.clear")
        obj.fields["flag"] = False


@register(name="asyncio:Event", real=asyncio.Event)
class AsyncioEvent(_EventModel):
    real_class = asyncio.Event


@register(name="trio:Event", real=trio.Event)
class TrioEvent(_EventModel):
    real_class = trio.Event
    HAS_CLEAR = False  # trio events cannot be cleared: EventWrapper.clear replaces the object


# ------------------------------------------------------------------------------------ locks
class _LockModel:
    def new(self, interp, cls, args, kwargs, fr):
        o = SObj(cls, {}, tag="lock")
        interp.traces.setdefault("created", []).append(o)  # a lock made by this call (nobody else holds it)
        return o

    def symbolic(self, interp, name):
        return SObj(self.real_class, {}, tag=name)

    def m___aenter__(self, interp, obj, args, kwargs, fr):
        interp.yield_point(fr, "Lock.acquire")  # may wait for the holder
        interp.traces.setdefault("locks", []).append(("acquire", obj.tag))
        held = getattr(interp, "held_locks", None)
        if held is None:
            held = interp.held_locks = []
        held.append(obj)
        return None

    def m_locked(self, interp, obj, args, kwargs, fr):
        # held by this task: True; otherwise another task may or may not hold it
        for h in getattr(interp, "held_locks", None) or []:
            if h is obj:
                return True
        return SymBool(z3.Bool(interp.ctx.fresh_name("lock.locked")))

    def m___aexit__(self, interp, obj, args, kwargs, fr):
        interp.traces.setdefault("locks", []).append(("release", obj.tag))
        held = getattr(interp, "held_locks", None) or []
        us = getattr(interp, "unit_self", None)
        if us is not None:
            interp.prove_monitor(us, fr.where(), "release", only_lock=obj)
        for i, h in enumerate(held):
            if h is obj:
                del held[i]
                break
        return None


@register(name="asyncio:Lock", real=asyncio.Lock)
class AsyncioLock(_LockModel):
    real_class = asyncio.Lock


@register(name="trio:Lock", real=trio.Lock)
class TrioLock(_LockModel):
    real_class = trio.Lock


# ------------------------------------------------------------------------------------ queues
@register(name="asyncio:Queue", real=asyncio.Queue)
class AsyncioQueue:
    real_class = asyncio.Queue

    def new(self, interp, cls, args, kwargs, fr):
        ms = args[0] if args else kwargs.get("maxsize", 0)
        interp.traces.setdefault("queues", []).append(("asyncio.Queue", ms))  # maxsize 0 = unbounded
        return SObj(cls, {"maxsize": ms}, tag="queue")

    def symbolic(self, interp, name):
        return SObj(asyncio.Queue, {"maxsize": mk_int(interp.ctx.fresh(name + ".maxsize", z3.IntSort()))}, tag=name)

    def m_put(self, interp, obj, args, kwargs, fr):
        interp.traces.setdefault(f"put:{obj.tag}", []).append(args[0])
        interp.traces.setdefault("app_msgs", []).append(args[0])
        interp.yield_point(fr, "Queue.put")  # blocks while the queue is full
        return None

    def m_get(self, interp, obj, args, kwargs, fr):
        interp.yield_point(fr, "Queue.get")
        return interp.make_symbolic("opaque", "queued")


@builtin_hook
def _rt_builtins(interp):
    def partial(a, k, fr):
        return SObj("rt:Partial", {"func": a[0], "args": tuple(a[1:]), "kwargs": dict(k)}, tag="partial")

    def open_memory_channel(a, k, fr):
        ch = SObj("trio:Channel", {"maxsize": a[0] if a else 0}, tag="channel")
        interp.traces.setdefault("queues", []).append(("trio.open_memory_channel", a[0] if a else 0))
        return (SObj("trio:SendChannel", {"ch": ch}, tag="send_channel"), SObj("trio:ReceiveChannel", {"ch": ch}, tag="receive_channel"))

    def sleep(a, k, fr):
        interp.yield_point(fr, "sleep")
        return None

    return {functools.partial: partial, trio.open_memory_channel: open_memory_channel, asyncio.sleep: sleep, trio.sleep: sleep,
            asyncio.get_event_loop: lambda a, k, fr: SymOpaque(z3.Const("loop", __import__("pyvc.sym", fromlist=["Opaque"]).Opaque), "loop")}


@register(name="rt:Partial")
class PartialModel:
    def m___call__(self, interp, obj, args, kwargs, fr):
        kw = dict(obj.fields["kwargs"])
        kw.update(kwargs)
        return interp.call_value(obj.fields["func"], list(obj.fields["args"]) + list(args), kw, fr, awaited=True)


@register(name="trio:SendChannel")
class TrioSendChannel:
    ASYNC = ("send", "aclose")

    def symbolic(self, interp, name):
        return SObj("trio:SendChannel", {"ch": SObj("trio:Channel", {}, tag=name)}, tag=name)

    def m_send(self, interp, obj, args, kwargs, fr):
        interp.traces.setdefault(f"put:{obj.fields['ch'].tag}", []).append(args[0])
        interp.traces.setdefault("app_msgs", []).append(args[0])
        interp.yield_point(fr, "channel.send")  # always a checkpoint in trio
        return None

    def m_aclose(self, interp, obj, args, kwargs, fr):
        interp.yield_point(fr, "channel.aclose")
        return None


@register(name="trio:ReceiveChannel")
class TrioReceiveChannel:
    ASYNC = ("receive", "aclose")

    def symbolic(self, interp, name):
        return SObj("trio:ReceiveChannel", {"ch": SObj("trio:Channel", {}, tag=name)}, tag=name)

    def m_receive(self, interp, obj, args, kwargs, fr):
        interp.yield_point(fr, "channel.receive")
        return interp.make_symbolic("opaque", "received")

    def m_aclose(self, interp, obj, args, kwargs, fr):
        interp.yield_point(fr, "channel.aclose")
        return None


def _bump_live(interp, delta):
    """ghost accounting for objects that own background tasks (SingleTask): g_live counts the
    tasks started through the unit's object and not cancelled since"""
    us = getattr(interp, "unit_self", None)
    if us is not None and "g_live" in us.fields:
        cur = us.fields["g_live"]
        if isinstance(delta, int) and isinstance(cur, int):
            us.fields["g_live"] = cur + delta
        else:
            dz = z3.IntVal(delta) if isinstance(delta, int) else delta
            cz = z3.IntVal(cur) if isinstance(cur, int) else cur.e
            us.fields["g_live"] = SymInt(z3.simplify(cz + dz))


def _timer_live(interp):
    """number of live keep-alive timer tasks of the unit's object at the moment its task group is
    joined (the join waits for them)"""
    us = getattr(interp, "unit_self", None)
    it = us.fields.get("idle_task") if us is not None else None
    if isinstance(it, SObj) and "g_live" in it.fields:
        return it.fields["g_live"]
    return 0


def _cancel(interp, obj):
    c = obj.fields.get("cancelled", False)
    cz = z3.BoolVal(c) if isinstance(c, bool) else c.e
    _bump_live(interp, z3.If(cz, z3.IntVal(0), z3.IntVal(-1)))
    obj.fields["cancelled"] = True
    interp.traces.setdefault("cancelled", []).append(obj)


# ------------------------------------------------------------------------------------ task groups
try:
    from asyncio import TaskGroup as _ATG
except ImportError:  # pragma: no cover
    _ATG = None


@register(name="asyncio:TaskGroup", real=_ATG)
class AsyncioTaskGroup:
    real_class = _ATG

    def new(self, interp, cls, args, kwargs, fr):
        o = SObj(cls, {}, tag="taskgroup")
        interp.traces.setdefault("created", []).append(o)
        return o

    def symbolic(self, interp, name):
        return SObj(_ATG, {}, tag=name)

    def m_create_task(self, interp, obj, args, kwargs, fr):
        # schedules the coroutine; it does not run before the next suspension of the caller
        coro = args[0]
        interp.traces.setdefault("spawned", []).append(coro)
        interp.traces.setdefault("spawned_ever", []).append(coro)
        _bump_live(interp, 1)
        if "raise_shutdown" in str(getattr(coro, "label", "")):
            obj.fields["raising_children"] = True
        return SObj("asyncio:Task", {"coro": coro, "cancelled": False}, tag="task")

    def m___aenter__(self, interp, obj, args, kwargs, fr):
        return obj

    def m___aexit__(self, interp, obj, args, kwargs, fr):
        interp.traces.setdefault("joined", []).append(("join", _timer_live(interp)))
        interp.yield_point(fr, "TaskGroup.__aexit__")  # waits for all children
        if obj.fields.get("raising_children"):
            # a child whose only way to end is to raise (utils.raise_shutdown): the group ends with
            # an exception group of the children's errors
            raise PyRaise(SObj(BaseExceptionGroup, {"args": ()}), fr.where())
        return None


def _new_nursery(tag):
    return SObj("trio:Nursery", {"cancel_scope": SObj(trio.CancelScope, {"shield": False, "deadline": None, "cancelled": False}, tag=tag + ".cancel_scope")}, tag=tag)


@register(name="trio:Nursery")
class TrioNursery:
    def symbolic(self, interp, name):
        return _new_nursery(name)

    def m_start_soon(self, interp, obj, args, kwargs, fr):
        interp.traces.setdefault("spawned", []).append((args[0],) + tuple(args[1:]))
        interp.traces.setdefault("spawned_ever", []).append((args[0],) + tuple(args[1:]))
        return None

    def m_start(self, interp, obj, args, kwargs, fr):
        """nursery.start(fn): the child runs until it calls task_status.started(value); start()
        then returns that value and the rest of the child runs as a task of the nursery.  For a
        function defined in the code under analysis the part up to started() is executed."""
        from .sym import Closure

        fn = args[0]
        interp.traces.setdefault("spawned", []).append((fn,) + tuple(args[1:]))
        _bump_live(interp, 1)
        value = None
        if isinstance(fn, Closure):
            ts = SObj("trio:TaskStatus", {"inline": True}, tag="task_status")
            try:
                interp.call_value(fn, list(args[1:]), {"task_status": ts}, fr, awaited=True)
            except _Started as st:
                value = st.value
            else:
                raise mk_exc(RuntimeError, "child exited without calling task_status.started()", where=fr.where())
        else:
            value = interp.make_symbolic("opaque", "started")
        interp.yield_point(fr, "nursery.start")
        return value


class _Started(Exception):
    """internal: task_status.started(value) was reached in the inlined prefix of a child"""

    def __init__(self, value):
        self.value = value


@register(name="trio:TaskStatus")
class TrioTaskStatus:
    def symbolic(self, interp, name):
        return SObj("trio:TaskStatus", {"inline": False}, tag=name)

    def m_started(self, interp, obj, args, kwargs, fr):
        if obj.fields.get("inline", True):
            raise _Started(args[0] if args else None)
        interp.traces.setdefault("started", []).append(args[0] if args else None)
        return None


@register(name="trio:NurseryManager")
class TrioNurseryManager:
    def symbolic(self, interp, name):
        return SObj("trio:NurseryManager", {}, tag=name)

    def m___aenter__(self, interp, obj, args, kwargs, fr):
        n = _new_nursery(interp.ctx.fresh_name("nursery"))
        obj.fields["nursery"] = n
        return n

    def m___aexit__(self, interp, obj, args, kwargs, fr):
        """leaving `async with trio.open_nursery()`: waits for the children -- no longer than the
        deadline of the nursery's cancel scope if one was set (they are cancelled then).  A body
        that was cancelled (trio.Cancelled: a child failed) leaves with the children's errors."""
        exc = args[1] if len(args) > 1 else None
        n = obj.fields.get("nursery")
        interp.traces.setdefault("joined", []).append(("join", _timer_live(interp), n))
        dl = n.fields["cancel_scope"].fields.get("deadline") if isinstance(n, SObj) else None
        interp.yield_point(fr, "nursery.__aexit__")
        if dl is not None:
            interp.ctx.assume(now(interp) <= _real(dl))
        if isinstance(exc, SObj) and exc.cls is trio.Cancelled:
            raise PyRaise(SObj(BaseExceptionGroup, {"args": ()}), fr.where())
        return None


@builtin_hook
def _trio_builtins(interp):
    return {trio.open_nursery: lambda a, k, fr: SObj("trio:NurseryManager", {}, tag="nursery_manager")}


# ------------------------------------------------------------------------------------ exception groups
def group_flags(interp, obj, types):
    """(has_match, has_rest) of an exception group for a tuple of exception classes: symbolic
    booleans, cached per type set, at least one of them true (a group is never empty)"""
    classes = types if isinstance(types, tuple) else (types,)
    key = ",".join(sorted(getattr(c, "__name__", str(c)) for c in classes))
    fm, fr_ = f"match:{key}", f"rest:{key}"
    if fm not in obj.fields:
        ctx = interp.ctx
        m = z3.Bool(ctx.fresh_name(f"group.has[{key}]"))
        r = z3.Bool(ctx.fresh_name(f"group.other-than[{key}]"))
        ctx.assume(z3.Or(m, r))
        obj.fields[fm], obj.fields[fr_] = SymBool(m), SymBool(r)
    return obj.fields[fm], obj.fields[fr_]


class _ExcGroupModel:
    """BaseExceptionGroup raised by a nursery / task group / application.  split(T) ->
    (matching or None, rest or None); subgroup(T) -> matching or None"""

    def m_split(self, interp, obj, args, kwargs, fr):
        m, r = group_flags(interp, obj, args[0])
        has_m = interp.ctx.branch(_flag(m), f"group has match@{fr.line}")
        has_r = interp.ctx.branch(_flag(r), f"group has rest@{fr.line}")
        match = SObj(BaseExceptionGroup, {"args": (), "part_of": obj, "only": args[0]}) if has_m else None
        rest = SObj(BaseExceptionGroup, {"args": (), "part_of": obj}) if has_r else None
        return (match, rest)

    def get_exceptions(self, interp, obj, fr):
        return SObj("pyvc:GroupMembers", {"group": obj}, tag="exceptions")

    def m_subgroup(self, interp, obj, args, kwargs, fr):
        m, _r = group_flags(interp, obj, args[0])
        if interp.ctx.branch(_flag(m), f"group has match@{fr.line}"):
            return SObj(BaseExceptionGroup, {"args": (), "part_of": obj, "only": args[0]})
        return None


MODEL_BY_REAL[BaseExceptionGroup] = _ExcGroupModel()


@register(name="pyvc:GroupMembers")
class GroupMembersModel:
    """error.exceptions of an exception group: the direct members (groups may be nested, so a
    class that subgroup()/split() finds need not be among them)"""

    def quantify(self, interp, obj, e, g, fr, is_any):
        import ast as _ast

        elt = e.elt
        grp = obj.fields["group"]
        if (is_any and not g.ifs and isinstance(elt, _ast.Call) and isinstance(elt.func, _ast.Name) and elt.func.id == "isinstance"
                and len(elt.args) == 2 and isinstance(elt.args[0], _ast.Name) and isinstance(g.target, _ast.Name) and elt.args[0].id == g.target.id):
            types = interp.ev(elt.args[1], fr)
            m, _r = group_flags(interp, grp, types)
            classes = types if isinstance(types, tuple) else (types,)
            key = ",".join(sorted(getattr(c, "__name__", str(c)) for c in classes))
            fld = f"direct:{key}"
            if fld not in grp.fields:
                d = z3.Bool(interp.ctx.fresh_name(f"group.direct-member[{key}]"))
                interp.ctx.assume(z3.Implies(d, _flag(m)))  # a direct member is found by subgroup(); not conversely
                grp.fields[fld] = SymBool(d)
            return grp.fields[fld]
        return SymBool(z3.Bool(interp.ctx.fresh_name("any" if is_any else "all")))



# ------------------------------------------------------------------------------------ ghost clock
def now(interp):
    t = getattr(interp, "clock", None)
    if t is None:
        t = interp.clock = z3.Real("t0")
    return t


def advance(interp, label="t"):
    """time passes (monotonically) across a suspension"""
    t = z3.Real(interp.ctx.fresh_name(label))
    interp.ctx.assume(t >= now(interp))
    interp.clock = t
    return t


def _real(v):
    from .sym import SymOpt, SymReal

    if isinstance(v, SymOpt):
        return _real(v.value)  # reached only where the path condition says it is not None

    if isinstance(v, SymReal):
        return v.e
    if isinstance(v, (int, float)):
        return z3.RealVal(v)
    if isinstance(v, SymInt):
        return z3.ToReal(v.e)
    raise Unsupported(f"not a duration: {v!r}")


# ------------------------------------------------------------------------------------ asyncio tasks
@register(name="asyncio:Task")
class AsyncioTask:
    def symbolic(self, interp, name):
        return SObj("asyncio:Task", {"coro": None, "cancelled": SymBool(z3.Bool(interp.ctx.fresh_name(name + ".cancelled")))}, tag=name)

    def m_cancel(self, interp, obj, args, kwargs, fr):
        _cancel(interp, obj)
        return True

    def m___await__(self, interp, obj, args, kwargs, fr):
        # awaiting a (cancelled) task: it finishes; CancelledError is the normal outcome of a cancel
        interp.yield_point(fr, "await task")
        k = interp.ctx.choose(2, f"await-task@{fr.line}", ["CancelledError", "returned"])
        if k == 0:
            raise PyRaise(SObj(asyncio.CancelledError, {"args": ()}), fr.where())
        return None

    def m_done(self, interp, obj, args, kwargs, fr):
        return SymBool(z3.Bool(interp.ctx.fresh_name("task.done")))

    def m_exception(self, interp, obj, args, kwargs, fr):
        # of a task that is done: None, or the exception it ended with
        if interp.ctx.choose(2, f"task.exception@{fr.line}", ["none", "exception"]) == 0:
            return None
        return SObj(Exception, {"args": (), "from_task": obj})

    def m_add_done_callback(self, interp, obj, args, kwargs, fr):
        return None


@register(name="trio:CancelScope", real=trio.CancelScope)
class TrioCancelScope:
    real_class = trio.CancelScope

    def new(self, interp, cls, args, kwargs, fr):
        return SObj(trio.CancelScope, {"shield": kwargs.get("shield", False), "deadline": None, "cancelled": False}, tag="scope")

    def symbolic(self, interp, name):
        return SObj(trio.CancelScope, {"shield": False, "deadline": None, "cancelled": SymBool(z3.Bool(interp.ctx.fresh_name(name + ".cancelled")))}, tag=name)

    def m_cancel(self, interp, obj, args, kwargs, fr):
        _cancel(interp, obj)
        return None

    def m___enter__(self, interp, obj, args, kwargs, fr):
        return obj

    def m___exit__(self, interp, obj, args, kwargs, fr):
        # a block that was (or became) shielded from outside cancellation: contracts can ask
        # whether a unit shields anything (trace 'shielded')
        sh = obj.fields.get("shield", False)
        if not (sh is False):
            interp.traces.setdefault("shielded", []).append(obj)
        return False


class _Timeout:
    """`with trio.move_on_after(T)` / `trio.fail_after(T)`: the body is left at the deadline at the
    latest; fail_after then raises TooSlowError.  Modelled at the first suspension inside the body:
    see wait_until() below."""


@builtin_hook
def _timeouts(interp):
    def wait_for(a, k, fr):
        """asyncio.wait_for(coro, timeout): either coro finishes no later than t0 + timeout or, at
        exactly t0 + timeout, it is cancelled and TimeoutError raised.  timeout None = no limit."""
        coro = a[0]
        timeout = a[1] if len(a) > 1 else k.get("timeout")
        from .sym import SymOpt

        interp.traces.setdefault("waited", []).append((coro, timeout))  # contracts: what was waited for, with which limit

        if isinstance(timeout, SymOpt):
            timeout = None if interp.ctx.branch(timeout.is_none, f"timeout is None@{fr.line}") else timeout.value
        t0 = now(interp)
        interp.deadline = None if timeout is None else t0 + _real(timeout)
        if timeout is not None and interp.ctx.choose(2, f"wait_for@{fr.line}", ["completes", "TimeoutError"]) == 1:
            d_ = interp.deadline
            interp.yield_point(fr, "wait_for timeout")  # time passes while the inner awaitable is pending ...
            interp.ctx.assume(now(interp) == d_)  # ... until exactly the deadline
            interp.deadline = None
            raise PyRaise(SObj(asyncio.TimeoutError, {"args": ()}), fr.where())
        try:
            r = interp.await_value(coro, fr)
        finally:
            d = interp.deadline
            interp.deadline = None
        if d is not None:
            interp.ctx.assume(now(interp) <= d)
        return r

    def shield(a, k, fr):
        return interp.await_value(a[0], fr)

    def move_on_after(a, k, fr):
        return SObj("trio:Deadline", {"seconds": a[0], "fail": False}, tag="move_on_after")

    def fail_after(a, k, fr):
        return SObj("trio:Deadline", {"seconds": a[0], "fail": True}, tag="fail_after")

    return {asyncio.wait_for: wait_for, asyncio.shield: shield, trio.move_on_after: move_on_after, trio.fail_after: fail_after}


class DeadlineReached(Exception):
    """internal: the body of a trio timeout block was cancelled at its deadline"""

    def __init__(self, scope):
        self.scope = scope


@register(name="trio:Deadline")
class TrioDeadline:
    def m___enter__(self, interp, obj, args, kwargs, fr):
        secs = obj.fields["seconds"]
        inf = secs is not None and not isinstance(secs, (SObj,)) and isinstance(secs, float) and secs == float("inf")
        obj.fields["t_deadline"] = None if inf else now(interp) + _real(secs)
        stack = getattr(interp, "deadlines", None)
        if stack is None:
            stack = interp.deadlines = []
        stack.append(obj)
        return obj

    def m___exit__(self, interp, obj, args, kwargs, fr):
        interp.deadlines.remove(obj)
        exc = args[1] if len(args) > 1 else None
        if isinstance(exc, SObj) and exc.cls is trio.Cancelled and exc.fields.get("scope") is obj:
            # cancelled by this very deadline
            if obj.fields["fail"]:
                raise PyRaise(SObj(trio.TooSlowError, {"args": ()}), fr.where())
            obj.fields["cancelled_caught"] = True
            return True
        if obj.fields.get("t_deadline") is not None:
            interp.ctx.assume(now(interp) <= obj.fields["t_deadline"])
        return False
