"""Assumed contracts for what the two worker_serve functions drive: listening sockets, listeners,
asyncio.start_server / Server, gather, trio.serve_listeners, nursery scopes with deadlines.
Trusted (documented behaviour of CPython 3.12 asyncio and trio).  Every modelled call is recorded
in the 'calls' trace under its dotted name so that contracts can speak about order; a unit may
attach obligations to such calls through model_opts['call_requires']."""
from __future__ import annotations

import asyncio
import random

import trio
import z3

from . import ops
from .ctx import Unsupported
from .models import MODEL_BY_REAL, MODEL_CLASSES, builtin_hook, register
from .ops import PyRaise, mk_exc
from .sym import PList, SObj, SymBool, SymInt, SymReal, SymStr, mk_bool, mk_int, z3_of_int


def lib_call(interp, name, args, fr):
    """record a modelled library call and discharge the obligations the unit attaches to it"""
    from .contracts import mk_clauses

    interp.traces.setdefault("calls", []).append((name,) + tuple(args))
    if getattr(interp, "clock", None) is not None:
        interp.traces.setdefault("call_times", []).append((name, interp.clock))
    interp.unit_call_requires(name, fr)


# ------------------------------------------------------------------------------------ object lists
@register(name="pyvc:ObjList")
class ObjListModel:
    """a list of any length of objects of one modelled class (listening sockets ...)"""

    def symbolic(self, interp, name):
        return SObj("pyvc:ObjList", {"elem_ty": "obj io:ListenSocket"}, tag=name)

    def iter_source(self, interp, obj, fr):
        return _ObjSource(obj)

    def m_append(self, interp, obj, args, kwargs, fr):
        obj.fields.pop("n", None)  # still a list of such objects, one longer
        return None

    @staticmethod
    def length_of(interp, obj):
        n = obj.fields.get("n")
        if n is None:
            n = obj.fields["n"] = SymInt(interp.ctx.fresh((obj.tag or "list") + ".len", z3.IntSort()))
            interp.ctx.assume(n.e >= 0)
        return n.e

    def m___len__(self, interp, obj, args, kwargs, fr):
        return mk_int(self.length_of(interp, obj))


class _ObjSource:
    def __init__(self, lst):
        self.lst = lst

    def length(self, interp):
        return ObjListModel.length_of(interp, self.lst)

    def elem(self, interp, i, fr):
        return interp.make_symbolic(self.lst.fields["elem_ty"], interp.ctx.fresh_name((self.lst.tag or "list") + "[i]"))


@register(name="io:ListenSocket")
class ListenSocketModel:
    def symbolic(self, interp, name):
        return SObj("io:ListenSocket", {"family": SymInt(interp.ctx.fresh(name + ".family", z3.IntSort()))}, tag=name)

    def m_getsockname(self, interp, obj, args, kwargs, fr):
        host = SymStr(interp.ctx.fresh("sockname.host", z3.StringSort()), "str")
        return (host, mk_int(interp.ctx.fresh("sockname.port", z3.IntSort())))

    def m_listen(self, interp, obj, args, kwargs, fr):
        lib_call(interp, "socket.listen", [obj] + list(args), fr)
        return None


# ------------------------------------------------------------------------------------ trio
@register(name="trio:Listener")
class TrioListenerModel:
    pass


@register(name="asyncio:Server")
class AsyncioServerModel:
    ASYNC = ("wait_closed",)

    def symbolic(self, interp, name):
        return SObj("asyncio:Server", {"closing": SymBool(z3.Bool(interp.ctx.fresh_name(name + ".closing")))}, tag=name)

    def m_close(self, interp, obj, args, kwargs, fr):
        lib_call(interp, "Server.close", [obj], fr)
        obj.fields["closing"] = True
        return None

    def m_wait_closed(self, interp, obj, args, kwargs, fr):
        # CPython 3.12.1: returns once the server is closed *and every connection it accepted is
        # gone* -- no bound on the time this takes is known here
        lib_call(interp, "Server.wait_closed", [obj], fr)
        interp.yield_point(fr, "Server.wait_closed")
        return None


@register(name="asyncio:Gathered")
class GatheredModel:
    """asyncio.gather(*tasks): awaiting it waits for all of them (cancelled by wait_for at the
    time-out)"""

    def m___await__(self, interp, obj, args, kwargs, fr):
        interp.yield_point(fr, "await gather")
        return None

    def m_exception(self, interp, obj, args, kwargs, fr):
        return None


@builtin_hook
def _serve_builtins(interp):
    ctx = interp.ctx

    def randint(a, k, fr):
        lo, hi = a
        r = ctx.fresh("randint", z3.IntSort())
        ctx.assume(z3.And(r >= z3_of_int(lo), r <= z3_of_int(hi)))
        return mk_int(r)

    def from_stdlib_socket(a, k, fr):
        return a[0]

    def socket_listener(a, k, fr):
        lib_call(interp, "trio.SocketListener", a, fr)
        return SObj("trio:Listener", {"sock": a[0]}, tag="listener")

    def ssl_listener(a, k, fr):
        lib_call(interp, "trio.SSLListener", a, fr)
        return SObj("trio:Listener", {"inner": a[0], "ssl": True}, tag="ssl_listener")

    def sleep_forever(a, k, fr):
        # ends only by being cancelled (the nursery around it is cancelled when a child fails)
        interp.yield_point(fr, "trio.sleep_forever")
        raise PyRaise(SObj(trio.Cancelled, {"args": (), "scope": None}), fr.where())

    def current_time(a, k, fr):
        from . import models_rt as rt

        return SymReal(rt.now(interp))

    def start_server(a, k, fr):
        lib_call(interp, "asyncio.start_server", list(a) + [k.get("sock")], fr)
        interp.yield_point(fr, "asyncio.start_server")
        return SObj("asyncio:Server", {"closing": False, "sock": k.get("sock")}, tag="server")

    def gather(a, k, fr):
        lib_call(interp, "asyncio.gather", a, fr)
        return SObj("asyncio:Gathered", {}, tag="gathered")

    def current_task(a, k, fr):
        return SObj("asyncio:Task", {"coro": None, "cancelled": False}, tag="current_task")

    def get_event_loop(a, k, fr):
        return SObj("asyncio:Loop", {}, tag="loop")

    import platform

    return {
        platform.system: lambda a, k, fr: "Linux",  # assumed: not Windows (the socket sharing branch is outside the contract)
        random.randint: randint,
        trio.socket.from_stdlib_socket: from_stdlib_socket,
        trio.SocketListener: socket_listener,
        trio.SSLListener: ssl_listener,
        trio.sleep_forever: sleep_forever,
        trio.current_time: current_time,
        asyncio.start_server: start_server,
        asyncio.gather: gather,
        asyncio.current_task: current_task,
        asyncio.get_event_loop: get_event_loop,
    }


@register(name="asyncio:Loop")
class LoopModel:
    def m_create_task(self, interp, obj, args, kwargs, fr):
        from . import models_rt as rt

        coro = args[0]
        interp.traces.setdefault("spawned", []).append(coro)
        t = SObj("asyncio:Task", {"coro": coro, "cancelled": False}, tag="task")
        return t

    def m_add_signal_handler(self, interp, obj, args, kwargs, fr):
        return None

    def m_run_in_executor(self, interp, obj, args, kwargs, fr):
        # runs the callable in a worker thread; awaiting the result suspends the caller
        interp.traces.setdefault("executor", []).append(tuple(args))
        interp.yield_point(fr, "run_in_executor")
        return None
