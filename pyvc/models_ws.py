"""Assumed contracts for wsproto 1.3 (Connection, events, handshake helpers) and io.BytesIO/StringIO
as used by WebsocketBuffer.  Trusted; see DESIGN 2.6."""
from __future__ import annotations

import io

import wsproto.connection
import wsproto.events
import wsproto.extensions
import wsproto.handshake
import wsproto.utilities
import z3

from . import ops
from .ctx import PathEnd, Unsupported
from .models import EXC_ALIASES, MODEL_BY_REAL, MODEL_CLASSES, builtin_hook, register
from .ops import PyRaise, mk_exc
from .sym import PList, SObj, Str, StrSeq, SymBool, SymBytes, SymEnum, SymInt, SymSeq, SymStr, mk_bool, mk_int, z3_of_int

I = z3.IntSort()
CS = wsproto.connection.ConnectionState
EXC_ALIASES["wsproto.LocalProtocolError"] = wsproto.utilities.LocalProtocolError

s_accept_token = z3.Function("ws_accept_token", Str, Str)


class SymText(SymBytes):
    """text payload (python str) of unbounded size: same abstraction as byte payloads"""

    __slots__ = ()


def fresh_text(ctx, base):
    p = ops.fresh_payload(ctx, base)
    return SymText(p.t, p.n)


# ------------------------------------------------------------------------------------ io buffers
class IOBufModel:
    """io.BytesIO / io.StringIO as used by WebsocketBuffer: one abstract buffer with a flag saying
    which of the two it is (symbolic for an arbitrary pre-state, so no fork is needed)"""

    def _mk(self, interp, is_text, content, tag):
        return SObj("io:IOBuf", {"is_text": is_text, "content": content}, tag=tag)

    def new_real(self, interp, cls, args, kwargs, fr):
        p = ops.payload_lit(interp.ctx, b"")
        if cls is io.StringIO:
            return self._mk(interp, True, SymText(p.t, p.n), "stringio")
        init = args[0] if args else b""
        return self._mk(interp, False, ops.as_payload(interp.ctx, init), "bytesio")

    def symbolic(self, interp, name):
        ctx = interp.ctx
        nm = ctx.fresh_name(name + ".is_text")
        flag = z3.Bool(nm)
        ctx.inputs[nm] = flag
        return self._mk(interp, SymBool(flag), ops.fresh_payload(ctx, name + ".content"), name)

    def isinstance_of(self, interp, obj, cl):
        t = obj.fields["is_text"]
        tz = z3.BoolVal(t) if isinstance(t, bool) else t.e
        if cl is io.StringIO:
            return tz
        if cl is io.BytesIO:
            return z3.Not(tz)
        if cl is object:
            return z3.BoolVal(True)
        return z3.BoolVal(False)

    def _is_text(self, interp, obj, fr):
        t = obj.fields["is_text"]
        if isinstance(t, bool):
            return t
        return interp.ctx.branch(t.e, f"is_text@{fr.line}")

    def m_write(self, interp, obj, args, kwargs, fr):
        data = args[0]
        text_data = isinstance(data, (SymText, str)) or (isinstance(data, SymStr) and data.kind == "str")
        if self._is_text(interp, obj, fr) != text_data:
            raise mk_exc(TypeError, "write(): wrong argument type for this buffer", where=fr.where())
        if isinstance(data, (str, SymStr)) and not isinstance(data, SymText):
            raise Unsupported("IO write of short string")
        p = ops.as_payload(interp.ctx, data)
        c = ops.payload_cat(interp.ctx, obj.fields["content"], p)
        obj.fields["content"] = c
        return mk_int(p.n)

    def m_getvalue(self, interp, obj, args, kwargs, fr):
        c = obj.fields["content"]
        if self._is_text(interp, obj, fr):
            return SymText(c.t, c.n)
        return SymBytes(c.t, c.n)

    def get_content(self, interp, obj, fr):
        return obj.fields["content"]


_iobuf = IOBufModel()
MODEL_CLASSES["io:IOBuf"] = _iobuf


class _RealIO:
    def new(self, interp, cls, args, kwargs, fr):
        return _iobuf.new_real(interp, cls, args, kwargs, fr)


MODEL_BY_REAL[io.BytesIO] = _RealIO()
MODEL_BY_REAL[io.StringIO] = _RealIO()


# ------------------------------------------------------------------------------------ events
def _value_class(cls_):
    class _M:
        def m_response(self, interp, obj, args, kwargs, fr):
            if cls_ is wsproto.events.Ping:
                return SObj(wsproto.events.Pong, {"payload": obj.fields["payload"]})
            if cls_ is wsproto.events.CloseConnection:
                return SObj(wsproto.events.CloseConnection, {"code": obj.fields["code"], "reason": obj.fields.get("reason")})
            raise Unsupported("response()")

    return _M


for _c in (wsproto.events.Ping, wsproto.events.CloseConnection):
    MODEL_BY_REAL[_c] = _value_class(_c)()

WS_EVENT_CLASSES = [wsproto.events.TextMessage, wsproto.events.BytesMessage, wsproto.events.Ping, wsproto.events.Pong, wsproto.events.CloseConnection]


class WSEventSource:
    """events(): any number of events.  wsproto guarantees: the frames of one message have one
    type (a message in progress continues with its own type); Ping/Pong/Close may be interleaved"""

    def __init__(self, conn):
        self.conn = conn

    def elem(self, interp, i, fr):
        ctx = interp.ctx
        conn = self.conn
        names = [c.__name__ for c in WS_EVENT_CLASSES]
        k = ctx.choose(len(names), "wsevent", names)
        cls = WS_EVENT_CLASSES[k]
        ev = SObj(cls, {}, tag="wsev")
        cur = z3_of_int(conn.fields["cur_type"])  # 0 none, 1 text, 2 bytes
        if cls in (wsproto.events.TextMessage, wsproto.events.BytesMessage):
            mine = 1 if cls is wsproto.events.TextMessage else 2
            ctx.assume_checked(z3.Or(cur == 0, cur == mine), "message type continues")
            ev.fields["data"] = fresh_text(ctx, "wsev.data") if mine == 1 else ops.fresh_payload(ctx, "wsev.data")
            fin = z3.Bool(ctx.fresh_name("wsev.message_finished"))
            ev.fields["message_finished"] = SymBool(fin)
            ev.fields["frame_finished"] = SymBool(z3.Bool(ctx.fresh_name("wsev.frame_finished")))
            conn.fields["cur_type"] = mk_int(z3.If(fin, z3.IntVal(0), z3.IntVal(mine)))
        elif cls in (wsproto.events.Ping, wsproto.events.Pong):
            ev.fields["payload"] = ops.fresh_payload(ctx, "wsev.payload")
        else:
            code = ctx.fresh("wsev.code", I)
            ctx.inputs[str(code)] = code
            ev.fields["code"] = mk_int(code)
            ev.fields["reason"] = None
            # after the peer's close frame wsproto is REMOTE_CLOSING, or CLOSED if we closed first
            st = ctx.fresh("ws.state", I)
            ctx.assume(z3.Or(st == list(CS).index(CS.REMOTE_CLOSING), st == list(CS).index(CS.CLOSED)))
            conn.fields["state"] = SymEnum(CS, st)
            us = interp.unit_self
            if us is not None and "g_remote_closed" in us.fields:
                # ghost: remember the first close code the client sent
                first = z3.Not(ops.z3_of_bool(us.fields["g_remote_closed"]))
                us.fields["g_remote_code"] = mk_int(z3.If(first, code, z3_of_int(us.fields["g_remote_code"])))
                us.fields["g_remote_closed"] = True
        return ev


@register(name="pyvc:WSEvents")
class WSEventsModel:
    def iter_source(self, interp, obj, fr):
        return WSEventSource(obj.fields["conn"])


@register(name="M_ws", real=wsproto.connection.Connection)
class WSConnModel:
    real_class = wsproto.connection.Connection

    def _fresh(self, interp, obj, name):
        ctx = interp.ctx
        st = ctx.fresh(name + ".state", I)
        ctx.assume(z3.And(st >= 0, st < len(list(CS))))
        obj.fields["state"] = SymEnum(CS, st)
        cur = ctx.fresh(name + ".cur_type", I)
        ctx.assume(z3.And(cur >= 0, cur <= 2))
        obj.fields["cur_type"] = SymInt(cur)

    def symbolic(self, interp, name):
        obj = SObj(wsproto.connection.Connection, {}, tag=name)
        self._fresh(interp, obj, name)
        return obj

    def new(self, interp, cls, args, kwargs, fr):
        obj = SObj(wsproto.connection.Connection, {}, tag="wsconn")
        obj.fields["state"] = CS.OPEN
        obj.fields["cur_type"] = 0
        interp.traces.setdefault("ws_conn_new", []).append(tuple(args))  # (connection type, extensions)
        interp.register_shared(obj)
        return obj

    def havoc(self, interp, obj):
        # other tasks (the application) send through the same connection: state may advance;
        # the receive side (cur_type) belongs to the reader
        cur = obj.fields["cur_type"]
        self._fresh(interp, obj, obj.tag or "wsconn")
        if getattr(interp, "own_task", lambda: None)() == "reader":
            obj.fields["cur_type"] = cur

    def m_receive_data(self, interp, obj, args, kwargs, fr):
        return None

    def m_events(self, interp, obj, args, kwargs, fr):
        return SObj("pyvc:WSEvents", {"conn": obj})

    def m_send(self, interp, obj, args, kwargs, fr):
        ctx = interp.ctx
        k = ctx.choose(2, f"ws.send@{fr.line}", ["ok", "LocalProtocolError"])
        if k == 1:
            interp.traces.setdefault("ws_refused", []).append(args[0])
            raise PyRaise(SObj(wsproto.utilities.LocalProtocolError, {"args": ()}), fr.where())
        ev = args[0]
        interp.traces.setdefault("ws", []).append(ev)
        return ops.fresh_payload(ctx, "wsframe")


# ------------------------------------------------------------------------------------ helpers
@builtin_hook
def _ws_builtins(interp):
    ctx = interp.ctx

    def split_comma_header(a, k, fr):
        # wsproto 1.2: [piece.decode("ascii").strip() for piece in value.split(b",")] -- a byte
        # over 0x7f in the header value raises UnicodeDecodeError
        from .calls import ascii_cond
        from .ops import mk_exc
        from .sym import str_to_z3

        if not ctx.branch(ascii_cond(str_to_z3(a[0])), f"split_comma_header:ascii@{fr.line}"):
            raise mk_exc(UnicodeDecodeError, "ascii", b"", 0, 1, "ordinal not in range(128)", where=fr.where())
        sq = SymSeq(ctx.fresh("split_comma", StrSeq), "str")
        return PList(sym=sq)

    def generate_accept_token(a, k, fr):
        from .sym import SymOpt, str_to_z3

        key = a[0].value if isinstance(a[0], SymOpt) else a[0]  # (the token of the key, when there is one)
        return SymStr(s_accept_token(str_to_z3(key)), "bytes")

    def _new_deflate(a, k, fr):
        # a permessage-deflate extension object carries per-connection state (negotiated flag,
        # compressor, decompressor): contracts can ask where the one given to a connection came from
        o = SObj(wsproto.extensions.PerMessageDeflate, {})
        interp.traces.setdefault("ws_ext_new", []).append(o)
        return o

    def server_extensions_handshake(a, k, fr):
        from .sym import SymOpt

        return SymOpt(z3.Bool(ctx.fresh_name("ext_accepts.isnone")), SymStr(ctx.fresh("ext_accepts", Str), "bytes"))

    return {
        wsproto.utilities.split_comma_header: split_comma_header,
        wsproto.utilities.generate_accept_token: generate_accept_token,
        wsproto.handshake.server_extensions_handshake: server_extensions_handshake,
        wsproto.extensions.PerMessageDeflate: _new_deflate,
    }
