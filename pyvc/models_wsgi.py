"""Assumed contract for a PEP 3333 application as WSGIWrapper.run_app sees it, and for the
thread / loop bridges (run_coroutine_threadsafe + Future.result).  Trusted.

The application object calls start_response(status, headers) either before it returns (eager),
or when its result is first iterated (lazy -- a generator function), or -- in violation of PEP
3333 -- never; its result is an iterable of byte strings that may or may not have close()."""
from __future__ import annotations

import asyncio

import z3

from . import ops
from .ctx import Unsupported
from .models import builtin_hook, register
from .ops import PyRaise, mk_exc
from .sym import PList, SObj, SymBool, SymSeq, SymStr, mk_bool, mk_int


class WSGIApplicationError(Exception):
    """the application's own error, handed to start_response as exc_info (never raised by the model
    itself: PEP 3333 lets start_response re-raise it only when output has already been sent)"""


def _fresh_status(ctx, suffix=""):
    """a status line "<code> <reason>": three digits, a space, a reason phrase -> (status, code)"""
    from .sym import s_int, s_int_ok

    code = ctx.fresh("wsgi.status_code" + suffix, z3.IntSort())
    ctx.assume(z3.And(code >= 100, code <= 599))
    ctx.inputs[str(code)] = code
    reason = ctx.fresh("wsgi.reason" + suffix, z3.StringSort())
    code_str = ctx.fresh("wsgi.status_digits" + suffix, z3.StringSort())
    ctx.assume(z3.And(z3.Length(code_str) == 3, z3.Not(z3.Contains(code_str, z3.StringVal(" "))), s_int_ok(code_str), s_int(code_str) == code))
    return SymStr(z3.Concat(code_str, z3.StringVal(" "), reason), "str"), code


def _fresh_headers(ctx, suffix=""):
    from .sym import PairSeq

    return PList(sym=SymSeq(z3.Const(ctx.fresh_name("wsgi.headers" + suffix), PairSeq), "spair"))


def _start(interp, body, fr):
    """the application calls start_response(status, headers).  PEP 3333 also lets it call
    start_response again, with exc_info, as long as no output has been produced: the status and
    headers of that call replace the earlier ones (the application's error handler answering
    instead).  The model makes that second call -- or not -- right after the first, i.e. before
    any chunk exists; what the client must see is the last call's status and headers."""
    ctx = interp.ctx
    sr = body.fields["start_response"]
    status = body.fields["status"]
    interp.traces.setdefault("start_response_calls", []).append((status, body.fields["headers"]))
    interp.call_value(sr, [status, body.fields["headers"]], {}, fr)
    body.fields["started"] = True
    if ctx.choose(2, f"wsgi.restart@{fr.line}", ["once", "again-with-exc_info"]) == 1:
        status2, code2 = _fresh_status(ctx, ".2")
        headers2 = _fresh_headers(ctx, ".2")
        exc = SObj(WSGIApplicationError, {"args": ()}, tag="wsgi.app_error")
        exc_info = (WSGIApplicationError, exc, interp.make_symbolic("opaque", "wsgi.traceback"))
        interp.traces.setdefault("start_response_calls", []).append((status2, headers2))
        body.fields["status"], body.fields["code"], body.fields["headers"] = status2, mk_int(code2), headers2
        interp.call_value(sr, [status2, headers2, exc_info], {}, fr)


@register(name="pyvc:WSGIApp")
class WSGIAppModel:
    def symbolic(self, interp, name):
        return SObj("pyvc:WSGIApp", {}, tag=name)

    def m___call__(self, interp, obj, args, kwargs, fr):
        ctx = interp.ctx
        environ, sr = args[0], args[1]
        interp.traces.setdefault("wsgi_calls", []).append((environ, sr))
        status, code = _fresh_status(ctx)
        body = SObj("pyvc:WSGIBody", {"start_response": sr, "status": status, "code": mk_int(code), "headers": _fresh_headers(ctx), "started": False,
                                      "has_close": SymBool(z3.Bool(ctx.fresh_name("wsgi.body.has_close"))), "n_close": 0}, tag="wsgi_body")
        mode = ctx.choose(3, f"wsgi.start@{fr.line}", ["eager", "lazy", "never"])
        body.fields["mode"] = ("eager", "lazy", "never")[mode]
        if mode == 0:
            _start(interp, body, fr)
        interp.wsgi_body = body
        interp.register_shared(body)
        return body


@register(name="pyvc:WSGIBody")
class WSGIBodyModel:
    def iter_source(self, interp, obj, fr):
        return _BodySource(obj)

    def havoc(self, interp, obj):
        # across the iterations of the loop that consumes it: a lazily starting application has
        # started once any chunk was produced
        ctx = interp.ctx
        st = obj.fields["started"]
        sz = z3.BoolVal(st) if isinstance(st, bool) else st.e
        new = z3.Bool(ctx.fresh_name("wsgi.body.started'"))
        ctx.assume(z3.Implies(sz, new))
        if obj.fields["mode"] == "never":
            ctx.assume(z3.Not(new))
        obj.fields["started"] = SymBool(new)

    def get_close(self, interp, obj, fr):
        from .sym import BoundMethod

        if not interp.ctx.branch(obj.fields["has_close"].e if hasattr(obj.fields["has_close"], "e") else z3.BoolVal(obj.fields["has_close"]), f"has close@{fr.line}"):
            raise mk_exc(AttributeError, "object has no attribute 'close'", where=fr.where())
        return BoundMethod(obj, "close")

    def m_close(self, interp, obj, args, kwargs, fr):
        obj.fields["n_close"] = obj.fields["n_close"] + 1
        interp.traces.setdefault("wsgi_close", []).append(obj)
        return None


class _BodySource:
    def __init__(self, body):
        self.body = body

    def _lazy_start(self, interp, fr, why):
        b = self.body
        if b.fields["mode"] != "lazy":
            return
        st = b.fields["started"]
        sz = z3.BoolVal(st) if isinstance(st, bool) else st.e
        if not interp.ctx.branch(sz, f"wsgi.started@{why}"):
            # a generator application: start_response runs when the generator first runs
            _start(interp, b, fr)

    def on_exhausted(self, interp, fr):
        self._lazy_start(interp, fr, "exhausted")

    def elem(self, interp, i, fr):
        b = self.body
        self._lazy_start(interp, fr, "chunk")
        if False:
            _start(interp, b, fr)
        chunk = ops.fresh_payload(interp.ctx, "wsgi.chunk")
        interp.traces.setdefault("wsgi_chunks", []).append(chunk)
        return chunk


@register(name="asyncio:ConcurrentFuture")
class ConcurrentFutureModel:
    def m_result(self, interp, obj, args, kwargs, fr):
        # blocks the calling thread until the coroutine has run to completion on the loop
        coro = obj.fields["coro"]
        if not obj.fields.get("done"):
            obj.fields["done"] = True
            r = interp.await_value(coro, fr) if coro is not None else None
            obj.fields["value"] = r
        interp.traces.setdefault("bridge", []).append(("result", obj))
        return obj.fields.get("value")


@builtin_hook
def _wsgi_builtins(interp):
    def run_coroutine_threadsafe(a, k, fr):
        f = SObj("asyncio:ConcurrentFuture", {"coro": a[0], "done": False}, tag="future")
        interp.traces.setdefault("bridge", []).append(("submit", f))
        return f

    return {asyncio.run_coroutine_threadsafe: run_coroutine_threadsafe}


@register(name="pyvc:BridgeProbe")
class BridgeProbeModel:
    """stands for WSGIWrapper as the two middlewares see it: called with (scope, receive, send,
    sync_spawn, call_soon) it uses call_soon the way run_app does -- call_soon(send, message) --
    and demands that the message has been sent when call_soon returns"""

    def symbolic(self, interp, name):
        return SObj("pyvc:BridgeProbe", {}, tag=name)

    def m___call__(self, interp, obj, args, kwargs, fr):
        from .sym import Closure

        interp.traces.setdefault("wsgi_app_calls", []).append(tuple(args))
        call_soon = args[4]
        interp.yield_point(fr, "wsgi_app")
        if isinstance(call_soon, Closure):
            probe = interp.make_symbolic("callable{record:probe_sends;yields:0;coro:1}", "probe_send")
            msg = {"type": "http.response.body"}
            interp.call_value(call_soon, [probe, "message"], {}, fr)
            n = len(interp.traces.get("probe_sends_done", []))
            unit = getattr(interp, "unit_name", "?")
            interp.ctx.prove(f"{unit}.C17.call_soon.waits", z3.BoolVal(n == 1), "call_soon(send, message) returns only after send(message) has completed on the event loop", fr.where(),
                             note=f"send ran {n} time(s) before call_soon returned", props=("C17",))
        return None
