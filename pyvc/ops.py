"""Primitive operations on values (arithmetic, comparison, truth, len, payload algebra)."""
from __future__ import annotations

import ast
import enum
from typing import Any

import z3

from .ctx import Ctx, PathEnd, Unsupported
from .sym import (
    ANY_TAGS,
    BEMPTY,
    Bytes,
    Int,
    Opaque,
    PDict,
    PList,
    PSet,
    SObj,
    Str,
    Sym,
    SymAny,
    SymBool,
    SymBytes,
    SymEnum,
    SymInt,
    SymMap,
    SymMsg,
    SymOpaque,
    SymOpt,
    SymReal,
    SymSeq,
    SymStr,
    bcat,
    blen,
    bslice,
    is_sym,
    kind_of_strlike,
    mk_bool,
    mk_int,
    mk_str,
    str_to_z3,
    z3_of_bool,
    z3_of_int,
)


class PyRaise(Exception):
    """a Python exception raised by the interpreted program; `exc` is an SObj whose cls is the real
    exception class"""

    def __init__(self, exc: SObj, where: str = ""):
        self.exc = exc
        self.where = where
        super().__init__(f"{getattr(exc.cls, '__name__', exc.cls)} at {where}")


def mk_exc(cls, *args, where: str = "") -> PyRaise:
    return PyRaise(SObj(cls, {"args": tuple(args)}), where)


# ------------------------------------------------------------------------------ payload bytes
def payload_lit(ctx: Ctx, b: bytes) -> SymBytes:
    b = bytes(b)
    if b == b"":
        t = BEMPTY
        ctx.assume(blen(BEMPTY) == 0)
        return SymBytes(t, z3.IntVal(0))
    if b not in ctx.lits:
        t = z3.Const("blit_" + b[:16].hex() + f"_{len(b)}", Bytes)
        for other, ot in ctx.lits.items():
            ctx.assume(t != ot.t)
        ctx.assume(blen(t) == len(b))
        ctx.assume(t != BEMPTY)
        ctx.lits[b] = SymBytes(t, z3.IntVal(len(b)))
    return ctx.lits[b]


def fresh_payload(ctx: Ctx, base: str) -> SymBytes:
    t = ctx.fresh(base, Bytes)
    n = blen(t)
    ctx.assume(n >= 0)
    ctx.assume(blen(BEMPTY) == 0)
    ctx.assume(z3.Implies(n == 0, t == BEMPTY))
    if base not in ctx.inputs and not base.startswith("$"):
        ctx.inputs[f"len({t})"] = n
    return SymBytes(t, n)


def as_payload(ctx: Ctx, v) -> SymBytes:
    if isinstance(v, SymBytes):
        return v
    if isinstance(v, (bytes, bytearray)):
        return payload_lit(ctx, bytes(v))
    raise Unsupported(f"expected payload bytes, got {v!r}")


def payload_cat(ctx: Ctx, a: SymBytes, b: SymBytes) -> SymBytes:
    t = bcat(a.t, b.t)
    n = z3.simplify(a.n + b.n)
    # associativity, instantiated on the terms at hand
    for inner, left in ((a.t, True), (b.t, False)):
        if z3.is_app(inner) and inner.decl().name() == "bcat" and inner.num_args() == 2:
            x, y = inner.arg(0), inner.arg(1)
            if left:   # cat(cat(x, y), b) == cat(x, cat(y, b))
                ctx.assume(t == bcat(x, bcat(y, b.t)))
            else:      # cat(a, cat(x, y)) == cat(cat(a, x), y)
                ctx.assume(t == bcat(bcat(a.t, x), y))
    ctx.assume(blen(t) == n)
    ctx.assume(z3.Implies(a.n == 0, t == b.t))
    ctx.assume(z3.Implies(b.n == 0, t == a.t))
    ctx.assume(z3.Implies(n == 0, t == BEMPTY))
    return SymBytes(t, n)


def payload_slice(ctx: Ctx, a: SymBytes, lo, hi) -> SymBytes:
    """a[lo:hi] with 0 <= lo <= hi <= len(a) already normalised by the caller"""
    lo_e, hi_e = z3_of_int(lo), z3_of_int(hi)
    t = bslice(a.t, lo_e, hi_e)
    n = z3.simplify(hi_e - lo_e)
    ctx.assume(blen(t) == n)
    ctx.assume(z3.Implies(n == 0, t == BEMPTY))
    ctx.assume(z3.Implies(z3.And(lo_e == 0, hi_e == a.n), t == a.t))
    return SymBytes(t, n)


def payload_split_axiom(ctx: Ctx, a: SymBytes, k) -> None:
    """cat(a[:k], a[k:]) == a"""
    k_e = z3_of_int(k)
    ctx.assume(
        z3.Implies(
            z3.And(0 <= k_e, k_e <= a.n),
            bcat(bslice(a.t, z3.IntVal(0), k_e), bslice(a.t, k_e, a.n)) == a.t,
        )
    )


# ------------------------------------------------------------------------------ truthiness
def truth(ctx: Ctx, v, label="truth"):
    """python truthiness as python bool or z3 Bool (no forking)"""
    if v is None or type(v).__name__ == "Bottom":
        return False
    if isinstance(v, bool):
        return v
    if isinstance(v, (int, float, str, bytes, bytearray, tuple)):
        return bool(v)
    if isinstance(v, SymBool):
        return v.e
    if isinstance(v, SymInt):
        return v.e != 0
    if type(v).__name__ == "SymReal":
        return v.e != 0
    if isinstance(v, SymStr):
        return z3.Length(v.e) > 0
    if isinstance(v, SymBytes):
        return v.n > 0
    if isinstance(v, SymSeq):
        return z3.Length(v.e) > 0
    if isinstance(v, PList):
        if v.sym is not None:
            return z3.Length(v.sym.e) > 0
        return len(v.items) > 0
    if isinstance(v, PDict):
        return len(v.items) > 0
    if isinstance(v, PSet):
        return len(v.items) > 0
    if isinstance(v, SymOpt):
        return z3.And(z3.Not(v.is_none), _z(truth(ctx, v.value)))
    if isinstance(v, (SObj, SymOpaque, SymEnum)):
        return True
    if isinstance(v, SymAny):
        return any_truth(ctx, v)
    if isinstance(v, SymMsg):
        return True
    if isinstance(v, SymMap):
        if v.size is not None:
            return v.size > 0
        raise Unsupported("truth of SymMap without size")
    if isinstance(v, enum.Enum) or isinstance(v, type) or callable(v):
        return True
    raise Unsupported(f"truthiness of {v!r}")


def _z(b):
    return z3.BoolVal(b) if isinstance(b, bool) else b


def truth_branch(ctx: Ctx, v, label="if") -> bool:
    return ctx.branch(truth(ctx, v), label)


# ------------------------------------------------------------------------------ Any
def any_tag_is(v: SymAny, tag: str):
    return v.tag == ANY_TAGS.index(tag)


def any_proj(ctx: Ctx, v: SymAny, what: str):
    if what in v.proj:
        return v.proj[what]
    if what == "int":
        r = SymInt(z3.Int(f"{v.name}.int"))
        ctx.inputs[f"{v.name}.int"] = r.e
    elif what == "bool":
        r = SymBool(z3.Bool(f"{v.name}.bool"))
    elif what == "str":
        r = SymStr(z3.String(f"{v.name}.str"), "str")
        ctx.inputs[f"{v.name}.str"] = r.e
    elif what == "bytes":
        if v.bytes_kind == "payload":
            r = fresh_payload(ctx, f"{v.name}.bytes")
        else:
            r = SymStr(z3.String(f"{v.name}.bytes"), "bytes")
            ctx.inputs[f"{v.name}.bytes"] = r.e
    else:
        raise KeyError(what)
    v.proj[what] = r
    return r


def any_truth(ctx: Ctx, v: SymAny):
    t = v.tag
    T = ANY_TAGS.index
    return z3.Or(
        z3.And(t == T("bool"), any_proj(ctx, v, "bool").e),
        z3.And(t == T("int"), any_proj(ctx, v, "int").e != 0),
        z3.And(t == T("str"), z3.Length(any_proj(ctx, v, "str").e) > 0),
        z3.And(t == T("bytes"), _z(truth(ctx, any_proj(ctx, v, "bytes")))),
        z3.And(t == T("seq"), z3.Bool(f"{v.name}.seq_nonempty")),
        z3.And(t == T("other"), z3.Bool(f"{v.name}.other_truthy")),
    )


def any_split(ctx: Ctx, v: SymAny, label="anytag", interesting=None):
    """fork on the dynamic type of an application supplied value; returns (tag, typed value).
    Tags outside `interesting` are lumped into one alternative with tag 'rest' (callers treat them
    uniformly, e.g. raise TypeError)."""
    tags = list(ANY_TAGS) if interesting is None else [t for t in ANY_TAGS if t in interesting]
    rest = [t for t in ANY_TAGS if t not in tags]
    num = "num" in (interesting or ())
    if num:
        # int and bool behave alike in numeric contexts: one alternative
        tags = [t for t in tags if t not in ("int", "bool")]
        rest = [t for t in rest if t not in ("int", "bool")]
    alts = [t for t in tags if ctx.feasible(any_tag_is(v, t))]
    if num and ctx.feasible(z3.Or(any_tag_is(v, "int"), any_tag_is(v, "bool"))):
        alts.insert(0, "num")
    if rest and ctx.feasible(z3.Or(*[any_tag_is(v, t) for t in rest])):
        alts.append("rest")
    if not alts:
        raise PathEnd("no feasible tag")
    k = ctx.choose(len(alts), f"{label}:{v.name}", alts)
    tag = alts[k]
    if tag == "rest":
        ctx.assume(z3.Or(*[any_tag_is(v, t) for t in rest]))
        return "rest", v
    if tag == "num":
        ctx.assume(z3.Or(any_tag_is(v, "int"), any_tag_is(v, "bool")))
        i = any_proj(ctx, v, "int").e
        b = any_proj(ctx, v, "bool").e
        return "int", mk_int(z3.If(any_tag_is(v, "bool"), z3.If(b, z3.IntVal(1), z3.IntVal(0)), i))
    ctx.assume(any_tag_is(v, tag))
    if tag == "none":
        return tag, None
    if tag in ("bool", "int", "str", "bytes"):
        return tag, any_proj(ctx, v, tag)
    return tag, v


# ------------------------------------------------------------------------------ equality
def eq(ctx: Ctx, a, b):
    """python == as python bool or z3 Bool.  Never forks."""
    if type(a).__name__ == "Bottom" or type(b).__name__ == "Bottom":
        return False
    if a is b and isinstance(a, (SymMsg, SymOpaque, SObj, PList, PDict, SymSeq, SymStr, SymInt, SymBool, SymBytes)):
        return True
    for x, y, flip in ((a, b, False), (b, a, True)):
        tn = type(x).__name__
        if tn == "SymIte":
            return z3.If(x.c, _z(eq(ctx, x.a, y)), _z(eq(ctx, x.b, y)))
        if tn == "SymGiven":
            from .models_cli import wrap_default

            return z3.If(x.given, _z(eq(ctx, x.value, y)), _z(eq(ctx, wrap_default(x.default), y)))
    if not is_sym(a) and not is_sym(b) and not isinstance(a, (SObj, PList, PDict)) and not isinstance(
        b, (SObj, PList, PDict)
    ):
        if isinstance(a, tuple) and isinstance(b, tuple):
            if len(a) != len(b):
                return False
            return _and([eq(ctx, x, y) for x, y in zip(a, b)])
        return a == b
    if isinstance(a, SymOpt) or isinstance(b, SymOpt):
        if isinstance(b, SymOpt) and not isinstance(a, SymOpt):
            a, b = b, a
        if b is None:
            return a.is_none
        if isinstance(b, SymOpt):
            return z3.Or(
                z3.And(a.is_none, b.is_none),
                z3.And(z3.Not(a.is_none), z3.Not(b.is_none), _z(eq(ctx, a.value, b.value))),
            )
        return z3.And(z3.Not(a.is_none), _z(eq(ctx, a.value, b)))
    if a is None or b is None:
        other = b if a is None else a
        if isinstance(other, SymAny):
            return any_tag_is(other, "none")
        return other is None
    if isinstance(a, SymAny) or isinstance(b, SymAny):
        if isinstance(b, SymAny) and not isinstance(a, SymAny):
            a, b = b, a
        return any_eq(ctx, a, b)
    if isinstance(a, SymReal) or isinstance(b, SymReal):
        ea = a.e if isinstance(a, SymReal) else (z3.ToReal(z3_of_int(a)) if isinstance(a, (int, SymInt)) and not isinstance(a, bool) else (z3.RealVal(a) if isinstance(a, float) else None))
        eb = b.e if isinstance(b, SymReal) else (z3.ToReal(z3_of_int(b)) if isinstance(b, (int, SymInt)) and not isinstance(b, bool) else (z3.RealVal(b) if isinstance(b, float) else None))
        if ea is None or eb is None:
            return False
        return ea == eb
    if isinstance(a, (SymBool, bool)) and isinstance(b, (SymBool, bool)):
        return z3_of_bool(a) == z3_of_bool(b)
    if isinstance(a, (SymInt, int, SymBool, float)) and isinstance(b, (SymInt, int, SymBool, float)):
        return z3_of_int(a) == z3_of_int(b)
    ka, kb = kind_of_strlike(a), kind_of_strlike(b)
    if isinstance(a, SymBytes) or isinstance(b, SymBytes):
        if (ka == "str") or (kb == "str"):
            return False
        if isinstance(a, (SymBytes, bytes, bytearray)) and isinstance(b, (SymBytes, bytes, bytearray)):
            pa, pb = as_payload(ctx, a), as_payload(ctx, b)
            return z3.And(pa.t == pb.t, pa.n == pb.n)
        return False
    if ka and kb:
        if ka != kb:
            return False
        # variable == literal: a proxy the string-free solver can decide
        for x, y in ((a, b), (b, a)):
            if isinstance(x, SymStr) and not is_sym(y) and z3.is_const(x.e) and x.e.decl().kind() == z3.Z3_OP_UNINTERPRETED:
                lit = y if isinstance(y, str) else bytes(y).decode("latin-1")
                return ctx.str_eq_lit(x.e, lit)
        return str_to_z3(a) == str_to_z3(b)
    if isinstance(a, SymEnum) or isinstance(b, SymEnum):
        if isinstance(b, SymEnum) and not isinstance(a, SymEnum):
            a, b = b, a
        if isinstance(b, SymEnum):
            if a.cls is not b.cls:
                return False
            return a.e == b.e
        members = getattr(a.cls, "members", None)
        if members is not None:  # option set of sentinel objects (h11 states)
            for i, m in enumerate(members):
                if m is b:
                    return a.e == i
            return False
        if isinstance(b, a.cls):
            return a.e == list(a.cls).index(b)
        return False
    if isinstance(a, SymOpaque) and isinstance(b, SymOpaque):
        return a.e == b.e
    for x, y in ((a, b), (b, a)):
        if isinstance(x, SymOpaque) and (kind_of_strlike(y) or isinstance(y, (int, bool, SymInt, SymBool, float))):
            # a value of unknown kind against a string / number: an uninterpreted relation
            if kind_of_strlike(y):
                return z3.Function("opq_eq_str", Opaque, Str, z3.BoolSort())(x.e, str_to_z3(y))
            return z3.Function("opq_eq_int", Opaque, Int, z3.BoolSort())(x.e, z3_of_int(y))
    if isinstance(a, SObj) and isinstance(b, SObj):
        if a is b:
            return True
        if a.cls is b.cls and _is_frozen_dc(a.cls):
            return _and([eq(ctx, a.fields[k], b.fields[k]) for k in a.fields])
        return False
    if isinstance(a, tuple) and isinstance(b, tuple):
        if len(a) != len(b):
            return False
        return _and([eq(ctx, x, y) for x, y in zip(a, b)])
    if isinstance(a, (PList, SymSeq)) and isinstance(b, (PList, SymSeq)):
        sa, sb = seq_of(ctx, a), seq_of(ctx, b)
        if sa is not None and sb is not None and sa.elem == sb.elem:
            return sa.e == sb.e
        if isinstance(a, PList) and isinstance(b, PList) and a.sym is None and b.sym is None:
            if len(a.items) != len(b.items):
                return False
            return _and([eq(ctx, x, y) for x, y in zip(a.items, b.items)])
        # one side (partly) symbolic: compare as sequences
        ref = sa or sb
        try:
            if ref is not None:
                ea, eb = to_seq(ctx, a, like=ref), to_seq(ctx, b, like=ref)
                return ea.e == eb.e
        except Unsupported:
            pass
        raise Unsupported(f"== between {a!r} and {b!r}")
    if isinstance(a, PDict) and isinstance(b, PDict):
        if set(a.items) != set(b.items):
            return False
        return _and([eq(ctx, a.items[k], b.items[k]) for k in a.items])
    if (a is None) != (b is None):
        return False
    if type(a) is object or type(b) is object:
        return a is b  # a bare sentinel object equals only itself
    if type(a) is not type(b) and not (is_sym(a) and is_sym(b)):
        # different python kinds (e.g. str vs int, SObj vs str)
        simple = (int, float, str, bytes, tuple, bool)
        if isinstance(a, simple) or isinstance(b, simple) or isinstance(a, (SObj, enum.Enum)) or isinstance(
            b, (SObj, enum.Enum)
        ):
            return False
    raise Unsupported(f"== between {a!r} and {b!r}")


def _is_frozen_dc(cls) -> bool:
    p = getattr(cls, "__dataclass_params__", None)
    return bool(p and p.eq)


def _and(xs):
    xs = [x for x in xs if x is not True]
    if any(x is False for x in xs):
        return False
    if not xs:
        return True
    return z3.And(*[_z(x) for x in xs])


def any_eq(ctx: Ctx, a: SymAny, b):
    if isinstance(b, SymAny):
        if a is b:
            return True
        raise Unsupported("Any == Any")
    if b is None:
        return any_tag_is(a, "none")
    if isinstance(b, (bool, SymBool)):
        return z3.Or(
            z3.And(any_tag_is(a, "bool"), any_proj(ctx, a, "bool").e == z3_of_bool(b)),
            z3.And(any_tag_is(a, "int"), any_proj(ctx, a, "int").e == z3_of_int(b)),
        )
    if isinstance(b, (int, SymInt)):
        return z3.Or(
            z3.And(any_tag_is(a, "int"), any_proj(ctx, a, "int").e == z3_of_int(b)),
            z3.And(
                any_tag_is(a, "bool"),
                z3.If(any_proj(ctx, a, "bool").e, z3.IntVal(1), z3.IntVal(0)) == z3_of_int(b),
            ),
        )
    kb = kind_of_strlike(b)
    if kb == "str":
        return z3.And(any_tag_is(a, "str"), any_proj(ctx, a, "str").e == str_to_z3(b))
    if kb == "bytes" or isinstance(b, SymBytes):
        pa = any_proj(ctx, a, "bytes")
        return z3.And(any_tag_is(a, "bytes"), _z(eq(ctx, pa, b)))
    raise Unsupported(f"Any == {b!r}")


def seq_of(ctx: Ctx, v):
    if isinstance(v, SymSeq):
        return v
    if isinstance(v, PList):
        if v.sym is not None:
            return v.sym
    return None


# ------------------------------------------------------------------------------ comparison / arithmetic
def compare(ctx: Ctx, op, a, b):
    if isinstance(op, ast.Eq):
        return eq(ctx, a, b)
    if isinstance(op, ast.NotEq):
        r = eq(ctx, a, b)
        return (not r) if isinstance(r, bool) else z3.Not(r)
    if isinstance(op, (ast.Is, ast.IsNot)):
        r = identical(ctx, a, b)
        if isinstance(op, ast.IsNot):
            r = (not r) if isinstance(r, bool) else z3.Not(r)
        return r
    if isinstance(op, (ast.Lt, ast.LtE, ast.Gt, ast.GtE)):
        if type(a).__name__ == "Bottom" or type(b).__name__ == "Bottom":
            return False
        if isinstance(a, SymAny) or isinstance(b, SymAny):
            # int-like application values compare as ints; anything else against an int is a TypeError
            def conv(x):
                if not isinstance(x, SymAny):
                    return x
                tag, val = any_split(ctx, x, "order", interesting=("num",))
                if tag == "rest":
                    raise mk_exc(TypeError, "'<' not supported between these types")
                return mk_int(z3_of_int(val))

            a, b = conv(a), conv(b)
        ka, kb = kind_of_strlike(a), kind_of_strlike(b)
        if ka and kb:
            if not is_sym(a) and not is_sym(b):
                return _pycmp(op, a, b)
            if ka != kb:
                raise mk_exc(TypeError, "'<' not supported")
            ea, eb = str_to_z3(a), str_to_z3(b)
            # z3 str.< / str.<= are lexicographic on code points, as in python
            if isinstance(op, ast.Lt):
                return ea < eb
            if isinstance(op, ast.LtE):
                return ea <= eb
            if isinstance(op, ast.Gt):
                return eb < ea
            return eb <= ea
        if not is_sym(a) and not is_sym(b):
            return _pycmp(op, a, b)
        if isinstance(a, SymReal) or isinstance(b, SymReal):
            ea, eb = _as_real(a), _as_real(b)
            if ea is None or eb is None:
                raise Unsupported("ordering of a real and a non-number")
        else:
            ea, eb = z3_of_int(a), z3_of_int(b)
        if isinstance(op, ast.Lt):
            return ea < eb
        if isinstance(op, ast.LtE):
            return ea <= eb
        if isinstance(op, ast.Gt):
            return ea > eb
        return ea >= eb
    raise Unsupported(f"comparison {op}")


def _pycmp(op, a, b):
    if isinstance(op, ast.Lt):
        return a < b
    if isinstance(op, ast.LtE):
        return a <= b
    if isinstance(op, ast.Gt):
        return a > b
    return a >= b


def identical(ctx: Ctx, a, b):
    """`is`: identity for None / enum members / sentinels / objects"""
    if a is b:
        return True
    for x, y in ((a, b), (b, a)):
        if type(x).__name__ == "SymGiven":
            # an option compared with its default object (the `sentinel`): not given
            if y is x.default:
                return z3.Not(x.given)
            return False
    for x, y in ((a, b), (b, a)):
        if type(x).__name__ == "SymIte":
            # a conditionally assigned attribute (interp.try_merge_if): decided branch by branch
            # (without this case `merged is None` was the constant False, whatever the branches)
            return z3.If(x.c, _z(identical(ctx, x.a, y)), _z(identical(ctx, x.b, y)))
    if type(a).__name__ == "SymMsg" or type(b).__name__ == "SymMsg":
        return False
    if isinstance(a, SymOpt) or isinstance(b, SymOpt):
        if isinstance(b, SymOpt) and not isinstance(a, SymOpt):
            a, b = b, a
        if b is None:
            return a.is_none
        if isinstance(b, SymOpt):
            raise Unsupported("Opt is Opt")
        return z3.And(z3.Not(a.is_none), _z(identical(ctx, a.value, b)))
    if isinstance(a, SymAny) or isinstance(b, SymAny):
        if isinstance(b, SymAny) and not isinstance(a, SymAny):
            a, b = b, a
        if b is None:
            return any_tag_is(a, "none")
        if a is b:
            return True
        raise Unsupported("is on Any")
    if isinstance(a, SymEnum) or isinstance(b, SymEnum):
        return eq(ctx, a, b)
    if isinstance(a, SymOpaque) and isinstance(b, SymOpaque):
        return a.e == b.e
    if isinstance(a, SymBool) or isinstance(b, SymBool):
        if isinstance(a, (SymBool, bool)) and isinstance(b, (SymBool, bool)):
            return z3_of_bool(a) == z3_of_bool(b)
        return False
    if is_sym(a) or is_sym(b):
        if a is None or b is None:
            return False  # non-optional symbolic values are never None
        if isinstance(a, SymOpaque) or isinstance(b, SymOpaque):
            return False
        raise Unsupported(f"is between {a!r} and {b!r}")
    return a is b


def _as_real(x):
    if isinstance(x, SymReal):
        return x.e
    if isinstance(x, bool):
        return None
    if isinstance(x, (int, SymInt)):
        return z3.ToReal(z3_of_int(x))
    if isinstance(x, float):
        return z3.RealVal(x)
    return None


def binop(ctx: Ctx, op, a, b):
    if isinstance(a, SymAny) or isinstance(b, SymAny):
        raise Unsupported("arithmetic on Any")
    if isinstance(a, SymReal) or isinstance(b, SymReal):
        ea, eb = _as_real(a), _as_real(b)
        if ea is not None and eb is not None and isinstance(op, (ast.Add, ast.Sub)):
            return SymReal(ea + eb if isinstance(op, ast.Add) else ea - eb)
        return SymReal(ctx.fresh("real", z3.RealSort()))
    num = (int, float, SymInt, SymBool, bool)
    if isinstance(a, num) and isinstance(b, num) and not isinstance(a, str):
        if not is_sym(a) and not is_sym(b):
            return _pybin(op, a, b)
        ea, eb = z3_of_int(a), z3_of_int(b)
        if isinstance(op, ast.Add):
            return mk_int(ea + eb)
        if isinstance(op, ast.Sub):
            return mk_int(ea - eb)
        if isinstance(op, ast.Mult):
            return mk_int(ea * eb)
        if isinstance(op, ast.FloorDiv):
            if isinstance(b, int) and b > 0:
                return mk_int(ea / eb)  # z3 int div floors for positive divisor
        if isinstance(op, ast.Mod):
            if isinstance(b, int) and not isinstance(b, bool) and b > 0:
                return mk_int(ea % eb)  # z3 mod is in [0, b) for a positive divisor, as Python's
        raise Unsupported(f"binop {op} on symbolic ints")
    ka, kb = kind_of_strlike(a), kind_of_strlike(b)
    if isinstance(op, ast.Add):
        if isinstance(a, SymBytes) or isinstance(b, SymBytes):
            return payload_cat(ctx, as_payload(ctx, a), as_payload(ctx, b))
        if ka and kb:
            if ka != kb:
                raise mk_exc(TypeError, "can't concat str and bytes")
            if not is_sym(a) and not is_sym(b):
                return a + b
            return mk_str(z3.Concat(str_to_z3(a), str_to_z3(b)), ka)
        if isinstance(a, (PList, SymSeq)) and isinstance(b, (PList, SymSeq)):
            return list_concat(ctx, a, b)
        if isinstance(a, tuple) and isinstance(b, tuple):
            return a + b
    if isinstance(op, ast.Mod) and ka:
        return fmt_percent(ctx, a, b)
    if not is_sym(a) and not is_sym(b) and not isinstance(a, (SObj, PList, PDict)) and not isinstance(
        b, (SObj, PList, PDict)
    ):
        return _pybin(op, a, b)
    raise Unsupported(f"binop {type(op).__name__} on {a!r}, {b!r}")


def _pybin(op, a, b):
    import operator

    table = {
        ast.Add: operator.add,
        ast.Sub: operator.sub,
        ast.Mult: operator.mul,
        ast.Div: operator.truediv,
        ast.FloorDiv: operator.floordiv,
        ast.Mod: operator.mod,
        ast.Pow: operator.pow,
        ast.BitOr: operator.or_,
        ast.BitAnd: operator.and_,
    }
    f = table.get(type(op))
    if f is None:
        raise Unsupported(f"binop {op}")
    return f(a, b)


def fmt_percent(ctx: Ctx, fmt, arg):
    """b"%d" % i and similar: only the shapes the code uses"""
    from .sym import i_fmt

    kind = kind_of_strlike(fmt)
    if not is_sym(fmt):
        args = arg if isinstance(arg, tuple) else (arg,)
        if not any(is_sym(x) for x in args):
            return fmt % arg
        if fmt in (b"%d", "%d") and len(args) == 1 and isinstance(args[0], (SymInt,)):
            return SymStr(i_fmt(args[0].e), kind)
        # "literal%sliteral" % string: plain concatenation
        if len(args) == 1 and kind_of_strlike(args[0]) == kind and fmt.count(b"%" if kind == "bytes" else "%") == 1 and (b"%s" if kind == "bytes" else "%s") in fmt:
            pre, post = fmt.split(b"%s" if kind == "bytes" else "%s")
            parts = [str_to_z3(pre)] if pre else []
            parts.append(str_to_z3(args[0]))
            if post:
                parts.append(str_to_z3(post))
            return mk_str(parts[0] if len(parts) == 1 else z3.Concat(*parts), kind)
        # opaque formatting result
        return SymStr(ctx.fresh("fmt", Str), kind)
    raise Unsupported("% with symbolic format")


def list_concat(ctx: Ctx, a, b):
    sa = a if isinstance(a, SymSeq) else a.sym
    sb = b if isinstance(b, SymSeq) else b.sym
    if sa is None and sb is None:
        return PList(a.items + b.items)
    ea = to_seq(ctx, a)
    eb = to_seq(ctx, b, like=ea)
    ea = to_seq(ctx, a, like=eb)
    return PList(sym=SymSeq(z3.Concat(ea.e, eb.e), ea.elem))


def to_seq(ctx: Ctx, v, like: SymSeq = None) -> SymSeq:
    """view a list value as symbolic sequence"""
    from .sym import Pair, PairSeq

    if isinstance(v, SymSeq):
        return v
    if isinstance(v, PList) and v.sym is not None and not v.items:
        return v.sym
    if isinstance(v, PList) and v.sym is not None:
        head = to_seq(ctx, PList(v.items), like=v.sym)
        return SymSeq(z3.Concat(head.e, v.sym.e), v.sym.elem)
    items = v.items if isinstance(v, PList) else list(v)
    elem = like.elem if like is not None else None
    if elem is None:
        if items and isinstance(items[0], tuple):
            elem = "pair"
        elif items and kind_of_strlike(items[0]):
            elem = "str" if kind_of_strlike(items[0]) == "str" else "bstr"
        else:
            raise Unsupported(f"cannot infer element sort of {v!r}")
    if elem == "pair":
        if not items:
            return SymSeq(z3.Empty(PairSeq), "pair")
        units = []
        for it in items:
            if not (isinstance(it, tuple) and len(it) == 2):
                raise Unsupported(f"non pair in header list: {it!r}")

            def comp(x):
                # an application supplied value stored in a header list: its bytes view (content
                # is unconstrained when it is not actually bytes)
                if isinstance(x, SymAny):
                    p = any_proj(ctx, x, "bytes")
                    if isinstance(p, SymBytes):
                        raise Unsupported("payload-kind Any in header list")
                    return p.e
                from .sym import SymOpt as _SymOpt

                if isinstance(x, _SymOpt):
                    # an Optional that the path has decided to be present (it was tested before
                    # being stored): its value
                    if ctx.check(x.is_none) == z3.unsat:
                        return str_to_z3(x.value)
                    raise Unsupported("possibly-None value in header list")
                return str_to_z3(x)

            units.append(z3.Unit(Pair.mk(comp(it[0]), comp(it[1]))))
        return SymSeq(units[0] if len(units) == 1 else z3.Concat(*units), "pair")
    if elem in ("str", "bstr"):
        from .sym import StrSeq

        if not items:
            return SymSeq(z3.Empty(StrSeq), elem)
        units = [z3.Unit(str_to_z3(it)) for it in items]
        return SymSeq(units[0] if len(units) == 1 else z3.Concat(*units), elem)
    raise Unsupported(f"to_seq elem {elem}")


def length(ctx: Ctx, v):
    if type(v).__name__ == "Bottom":
        return v
    if isinstance(v, (str, bytes, bytearray, tuple)):
        return len(v)
    if isinstance(v, SymStr):
        return mk_int(z3.Length(v.e))
    if isinstance(v, SymBytes):
        return mk_int(v.n)
    if isinstance(v, SymSeq):
        return mk_int(z3.Length(v.e))
    if isinstance(v, z3.SeqRef):
        return mk_int(z3.Length(v))
    if isinstance(v, PList):
        if v.sym is not None:
            return mk_int(z3.Length(v.sym.e))
        return len(v.items)
    if isinstance(v, PDict):
        return len(v.items)
    if isinstance(v, PSet):
        return len(v.items)
    if isinstance(v, SymMap):
        if v.size is None:
            raise Unsupported("len of SymMap without size")
        return mk_int(v.size)
    raise Unsupported(f"len of {v!r}")
