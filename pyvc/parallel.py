"""Parallel exploration: units are split into chunks of decision prefixes; a chunk that is not
finished after LIMIT paths hands its unexplored prefixes back to be re-queued (work stealing)."""
from __future__ import annotations

import concurrent.futures as cf
import multiprocessing
import os
import sys
import traceback
from typing import Dict, List

VERIF = os.path.dirname(os.path.dirname(os.path.abspath(__file__)))
LIMIT = 24


def _worker(job):
    qualname, work, split_after = job
    sys.path.insert(0, VERIF)
    from pyvc.source import ensure_repo_on_path

    ensure_repo_on_path()
    from pyvc.contracts import REG, load_contracts
    from pyvc.ctx import UnitResult
    from pyvc.verify import verify_unit

    if not REG.fns:
        load_contracts(os.path.join(VERIF, "contracts"))
    try:
        return verify_unit(qualname, work=work, split_after=split_after)
    except Exception as e:
        r = UnitResult(unit=qualname)
        r.errors.append(f"{qualname}: {e!r}\n{traceback.format_exc()}")
        return r


def run_units(units: List[str], jobs: int = 16) -> Dict[str, "UnitResult"]:
    results: Dict[str, object] = {}
    ctxmp = multiprocessing.get_context("fork")
    with cf.ProcessPoolExecutor(max_workers=max(1, jobs), mp_context=ctxmp) as ex:
        pending = {ex.submit(_worker, (u, None, 8)) for u in units}
        while pending:
            done, pending = cf.wait(pending, return_when=cf.FIRST_COMPLETED)
            for fut in done:
                r = fut.result()
                rest, r.pending = r.pending, []
                if r.unit in results:
                    results[r.unit].merge(r)
                else:
                    results[r.unit] = r
                if rest and len(r.errors) <= 3:
                    n = min(len(rest), max(2, jobs // 2))
                    for i in range(n):
                        pending.add(ex.submit(_worker, (r.unit, rest[i::n], LIMIT)))
    return {u: results[u] for u in units}
