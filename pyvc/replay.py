"""Replay of solver counter-models on the real code (DESIGN 2.7).

For a failed obligation the model assigns values to the named symbolic inputs of the unit.  We build
the real object / arguments from them, run the *real* function from $PYVC_REPO under CPython, mirror
the real pre/post state back into interpreter values and evaluate the violated clause concretely
with the same expression evaluator.  If the clause is violated natively the violation is
reproduced; otherwise the replay file still carries the obligation and the verifier output and the
VIOLATION line ends with `no-failing-input-found`.
"""
from __future__ import annotations

import asyncio
import json
import os
import re
import sys
import traceback
from typing import Any, Dict, Optional, Tuple


class CannotReplay(Exception):
    pass


def _safe(name: str) -> str:
    return re.sub(r"[^A-Za-z0-9_.-]+", "_", name)[:150]


def write_replay(prop: str, unit: str, ob, verif_root: str) -> Tuple[str, bool]:
    d = os.path.join(os.environ.get("PYVC_EVIDENCE_DIR") or os.path.join(verif_root, "evidence"), "replays", prop)
    os.makedirs(d, exist_ok=True)
    if isinstance(ob, dict):  # violation reported by a bounded stand-in: already a native input
        path = os.path.join(d, _safe(ob.get("obligation", "standin")) + ".json")
        json.dump({"property": prop, "unit": unit, **ob, "reproduced_natively": True}, open(path, "w"), indent=1, default=str)
        return os.path.relpath(path, verif_root), True
    rec: Dict[str, Any] = {
        "property": prop,
        "unit": unit,
        "obligation": ob.name,
        "clause": ob.clause,
        "where": ob.where,
        "path": list(ob.path),
        "note": ob.note,
        "solver": {"backend": ob.backend, "status": ob.status, "ms": ob.ms, "model": ob.model},
        "smt2": ob.smt2,
    }
    reproduced = False
    try:
        out = native_replay(unit, ob)
        rec["native"] = out
        reproduced = bool(out.get("clause_violated"))
    except CannotReplay as e:
        rec["native"] = {"skipped": str(e)}
    except Exception as e:
        rec["native"] = {"error": repr(e), "trace": traceback.format_exc()}
    if not reproduced:
        try:
            from .falsify import falsify

            out = falsify(unit, ob)
            rec["falsifier"] = out
            reproduced = bool(out.get("clause_violated"))
        except CannotReplay as e:
            rec["falsifier"] = {"skipped": str(e)}
        except Exception as e:
            rec["falsifier"] = {"error": repr(e), "trace": traceback.format_exc()}
    if not reproduced:
        try:
            from .falsify import falsify_typed

            out = falsify_typed(unit, prop)
            rec["typed_falsifier"] = out
            reproduced = bool(out.get("clause_violated"))
        except CannotReplay as e:
            rec["typed_falsifier"] = {"skipped": str(e)}
        except Exception as e:
            rec["typed_falsifier"] = {"error": repr(e), "trace": traceback.format_exc()}
    rec["reproduced_natively"] = reproduced
    path = os.path.join(d, _safe(ob.name) + ".json")
    json.dump(rec, open(path, "w"), indent=1, default=str)
    return os.path.relpath(path, verif_root), reproduced


# ------------------------------------------------------------------------------------------------
def native_replay(unit: str, ob, model: Optional[Dict[str, Any]] = None, check_pre: bool = False) -> Dict[str, Any]:
    from .contracts import REG
    from .ctx import Ctx
    from .source import class_of, find_def
    from .verify import Interp

    model = dict(model if model is not None else (ob.model or {}))
    fc = REG.fns[unit]
    if fc.effect != "atomic":
        # only functions declared atomic (no suspension, no callbacks into the runtime) are run
        # natively: anything else would start tasks, servers or real I/O from inside the checker
        raise CannotReplay("unit is not declared atomic: not run natively")
    mi, node = find_def(unit)
    local = unit.split(":")[1]
    names = [p.arg for p in node.args.posonlyargs + node.args.args] + [p.arg for p in node.args.kwonlyargs]
    B = Builder(model)
    real_args: Dict[str, Any] = {}
    is_method = "." in local and names and names[0] == "self"
    for p in names:
        if p == "self" and is_method:
            real_args[p] = B.build(f"obj {unit.rsplit('.', 1)[0]}", "self")
        elif p in fc.params:
            real_args[p] = B.build(fc.params[p], p)
        else:
            raise CannotReplay(f"parameter {p} has no declared type")
    # mirror pre-state
    ctx = Ctx([], unit)
    interp = Interp(ctx, REG)
    interp.unit_module = mi
    pre_env = {p: B.reflect(v, interp) for p, v in real_args.items()}
    if check_pre:
        # random inputs (encoder cross-check): only states that satisfy the unit's preconditions
        # and -- for a method -- the class invariant are meaningful starting points
        pre_clauses = [(cl, pre_env) for cl in fc.requires]
        cc0 = interp.reg.classes.get(unit.rsplit(".", 1)[0]) if is_method else None
        if cc0 is not None and not local.endswith(".__init__"):
            pre_clauses += [(cl, {"self": pre_env["self"]}) for cl in list(cc0.inv) + list(getattr(cc0, "published_inv", []) or [])]
        for cl, env_ in pre_clauses:
            try:
                ok = interp.spec_eval(cl, dict(env_), None, mi)
            except Exception as e:
                raise CannotReplay(f"precondition not evaluable concretely: {e!r}")
            from .sym import SymBool as _SB
            import z3 as _z3

            if isinstance(ok, _SB):
                sv = _z3.simplify(ok.e)
                ok = True if _z3.is_true(sv) else (False if _z3.is_false(sv) else None)
            if ok is not True:
                return {"skipped": "precondition / invariant does not hold on this input", "clause_violated": False}
    # run the real function
    fn = mi.module
    for part in local.split("."):
        fn = getattr(fn, part)
    if isinstance(fn, property):
        fn = fn.fget
    outcome: Dict[str, Any] = {}
    result = None
    exc = None

    async def run_coro():
        return await asyncio.wait_for(fn(**real_args), 2.0)

    try:
        if asyncio.iscoroutinefunction(fn):
            result = asyncio.run(run_coro())
        else:
            result = fn(**real_args)
        outcome["outcome"] = "returned"
    except asyncio.TimeoutError:
        outcome["outcome"] = "blocked (no return within 2 s)"
        return {**outcome, "inputs": B.describe(), "clause_violated": False}
    except Exception as e:  # the real function raised
        exc = e
        outcome["outcome"] = f"raised {type(e).__name__}: {e}"
    post_env = {p: B.reflect(v, interp) for p, v in real_args.items()}
    post_env["result"] = B.reflect_value(result, interp)
    outcome["inputs"] = B.describe()
    outcome["result"] = repr(result)[:200]
    # which clause?
    clause = None
    for cl in fc.ensures + [c for cs in fc.raises_clauses.values() for c in cs]:
        if ob.name.endswith("." + cl.name):
            clause = cl
    short_unit = local
    if ob.name == f"{short_unit}.no-unexpected-exception":
        violated = exc is not None and not any(_exc_matches(exc, d, interp) for d in fc.raises)
        return {**outcome, "clause_violated": violated}
    if clause is None:
        cc = interp.reg.classes.get(unit.rsplit(".", 1)[0]) if is_method else None
        if cc is not None:
            for cl in cc.inv:
                if ob.name.endswith("." + cl.name):
                    clause = cl
                    post_env = {"self": post_env["self"]}
    if clause is None:
        raise CannotReplay(f"obligation {ob.name} has no clause that can be evaluated natively")
    if exc is not None and clause in fc.ensures:
        return {**outcome, "clause_violated": False, "note": "function raised; postcondition not applicable"}
    try:
        v = interp.spec_eval(clause, post_env, pre_env, mi)
    except Exception as e:
        raise CannotReplay(f"clause not evaluable concretely: {e!r}")
    if not isinstance(v, bool):
        from .sym import SymBool
        import z3

        if isinstance(v, SymBool):
            s = z3.simplify(v.e)
            if z3.is_true(s) or z3.is_false(s):
                v = z3.is_true(s)
            else:
                raise CannotReplay(f"clause value not concrete: {v!r}")
        else:
            v = bool(v)
    return {**outcome, "clause_value_on_real_post_state": v, "clause_violated": (v is False)}


def _exc_matches(exc, declared, interp):
    try:
        return isinstance(exc, interp.exc_class(declared))
    except Exception:
        return False


class Builder:
    """builds real python values from a model, and mirrors real values back"""

    def __init__(self, model: Dict[str, Any]):
        self.model = model
        self.desc: Dict[str, Any] = {}
        self.types: Dict[int, str] = {}

    def describe(self):
        return self.desc

    def get(self, name, default):
        v = self.model.get(name, default)
        return v

    def build(self, ty: str, name: str):
        from .contracts import REG
        from .rules import TYPE_ALIASES, _split_top
        from .source import class_of

        ty = TYPE_ALIASES.get(ty.strip(), ty.strip())
        if "|" in ty:
            alts = [a.strip() for a in _split_top(ty, "|")]
            if len(alts) > 1:
                k = int(self.get(f"{name}.alt", 0)) % len(alts)
                return self.build(alts[k], name)
        if ty == "opaque":
            return object()
        if ty in ("obj asyncio:Event", "obj trio:Event"):
            import asyncio as _a

            import trio as _t

            ev = _a.Event() if "asyncio" in ty else _t.Event()
            if bool(self.get(f"{name}.flag", False)):
                ev.set()
            return ev
        if ty in ("int", "nat"):
            v = int(self.get(name, 0))
            self.desc[name] = v
            return v
        if ty == "bool":
            v = bool(self.get(name, False))
            self.desc[name] = v
            return v
        if ty == "bytes":
            n = int(self.get(f"len({name})", 0))
            v = bytearray((b"abcdefghijklmnopqrstuvwxyz" * (n // 26 + 1))[:n])
            self.desc[f"len({name})"] = n
            return v
        if ty in ("str", "bstr"):
            s = self.get(name, "")
            s = _unescape(s)
            self.desc[name] = s
            return s if ty == "str" else s.encode("latin-1")
        if ty == "evclass":
            from hypercorn.asyncio.worker_context import EventWrapper

            return EventWrapper
        if ty.startswith("const "):
            return eval(ty[6:], {"__builtins__": {}}, {})
        if ty.startswith("opt "):
            if self.get(f"{name}.isnone", True):
                self.desc[name] = None
                return None
            return self.build(ty[4:], name)
        if ty.startswith("enum "):
            cls = class_of(ty[5:])
            v = list(cls)[int(self.get(name, 0))]
            self.desc[name] = str(v)
            return v
        if ty == "obj hypercorn.typing:Event":
            from hypercorn.asyncio.worker_context import EventWrapper

            ev = EventWrapper()
            flag = bool(self.get(f"{name}.flag", False))
            if flag:
                ev._event.set()
            self.desc[f"{name}.flag"] = flag
            self.types[id(ev)] = "Event"
            return ev
        if ty.startswith("obj "):
            qual = ty[4:].strip()
            cc = REG.classes.get(qual)
            if cc is None:
                raise CannotReplay(f"no class contract for {qual}")
            try:
                cls = class_of(qual)
            except Exception:
                raise CannotReplay(f"{qual} is not a real class")
            obj = object.__new__(cls)
            for f, t in cc.fields.items():
                if cc.callbacks and f in cc.callbacks:
                    raise CannotReplay("callback fields")
                if isinstance(getattr(cls, f, None), property):
                    continue  # a read-only property of the class, not a stored field
                object.__setattr__(obj, f, self.build(t, f"{name}.{f}"))
            self.types[id(obj)] = ty
            return obj
        raise CannotReplay(f"type {ty} not replayable")

    def reflect(self, v, interp):
        return self.reflect_value(v, interp)

    def reflect_value(self, v, interp):
        from .contracts import REG
        from .source import class_of
        from .sym import SObj

        if v is None or isinstance(v, (bool, int, str, float)):
            return v
        if isinstance(v, (bytes, bytearray)):
            return bytes(v)
        if isinstance(v, tuple):
            return tuple(self.reflect_value(x, interp) for x in v)
        if isinstance(v, list):
            from .sym import PList

            return PList([self.reflect_value(x, interp) for x in v])
        if isinstance(v, dict):
            from .sym import PDict

            return PDict({k: self.reflect_value(x, interp) for k, x in v.items()})
        if type(v).__module__.split(".")[0] in ("asyncio", "trio") and type(v).__name__ == "Event":
            return SObj(("asyncio:Event" if type(v).__module__.startswith("asyncio") else "trio:Event"), {"flag": v.is_set()})
        if type(v).__name__ == "EventWrapper":
            return SObj(class_of("hypercorn.typing:Event"), {"flag": v.is_set(), "g_sticky": False})
        import enum

        if isinstance(v, enum.Enum):
            return v
        qual = f"{type(v).__module__}:{type(v).__qualname__}"
        cc = REG.classes.get(qual)
        if cc is not None:
            o = SObj(type(v), {})
            for f in cc.fields:
                if hasattr(v, f):
                    o.fields[f] = self.reflect_value(getattr(v, f), interp)
            return o
        if type(v).__module__ in ("_io", "io") or v is sys.stdout:
            return v  # file-like objects of a result: kept as they are (clauses do not look inside)
        raise CannotReplay(f"cannot mirror {type(v)}")


def _unescape(s):
    if not isinstance(s, str):
        return s
    return re.sub(r"\\u\{([0-9a-fA-F]+)\}", lambda m: chr(int(m.group(1), 16)), s)


def replay_file(path: str) -> int:
    """bin/check Cxx --replay <file>: re-run a recorded counter-model on the current tree"""
    here = os.path.dirname(os.path.dirname(os.path.abspath(__file__)))
    sys.path.insert(0, here)
    from .contracts import load_contracts
    from .source import ensure_repo_on_path

    ensure_repo_on_path()
    load_contracts(os.path.join(here, "contracts"))
    rec = json.load(open(path))

    class Ob:
        pass

    ob = Ob()
    ob.name = rec["obligation"]
    ob.model = rec["solver"]["model"]
    try:
        out = native_replay(rec["unit"], ob)
    except CannotReplay as e:
        print("cannot replay natively:", e)
        return 2
    print(json.dumps(out, indent=1, default=str))
    return 1 if out.get("clause_violated") else 0
