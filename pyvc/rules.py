"""Proof rules: loops (invariants), with, contracts at call sites, callbacks, the yield rule,
symbolic value construction from the contract type language, spec-mode evaluation."""
from __future__ import annotations

import ast
import re
from typing import Any, Dict, List, Optional

import z3

from . import ops
from .calls import BoundMethodResultKeys, Coro, GenValue, MapKeyList, MapValues
from .contracts import Callback, ClassContract, Clause, FnContract
from .ctx import ContractError, PathEnd, Unsupported
from .interp import BreakSig, ContinueSig, Frame, MaybeUnbound, ReturnSig, assigned_names, mutated_names
from .ops import PyRaise, mk_exc
from .source import class_of, fields_assigned_outside_init, find_def, method_def
from .sym import (
    ANY_TAGS,
    UNSET,
    BoundMethod,
    Closure,
    Opaque,
    Pair,
    PairSeq,
    PDict,
    PList,
    PSet,
    SObj,
    Str,
    StrSeq,
    Sym,
    SymAny,
    SymBool,
    SymBytes,
    SymEnum,
    SymInt,
    SymMap,
    SymMaybe,
    SymMsg,
    SymOpaque,
    SymOpt,
    SymReal,
    SymSeq,
    SymStr,
    is_sym,
    mk_bool,
    mk_int,
    z3_of_int,
)

TYPE_ALIASES = {
    "Event": "obj hypercorn.typing:Event",
}


import os as _os_dbg

TRACE_SPEC_FUNCTIONS = {
    "emitted", "n_emitted", "nogap", "count_cls", "last_is", "exists_cls", "forall_emitted", "yielded", "trace_any", "trace_all",
    "after_gap", "n_after_gap", "suffix_after", "call_result", "net_written", "net_ops", "call_index", "call_args", "call_time", "clock", "clock0", "count_calls", "call_raised",
}


def clause_mentions_traces(cl) -> bool:
    r = getattr(cl, "_mentions_traces", None)
    if r is None:
        r = any(isinstance(n, ast.Call) and isinstance(n.func, ast.Name) and n.func.id in TRACE_SPEC_FUNCTIONS for n in ast.walk(cl.node))
        try:
            cl._mentions_traces = r
        except Exception:
            pass
    return r


def _split_top(s: str, sep: str) -> List[str]:
    out, depth, cur = [], 0, ""
    for ch in s:
        if ch in "({[":
            depth += 1
        elif ch in ")}]":
            depth -= 1
        if ch == sep and depth == 0:
            out.append(cur)
            cur = ""
        else:
            cur += ch
    out.append(cur)
    return [x.strip() for x in out]


class RulesMixin:
    # ============================================================== symbolic construction
    def make_symbolic(self, ty: str, name: str, assume_inv: bool = True):
        ctx = self.ctx
        ty = ty.strip()
        ty = TYPE_ALIASES.get(ty, ty)
        if ty.startswith("map "):
            return self.make_map(ty[4:].strip(), name)
        alts = _split_top(ty, "|")
        if len(alts) > 1:
            k = ctx.choose(len(alts), f"type({name})", alts)
            return self.make_symbolic(alts[k], name, assume_inv)
        if ty == "int" or ty == "nat":
            nm = ctx.fresh_name(name)
            e = z3.Int(nm)
            ctx.inputs[nm] = e
            if ty == "nat":
                ctx.assume(e >= 0)
            return SymInt(e)
        if ty == "bool":
            nm = ctx.fresh_name(name)
            e = z3.Bool(nm)
            ctx.inputs[nm] = e
            return SymBool(e)
        if ty == "real":
            return SymReal(ctx.fresh(name, z3.RealSort()))
        if ty == "bytes":
            return ops.fresh_payload(ctx, name)
        if ty == "text":
            from .models_ws import fresh_text

            return fresh_text(ctx, name)
        if ty in ("str", "bstr"):
            nm = ctx.fresh_name(name)
            e = z3.String(nm)
            ctx.inputs[nm] = e
            return SymStr(e, "str" if ty == "str" else "bytes")
        if ty == "opaque":
            return SymOpaque(ctx.fresh(name, Opaque), name)
        if ty == "none":
            return None
        if ty == "fullconfig":
            return self.make_full_config(name)
        if ty == "evclass":
            from .calls import EVENT_CLASS

            return EVENT_CLASS
        if ty == "unset":
            return UNSET
        if ty in ("any", "anyhdr"):
            return self.fresh_any(name, "payload" if ty == "any" else "short")
        if ty.startswith("msg"):
            nm = ctx.fresh_name(name)
            m = SymMsg(nm)
            kinds = re.match(r"msg\((.*)\)", ty)
            if kinds:
                for kv in _split_top(kinds.group(1), ";"):
                    k, v = kv.split(":")
                    m.kinds[k.strip()] = v.strip()
            t = z3.String(nm + ".type")
            ctx.inputs[nm + ".type"] = t
            m.keys["type"] = (True, SymStr(t, "str"))
            return m
        if ty == "hdrs":
            nm = ctx.fresh_name(name)
            e = z3.Const(nm, PairSeq)
            ctx.inputs[nm] = e
            return PList(sym=SymSeq(e, "pair"))
        if ty.startswith("objs "):
            # a list of any length of objects of one modelled class
            return SObj("pyvc:ObjList", {"elem_ty": "obj " + ty[5:].strip()}, tag=name)
        if ty in ("strs", "bstrs"):
            nm = ctx.fresh_name(name)
            e = z3.Const(nm, StrSeq)
            ctx.inputs[nm] = e
            return PList(sym=SymSeq(e, "str" if ty == "strs" else "bstr"))
        if ty.startswith("const "):
            return eval(ty[6:], {"__builtins__": {}}, {})
        if ty.startswith("sentinel "):
            # a module level singleton of a library (h11.NEED_DATA ...)
            import importlib

            modname, attr = ty[9:].strip().rsplit(".", 1)
            return getattr(importlib.import_module(modname), attr)
        if ty.startswith("callable"):
            # callable{record:NAME;raises:Exc1,Exc2;returns:TYPE;yields:1}
            opts = {}
            m = re.match(r"callable\{(.*)\}$", ty)
            if m:
                for kv in _split_top(m.group(1), ";"):
                    if kv:
                        k, v = kv.split(":", 1)
                        opts[k.strip()] = v.strip()
            raises = [self.exc_class(x.strip()) for x in opts.get("raises", "").split(",") if x.strip()]
            return SObj("pyvc:Callable", {"record": opts.get("record"), "raises": raises, "returns": opts.get("returns"),
                                          "yields": opts.get("yields", "1") not in ("0", "false", ""), "coro": opts.get("coro", "") not in ("", "0", "false")}, tag=name)
        if ty.startswith("opt "):
            nm = ctx.fresh_name(name + ".isnone")
            isn = z3.Bool(nm)
            ctx.inputs[nm] = isn
            inner = self.make_symbolic(ty[4:], name, assume_inv)
            return SymOpt(isn, inner)
        if ty.startswith("maybe "):
            nm = ctx.fresh_name(name + ".present")
            pr = z3.Bool(nm)
            ctx.inputs[nm] = pr
            return SymMaybe(pr, self.make_symbolic(ty[6:], name, assume_inv))
        if ty.startswith("enum "):
            cls = class_of(ty[5:])
            nm = ctx.fresh_name(name)
            e = z3.Int(nm)
            ctx.inputs[nm] = e
            ctx.assume(z3.And(e >= 0, e < len(list(cls))))
            return SymEnum(cls, e)
        if ty.startswith("obj "):
            return self.make_object(ty[4:].strip(), name, assume_inv)
        if ty.startswith("map "):
            return self.make_map(ty[4:].strip(), name)
        if ty.startswith("dict{"):
            d = PDict()
            for kv in _split_top(ty[5:-1], ";"):
                if not kv:
                    continue
                k, v = kv.split(":", 1)
                d.items[k.strip()] = self.make_symbolic(v.strip(), f"{name}.{k.strip()}", assume_inv)
            return d
        if ty.startswith("tuple("):
            return tuple(
                self.make_symbolic(t, f"{name}.{i}", assume_inv) for i, t in enumerate(_split_top(ty[6:-1], ";"))
            )
        if ty.startswith("list("):
            return PList([self.make_symbolic(t, f"{name}.{i}", assume_inv) for i, t in enumerate(_split_top(ty[5:-1], ";")) if t])
        raise ContractError(f"unknown type {ty!r} for {name}")

    def make_full_config(self, name):
        """a Config instance with every setting symbolic (sort chosen from the class default)"""
        from hypercorn.config import Config

        obj = SObj(Config, {}, tag=name)
        for k, v in vars(Config).items():
            if k.startswith("__") or callable(v) or isinstance(v, (property, classmethod, staticmethod)):
                continue
            if isinstance(v, bool):
                t = "bool"
            elif isinstance(v, int):
                t = "int"
            elif isinstance(v, str):
                t = "str"
            elif isinstance(v, float):
                t = "real"
            elif isinstance(v, list) and k in ("_bind", "_insecure_bind", "_quic_bind", "server_names", "alt_svc_headers", "alpn_protocols"):
                t = "strs"
            else:
                t = "opaque"
            obj.fields[k] = self.make_symbolic(t, f"{name}.{k}")
        for k in getattr(Config, "__annotations__", {}):
            if k not in obj.fields and not k.startswith("__"):
                obj.fields[k] = self.make_symbolic("opaque", f"{name}.{k}")
        return obj

    def make_map(self, spec: str, name: str) -> SymMap:
        ctx = self.ctx
        nm = ctx.fresh_name(name)
        has = z3.Array(nm + ".has", z3.IntSort(), z3.BoolSort())
        size = z3.Int(nm + ".size")
        ctx.assume(size >= 0)
        elem_ty = spec

        def mk(interp, m, key):
            v = interp.make_symbolic(elem_ty, f"{m.name}[{key}]")
            if isinstance(v, SObj):
                cc = interp.class_contract(v)
                if cc is not None:
                    # objects found in a container have been published: their published
                    # invariant holds (it is proved whenever this unit stores / changes one)
                    for cl in cc.published_inv:
                        interp.assume_clause(cl, {"self": v}, None, None, f"published {cl.name}")
            return v

        return SymMap(nm, has, mk, size=size)

    def resolve_class(self, qual: str):
        from . import models

        m = models.MODEL_CLASSES.get(qual)
        if m is not None:
            return qual  # model classes are identified by their name
        if ":" in qual:
            try:
                return class_of(qual)
            except Exception:
                return qual
        return qual

    def make_object(self, qual: str, name: str, assume_inv=True) -> SObj:
        from . import models

        cls = self.resolve_class(qual)
        model = models.MODEL_CLASSES.get(qual)
        if model is not None and hasattr(model, "symbolic"):
            obj = model.symbolic(self, name)
            self.register_shared(obj)
            return obj
        cc = self.reg.classes.get(qual)
        if cc is None:
            raise ContractError(f"no class contract / model for {qual} (needed for {name})")
        obj = SObj(cls, {}, tag=name)
        for f, t in cc.fields.items():
            obj.fields[f] = self.make_symbolic(t, f"{name}.{f}", assume_inv)
        for f, t in cc.ghost.items():
            obj.fields[f] = self.make_symbolic(t, f"{name}.{f}", assume_inv)
        self.register_shared(obj)
        if assume_inv:
            self.assume_inv(obj, cc)
            self.assume_published_fields(obj)
        return obj

    def materialise(self, owner: SObj, attr: str):
        """decide a lazily havoced union-typed field now; the new object satisfies its class
        invariant and, being held in a field, its published invariant"""
        from .sym import LazyUnion

        v = owner.fields[attr]
        if not isinstance(v, LazyUnion):
            return v
        if v.cell is not None:
            # another holder of the same placeholder (the live object or a snapshot of it) has
            # decided it already: same object, its state as it was when the field was havoced
            val = self.snap(v.cell, {})
            owner.fields[attr] = val
            return val
        val = self.make_symbolic(v.ty, v.name)
        inner = val.value if isinstance(val, SymOpt) else val
        if isinstance(inner, SObj):
            icc = self.class_contract(inner)
            if icc is not None:
                for cl in icc.published_inv:
                    self.assume_clause(cl, {"self": inner}, None, None, f"published {cl.name}")
        v.cell = self.snap(val, {})
        owner.fields[attr] = val
        return val

    def assume_published_fields(self, obj: SObj):
        """objects held in fields of another object have been published: their published
        invariant holds"""
        for f, v in obj.fields.items():
            inner = v.value if isinstance(v, SymOpt) else v
            if inner is getattr(self, "unpublished", None) and inner is not None:
                continue
            if isinstance(inner, SObj):
                icc = self.class_contract(inner)
                if icc is not None:
                    for cl in icc.published_inv:
                        self.assume_clause(cl, {"self": inner}, None, None, f"published {cl.name}")

    def register_shared(self, obj: SObj):
        lst = getattr(self, "shared", None)
        if lst is None:
            lst = self.shared = []
        lst.append(obj)

    def class_contract(self, obj: SObj) -> Optional[ClassContract]:
        if isinstance(obj.cls, type):
            for k in obj.cls.__mro__:
                cc = self.reg.classes.get(f"{k.__module__}:{k.__qualname__}")
                if cc is not None:
                    return cc
            return None
        return self.reg.classes.get(str(obj.cls))

    def assume_clause(self, cl, env, old_env=None, module=None, why=""):
        prev = getattr(self, "qmode", "prove")
        self.qmode = "assume"
        try:
            v = self.spec_eval(cl, env, old_env, module)
        finally:
            self.qmode = prev
        self.ctx.assume(self.as_z3_bool(v), why or cl.name)

    def assume_inv(self, obj: SObj, cc: ClassContract):
        for cl in cc.inv:
            self.assume_clause(cl, {"self": obj}, None, None, f"inv {cl.name}")

    def spec_eval_p(self, cl, env, old_env=None, module=None):
        """evaluate a clause that is about to be *proved*: a clause that is undefined on the state
        (missing attribute / key) evaluates to False with the reason noted on the obligation"""
        prev = getattr(self, "proving_clause", False)
        self.proving_clause = True
        try:
            return self.spec_eval(cl, env, old_env, module)
        finally:
            self.proving_clause = prev

    def as_z3_bool(self, v):
        t = ops.truth(self.ctx, v)
        return z3.BoolVal(t) if isinstance(t, bool) else t

    # ============================================================== spec evaluation
    def spec_eval(self, cl: Clause, env: Dict[str, Any], old_env: Optional[Dict[str, Any]], module=None):
        if module is None:
            slf = env.get("self")
            if isinstance(slf, SObj) and isinstance(slf.cls, type) and slf.cls.__module__.startswith("hypercorn"):
                from .source import module_info

                module = module_info(slf.cls.__module__)
        fr = Frame(f"spec:{cl.name}", module, spec=True)
        fr.locals.update(env)
        if old_env is not None:
            fr.old = old_env
        b0 = getattr(self, "bottoms", 0)
        proving = getattr(self, "qmode", "prove") == "prove" and getattr(self, "proving_clause", False)
        try:
            v = self.ev(cl.node, fr)
        except PyRaise as pr:
            if proving and isinstance(pr.exc.cls, type) and issubclass(pr.exc.cls, (AttributeError, KeyError, IndexError, TypeError)):
                # the clause is not even defined on this state (e.g. the code no longer sets the
                # attribute it speaks about): it is certainly not established
                self.ctx.pending_note = f"clause undefined on this state: {pr}"
                return False
            raise ContractError(f"clause {cl.name} ({cl.text}) raised {pr}")
        if getattr(self, "bottoms", 0) != b0 and getattr(self, "qmode", "prove") == "prove":
            if proving:
                self.bottoms = b0
                self.ctx.pending_note = f"clause undefined on this state: partial operation {getattr(self, 'bottom_where', '')}"
                return False
            raise ContractError(f"clause {cl.name}: partial operation {getattr(self, 'bottom_where', '')} is not guarded (the clause would hold vacuously)")
        return v

    def spec_function(self, f):
        return None

    def snapshot_env(self, env: Dict[str, Any]) -> Dict[str, Any]:
        memo: Dict[int, Any] = {}
        return {k: self.snap(v, memo) for k, v in env.items()}

    def snap(self, v, memo):
        if isinstance(v, SObj):
            if id(v) in memo:
                return memo[id(v)]
            c = SObj(v.cls, {}, tag=v.tag)
            c.oid = v.oid  # the snapshot stands for the same object (identity comparisons)
            memo[id(v)] = c
            for k, x in v.fields.items():
                c.fields[k] = self.snap(x, memo)
            return c
        if isinstance(v, PList):
            if id(v) in memo:
                return memo[id(v)]
            c = PList([self.snap(x, memo) for x in v.items], sym=v.sym)
            memo[id(v)] = c
            return c
        if isinstance(v, PDict):
            if id(v) in memo:
                return memo[id(v)]
            c = PDict()
            c.oid = v.oid  # the snapshot stands for the same dict (identity comparisons)
            memo[id(v)] = c
            for k, x in v.items.items():
                c.items[k] = self.snap(x, memo)
            c.sym_entries = list(v.sym_entries)
            c.base = v.base
            return c
        if isinstance(v, SymMap):
            if id(v) in memo:
                return memo[id(v)]
            c = SymMap(v.name, v.has, v.mk, size=v.size)
            c.cache = [(k, self.snap(x, memo)) for k, x in v.cache]
            memo[id(v)] = c
            return c
        if isinstance(v, SymOpt):
            return SymOpt(v.is_none, self.snap(v.value, memo))
        if isinstance(v, SymMaybe):
            return SymMaybe(v.present, self.snap(v.value, memo))
        if isinstance(v, tuple):
            return tuple(self.snap(x, memo) for x in v)
        return v

    # ============================================================== contracts at call sites
    def param_names(self, fc: FnContract) -> List[str]:
        try:
            mi, node = find_def(fc.qualname)
            a = node.args
            return [p.arg for p in a.posonlyargs + a.args] + [p.arg for p in a.kwonlyargs]
        except Exception:
            local = fc.qualname.split(":")[1]
            names = list(fc.params.keys())
            if "." in local and "self" not in names:
                names = ["self"] + names
            return names

    def bind_contract_args(self, fc: FnContract, args, kwargs, fr) -> Dict[str, Any]:
        names = self.param_names(fc)
        env: Dict[str, Any] = {}
        vararg = None
        try:
            _mi, _node = find_def(fc.qualname)
            if _node.args.vararg is not None:
                vararg = _node.args.vararg.arg
                npos = len(_node.args.posonlyargs + _node.args.args)
                names = names[:npos]
        except Exception:
            pass
        for i, a in enumerate(args):
            if i >= len(names):
                if vararg is not None:
                    env[vararg] = tuple(args[len(names):])
                    break
                raise mk_exc(TypeError, f"{fc.qualname}: too many arguments", where=fr.where())
            env[names[i]] = a
        if vararg is not None and vararg not in env:
            env[vararg] = ()
        for k, v in kwargs.items():
            if k not in names:
                raise mk_exc(TypeError, f"{fc.qualname}: unexpected keyword {k}", where=fr.where())
            env[k] = v
        # defaults from the real definition
        try:
            mi, node = find_def(fc.qualname)
            a = node.args
            pos = a.posonlyargs + a.args
            for p, d in zip(pos[len(pos) - len(a.defaults):], a.defaults):
                if p.arg not in env:
                    env[p.arg] = self.ev(d, Frame(fc.qualname, mi))
            for p, d in zip(a.kwonlyargs, a.kw_defaults):
                if p.arg not in env and d is not None:
                    env[p.arg] = self.ev(d, Frame(fc.qualname, mi))
        except KeyError:
            pass
        for n in names:
            if n not in env:
                if not fc.qualname.startswith("hypercorn") and n in fc.model_opts.get("defaults", {}):
                    env[n] = fc.model_opts["defaults"][n]  # port / interface contract: declared default
                    continue
                raise mk_exc(TypeError, f"{fc.qualname}: missing argument {n}", where=fr.where())
        return env

    def exc_class(self, name: str):
        import builtins

        if ":" in name:
            return class_of(name)
        if hasattr(builtins, name):
            return getattr(builtins, name)
        um = getattr(self, "unit_module", None)
        if um is not None and hasattr(um.module, name):
            return getattr(um.module, name)
        from . import models

        if name in models.EXC_ALIASES:
            return models.EXC_ALIASES[name]
        import importlib

        for modname in ("hypercorn.utils", "hypercorn.protocol.h11", "hypercorn.protocol.events"):
            try:
                m = importlib.import_module(modname)
            except Exception:
                continue
            if hasattr(m, name):
                return getattr(m, name)
        raise ContractError(f"unknown exception class {name}")

    def apply_contract(self, fc: FnContract, args, kwargs, fr):
        ctx = self.ctx
        env = self.bind_contract_args(fc, args, kwargs, fr)
        unit = getattr(self, "unit_name", "?")
        cmod = None
        try:
            from .source import module_info

            cmod = module_info(fc.qualname.split(":")[0])
        except Exception:
            # interface / port contract that is not a function of the repository: its clauses are
            # read in the name space of the calling unit's module
            cmod = getattr(self, "unit_module", None)
        for cl in fc.requires:
            v = self.spec_eval_p(cl, env, None, cmod)
            # a precondition at a call site is the caller's obligation: it counts for whichever
            # property the calling unit is checked under
            ctx.prove(f"{unit}.call.{cl.name}", self.as_z3_bool(v), cl.text, fr.where(), note=f"precondition of {fc.qualname}", props=())
        old_env = self.snapshot_env(env)
        # every call made through a contract is recorded (contracts can speak about call order)
        self.traces.setdefault("calls", []).append((fc.qualname.split(":")[1],) + tuple(args))
        self.traces.setdefault("call_kwargs", []).append((fc.qualname.split(":")[1], dict(kwargs or {})))
        # 'event_clears': for every clear of an event, whether this call had waited on that very
        # event before (a call that clears an event it was not woken from takes the wake-up away
        # from whoever is parked on it)
        if fc.qualname.endswith(":Event.wait") and args:
            self.traces.setdefault("waited_on", []).append(args[0])
        if fc.qualname.endswith(":Event.clear") and args:
            self.traces.setdefault("event_clears", []).append((args[0], any(x is args[0] for x in self.traces.get("waited_on", []))))
        if getattr(self, "clock", None) is not None:
            self.traces.setdefault("call_times", []).append((fc.qualname.split(":")[1], self.clock))
        self.unit_call_requires(fc.qualname.split(":")[1], fr)
        # exceptional alternatives
        alts = ["normal"]
        for exc_name, when in fc.raises.items():
            alts.append(exc_name)
        k = ctx.choose(len(alts), f"outcome({fc.qualname.split(':')[1]})@{fr.line}", alts)
        cover_name = f"{unit}.call.{fc.qualname.split(':')[1]}@{fr.line}.continues"
        ctx.covers.setdefault(cover_name, False)
        suspends = fc.effect == "yields" or (fc.effect is None and not fc.assume_only and self.contract_suspends(fc))
        if suspends:
            # the callee may suspend at once: what this task did since its last suspension is
            # visible to the others now (its own segment ends here; the callee answers for its
            # own segments), and while the callee is suspended the others run
            self.suspend_for_call(fr, f"call {fc.qualname.split(':')[1]}", callee_obj=env.get("self") if isinstance(env.get("self"), SObj) else None)
        self.havoc_modifies(fc, env, fr)
        if fc.modifies is None and not fc.assume_only:
            # no frame declared: what the callee may write is inferred from its source (frames.py);
            # where that is not possible anything reachable may have been written
            self.havoc_inferred_frame(fc, env, fr)
        if k > 0:
            exc_name = alts[k]
            when = fc.raises[exc_name]
            if when:
                cl = Clause(f"{fc.qualname}.raises.{exc_name}.when", when, (), ast.parse(when, mode="eval").body)
                ctx.assume_checked(self.as_z3_bool(self.spec_eval(cl, old_env, None, cmod)), "raises-when")
            for cl in fc.raises_clauses.get(exc_name, []):
                if cl.text == when:
                    continue
                ctx.assume(self.as_z3_bool(self.spec_eval(cl, env, old_env, cmod)))
            if ctx.check() == z3.unsat:
                raise PathEnd("exceptional outcome infeasible")
            self.run_ghost(fc.ghost_on_raise.get(exc_name, []), env, fr)
            ecls = self.exc_class(exc_name)
            eobj = SObj(ecls, {"args": ()})
            ecc = self.reg.classes.get(f"{ecls.__module__}:{ecls.__qualname__}")
            if ecc is not None:
                # a repo exception that carries data (protocol switch): arbitrary payload
                for f_, t_ in ecc.fields.items():
                    eobj.fields[f_] = self.make_symbolic(t_, f"{ecls.__name__}.{f_}")
            if suspends and self.unit_self is not None:
                self.segment_start = self.snapshot_env({"self": self.unit_self})
            # contracts of the caller can speak about what a contract call raised: call_raised(name)
            self.traces.setdefault("raised", []).append((fc.qualname.split(":")[1], eobj))
            raise PyRaise(eobj, f"{fc.qualname} (contract) called at {fr.where()}")
        result = None
        if fc.returns:
            result = self.make_symbolic(fc.returns, ctx.fresh_name("ret_" + fc.qualname.split(":")[1]))
        env2 = dict(env)
        env2["result"] = result
        if fc.returns_expr:
            cl = Clause("returns_expr", fc.returns_expr, (), ast.parse(fc.returns_expr, mode="eval").body)
            result = self.spec_eval(cl, env2, old_env, cmod)
            env2["result"] = result
        # the callee re-establishes the invariant of its own object
        slf = env.get("self")
        if _os_dbg.environ.get("PYVC_DEBUG_ENSURES") and ctx.check_full() == z3.unsat:
            print(f"   [infeasible before the invariant of the callee object is assumed: {fc.qualname} at {fr.where()}]", flush=True)
        if isinstance(slf, SObj):
            cc = self.class_contract(slf)
            if cc is not None:
                if _os_dbg.environ.get("PYVC_DEBUG_ENSURES"):
                    for cl_ in cc.inv:
                        self.assume_clause(cl_, {"self": slf}, None, None, f"inv {cl_.name}")
                        if ctx.check_full() == z3.unsat:
                            print(f"   [invariant {cl_.name} makes the path infeasible after {fc.qualname} at {fr.where()}]", flush=True)
                            break
                self.assume_inv(slf, cc)
        for cl in fc.ensures + fc.assumed_ensures:
            if "local(" in cl.text:
                continue  # speaks about the callee's locals: only meaningful inside its own unit
            if clause_mentions_traces(cl):
                # speaks about what the callee itself emitted / called: the caller's traces are not
                # the callee's, so nothing can be assumed from it here (the caller sees the call
                # itself in its 'calls' trace)
                continue
            self.assume_clause(cl, env2, old_env, cmod, f"ensures {cl.name}")
            if _os_dbg.environ.get("PYVC_DEBUG_ENSURES") and ctx.check_full() == z3.unsat:
                print(f"   [ensures {cl.name} of {fc.qualname} makes the path infeasible at {fr.where()}]", flush=True)
                raise PathEnd("callee postcondition unsatisfiable on this path (debug)")
        for cl in fc.assumed_ensures:
            self.ctx.assumptions_used.add(f"assumed (not proved) postcondition of {fc.qualname}: {cl.text}")
        if ctx.check() == z3.unsat:
            raise PathEnd("callee postcondition unsatisfiable on this path")
        ctx.covers[cover_name] = True
        self.run_ghost(fc.ghost_post, env2, fr, module=cmod)
        self.traces.setdefault("results", []).append((fc.qualname.split(":")[1], self.snap(result, {})))
        if suspends and self.unit_self is not None:
            self.segment_start = self.snapshot_env({"self": self.unit_self})
        return result

    def contract_suspends(self, fc) -> bool:
        """an `async def` of the repository with an await / async with / async for in its body"""
        try:
            _mi, node = find_def(fc.qualname)
        except Exception:
            return False
        if not isinstance(node, ast.AsyncFunctionDef):
            return False
        return any(isinstance(n, (ast.Await, ast.AsyncWith, ast.AsyncFor)) for n in ast.walk(node))

    def unit_call_requires(self, name, fr):
        """obligations the unit under verification attaches to every call of `name`
        (model_opts['call_requires']); evaluated over the unit's local variables"""
        ufc = self.reg.fns.get(getattr(self, "unit_qual", ""))
        reqs = (ufc.model_opts.get("call_requires") or {}).get(name) if ufc is not None else None
        if not reqs:
            return
        from .contracts import mk_clauses

        unit = getattr(self, "unit_name", "?")
        env = {}
        f = fr
        while f is not None:
            for k, v in f.locals.items():
                env.setdefault(k, v)
            f = f.parent
        for cl in mk_clauses(f"{name}.pre", reqs, ufc.props):
            v = self.spec_eval_p(cl, env, None, getattr(self, "unit_module", None))
            self.ctx.prove(f"{unit}.call.{cl.name}", self.as_z3_bool(v), cl.text, fr.where(), note=f"obligation attached to every call of {name}", props=cl.props)

    def havoc_modifies(self, fc: FnContract, env, fr):
        for target in fc.modifies or []:
            node = ast.parse(target, mode="eval").body
            if not isinstance(node, ast.Attribute):
                raise ContractError(f"modifies target {target!r} must be an attribute")
            f2 = Frame("spec:modifies", None, spec=True)
            f2.locals.update(env)
            owner = self.ev(node.value, f2)
            if isinstance(owner, SymOpt):
                owner = owner.value
            if not isinstance(owner, SObj):
                raise ContractError(f"modifies target {target!r}: owner is {owner!r}")
            self.havoc_field(owner, node.attr)

    def field_type(self, owner: SObj, attr: str) -> Optional[str]:
        cc = self.class_contract(owner)
        if cc is not None:
            if attr in cc.fields:
                return cc.fields[attr]
            if attr in cc.ghost:
                return cc.ghost[attr]
        from . import models

        model = self.model_for(owner.cls)
        if model is not None and hasattr(model, "FIELDS") and attr in model.FIELDS:
            return model.FIELDS[attr]
        return None

    def havoc_field(self, owner: SObj, attr: str):
        t = self.field_type(owner, attr)
        if t is not None and len(_split_top(t[4:] if t.startswith("opt ") else t, "|")) > 1 and not t.startswith("map "):
            from .sym import LazyUnion

            owner.fields[attr] = LazyUnion(t, f"{owner.tag or 'o'}.{attr}'")
            return
        if t is not None:
            owner.fields[attr] = self.make_symbolic(t, f"{owner.tag or 'o'}.{attr}'")
        else:
            owner.fields[attr] = self.havoc_like(owner.fields.get(attr), f"{owner.tag or 'o'}.{attr}'")

    def havoc_like(self, v, name):
        ctx = self.ctx
        if isinstance(v, (bool, SymBool)):
            return self.make_symbolic("bool", name)
        if isinstance(v, (int, SymInt)):
            return self.make_symbolic("int", name)
        if isinstance(v, SymBytes):
            return self.make_symbolic("bytes", name)
        if isinstance(v, (str,)) or (isinstance(v, SymStr) and v.kind == "str"):
            return self.make_symbolic("str", name)
        if isinstance(v, (bytes,)) or (isinstance(v, SymStr) and v.kind == "bytes"):
            return self.make_symbolic("bstr", name)
        if isinstance(v, SymEnum):
            return self.make_symbolic(f"enum {v.cls.__module__}:{v.cls.__qualname__}", name)
        if isinstance(v, SymOpaque):
            return self.make_symbolic("opaque", name)
        if isinstance(v, SymReal) or isinstance(v, float):
            return self.make_symbolic("real", name)
        if isinstance(v, tuple):
            return tuple(self.havoc_like(x, f"{name}.{i}") for i, x in enumerate(v))
        if isinstance(v, PList):
            sq = v.sym
            if sq is None and v.items and isinstance(v.items[0], tuple):
                return self.make_symbolic("hdrs", name)
            if sq is None and not v.items:
                raise Unsupported(f"cannot havoc empty list {name} (declare its type in the loop spec)")
            if sq is None and v.items and all(isinstance(x, (str, SymStr)) for x in v.items):
                return self.make_symbolic("strs", name)
            if sq is not None:
                return PList(sym=SymSeq(ctx.fresh(name, sq.e.sort()), sq.elem))
        if isinstance(v, SymAny):
            return self.fresh_any(name, v.bytes_kind)
        if isinstance(v, PDict):
            from .sym import kind_of_strlike as _ks

            # text entries may have been overwritten through computed keys; entries of other kinds
            # cannot (obligation dict-store.misses.* at every such store)
            d = PDict({k: (self.havoc_like(x, f"{name}.{k}") if (_ks(x) or isinstance(x, (int, SymInt)) and not isinstance(x, bool) and False) else x) for k, x in v.items.items()})
            if True:
                # unknown further text entries under keys other than the concrete ones (earlier
                # iterations of the loop may have stored under keys computed at run time)
                from .sym import Str as _Str

                d.base = (z3.Function(ctx.fresh_name(f"{name}.has"), _Str, z3.BoolSort()), z3.Function(ctx.fresh_name(f"{name}.val"), _Str, _Str))
            return d
        if isinstance(v, SymMsg):
            return self.make_symbolic("msg", name)
        if v is None:
            raise Unsupported(f"cannot havoc {name} (value None); declare its type in the loop spec")
        import enum as _enum

        if isinstance(v, _enum.Enum):
            return self.make_symbolic(f"enum {type(v).__module__}:{type(v).__qualname__}", name)
        raise Unsupported(f"cannot havoc {name} (value {v!r}); declare its type in the loop spec")

    def run_ghost(self, stmts: List[str], env, fr, module=None):
        if not stmts:
            return
        f2 = Frame("ghost", module)
        f2.locals.update(env)
        f2.allow_frozen = True
        us = self.unit_self

        def caller_count(name):
            if us is not None and name in us.fields:
                us.fields[name] = ops.binop(self.ctx, ast.Add(), us.fields[name], 1)

        def caller_set(name, value):
            if us is not None and name in us.fields:
                us.fields[name] = value

        def cat_(a, b):
            if isinstance(a, (bytes, bytearray)) and isinstance(b, (bytes, bytearray)):
                return bytes(a) + bytes(b)
            return ops.payload_cat(self.ctx, ops.as_payload(self.ctx, a), ops.as_payload(self.ctx, b))

        f2.locals["cat_"] = GhostFn(cat_)
        f2.locals["caller_count"] = GhostFn(caller_count)
        f2.locals["caller_set"] = GhostFn(caller_set)
        f2.locals["caller"] = us
        for s in stmts:
            tree = ast.parse(s)
            self.exec_block(tree.body, f2)

    # ============================================================== callbacks
    def call_callback(self, obj: SObj, cb: Callback, args, kwargs, fr):
        ctx = self.ctx
        unit = getattr(self, "unit_name", "?")
        self.callback_present(obj, cb, fr)
        env = {"self": obj}
        for i, a in enumerate(args):
            env[f"a{i}"] = a
        if args:
            env["e"] = args[0]
        from .contracts import mk_clauses

        gmod0 = None
        if isinstance(obj.cls, type) and obj.cls.__module__.startswith("hypercorn"):
            from .source import module_info as _mi

            gmod0 = _mi(obj.cls.__module__)
        for cl in mk_clauses(f"{cb.name}.pre", cb.requires):
            v = self.spec_eval_p(cl, env, None, gmod0)
            ctx.prove(f"{unit}.call.{cl.name}", self.as_z3_bool(v), cl.text, fr.where(), note=f"precondition of callback {cb.name}", props=cl.props)
        if cb.record:
            self.traces.setdefault(cb.record, []).append(args[0] if len(args) == 1 else tuple(args))
        gmod = None
        if isinstance(obj.cls, type) and obj.cls.__module__.startswith("hypercorn"):
            from .source import module_info

            gmod = module_info(obj.cls.__module__)
        self.run_ghost(cb.ghost, env, fr, module=gmod)
        if cb.raises:
            names = ["normal"] + [getattr(c, "__name__", str(c)) for c in cb.raises]
            k = ctx.choose(len(names), f"cb({cb.name})@{fr.line}", names)
            if k > 0:
                c = cb.raises[k - 1]
                if isinstance(c, str):
                    c = self.exc_class(c)
                if cb.effect == "yields":
                    self.yield_point(fr, f"callback {cb.name}")
                raise PyRaise(SObj(c, {"args": ()}), f"callback {cb.name} at {fr.where()}")
        if cb.effect == "yields":
            self.yield_point(fr, f"callback {cb.name}")
        if cb.returns:
            return self.make_symbolic(cb.returns, ctx.fresh_name(f"ret_{cb.name}"))
        return None

    # ============================================================== yield rule
    def mutable_fields(self, obj: SObj, cc: ClassContract) -> List[str]:
        cache = getattr(self, "_mutcache", None)
        if cache is None:
            cache = self._mutcache = {}
        key = cc.qualname
        if key not in cache:
            if cc.immutable is not None:
                immut = set(cc.immutable)
                mut = [f for f in list(cc.fields) + list(cc.ghost) if f not in immut]
            elif isinstance(obj.cls, type) and obj.cls.__module__.startswith("hypercorn") and not cc.interface:
                assigned = fields_assigned_outside_init(obj.cls)
                mut = []
                for f, t in cc.fields.items():
                    if f in assigned or t.startswith("map ") or t.startswith("maybe "):
                        mut.append(f)
                mut += list(cc.ghost)
            else:
                mut = [f for f, t in cc.fields.items() if not t.startswith("obj ") and t != "Event"] + list(cc.ghost)
            cache[key] = mut
        return cache[key]

    def yield_point(self, fr, why="", callee_obj=None):
        """another task may run here: prove the unit object's invariant and the guarantee of the
        segment that ends, then havoc every shared object under its invariant and rely.
        callee_obj: the suspension happens inside a method of that object which is being called
        through its contract -- its published invariant is that method's business (it is proved at
        the method's own suspension points) and is not demanded or assumed here."""
        ctx = self.ctx
        self.n_yields = getattr(self, "n_yields", 0) + 1
        self.time_passes(fr)
        us = self.unit_self
        unit = getattr(self, "unit_name", "?")
        if us is not None and not getattr(self, "in_init", False):
            cc = self.class_contract(us)
            if cc is not None:
                for cl in cc.inv:
                    v = self.spec_eval_p(cl, {"self": us}, None)
                    ctx.prove(f"{unit}.yield.{cl.name}", self.as_z3_bool(v), cl.text, fr.where(), note=f"invariant before yield ({why})", props=cl.props)
                # whoever holds this object may look at it now
                for cl in cc.published_inv:
                    v = self.spec_eval_p(cl, {"self": us}, None)
                    ctx.prove(f"{unit}.yield.{cl.name}", self.as_z3_bool(v), cl.text, fr.where(), note=f"published invariant of the unit's own object before yield ({why})", props=cl.props)
                self.check_guarantee(fr.where(), why)
                self.prove_published(fr.where(), skip=callee_obj)
        self.unpublished = callee_obj
        try:
            self.havoc_all(use_rely=True)
        finally:
            self.unpublished = None
        if us is not None:
            self.segment_start = self.snapshot_env({"self": us})

    def suspend_for_call(self, fr, why, callee_obj=None):
        """like yield_point, placed *before* the effects of a suspending callee are applied"""
        dbg = _os_dbg.environ.get("PYVC_DEBUG_ENSURES")
        if dbg and self.ctx.check_full() == z3.unsat:
            print(f"   [infeasible before suspend_for_call {why} at {fr.where()}]", flush=True)
        self.yield_point(fr, why, callee_obj=callee_obj)
        if dbg and self.ctx.check_full() == z3.unsat:
            print(f"   [infeasible after suspend_for_call {why} at {fr.where()}]", flush=True)

    def reachable_objects(self):
        seen = {}
        stack = []
        for fr in getattr(self, "frames", []):
            stack.extend(fr.locals.values())
        stack.extend(getattr(self, "roots", []))
        if self.unit_self is not None:
            stack.append(self.unit_self)
        while stack:
            v = stack.pop()
            if isinstance(v, MaybeUnbound):
                v = v.value
            if isinstance(v, SObj):
                if id(v) in seen:
                    continue
                seen[id(v)] = v
                stack.extend(v.fields.values())
            elif isinstance(v, (PList,)):
                if id(v) in seen:
                    continue
                seen[id(v)] = v
                stack.extend(v.items)
            elif isinstance(v, PDict):
                if id(v) in seen:
                    continue
                seen[id(v)] = v
                stack.extend(v.items.values())
            elif isinstance(v, SymMap):
                if id(v) in seen:
                    continue
                seen[id(v)] = v
                stack.extend(x for _, x in v.cache)
            elif isinstance(v, (SymOpt,)):
                stack.append(v.value)
            elif isinstance(v, SymMaybe):
                stack.append(v.value)
            elif isinstance(v, tuple):
                stack.extend(v)
            elif isinstance(v, BoundMethod):
                stack.append(v.obj)
            elif isinstance(v, Closure):
                if id(v) in seen:
                    continue
                seen[id(v)] = v
                f = v.frame
                while f is not None:
                    stack.extend(f.locals.values())
                    f = f.parent
        return seen

    def prove_published(self, where, skip=None):
        """every object held in a container field of the unit object satisfies its published
        invariant whenever other tasks can look"""
        us = self.unit_self
        unit = getattr(self, "unit_name", "?")
        if us is None:
            return
        for f, v in list(us.fields.items()):
            if type(v).__name__ == "LazyUnion":
                continue  # arbitrary object that satisfies its published invariant by assumption
            inner = v.value if isinstance(v, SymOpt) else v
            if inner is skip and skip is not None:
                continue
            if isinstance(inner, SObj) and inner is not us:
                icc = self.class_contract(inner)
                if icc is not None and icc.published_inv:
                    present = z3.Not(v.is_none) if isinstance(v, SymOpt) else z3.BoolVal(True)
                    for cl in icc.published_inv:
                        val = self.spec_eval_p(cl, {"self": inner}, None)
                        self.ctx.prove(f"{unit}.published.{cl.name}", z3.Implies(present, self.as_z3_bool(val)), cl.text, where, note=f"published invariant of self.{f}", props=cl.props)
            if isinstance(v, SymMap):
                for (k, el) in v.cache:
                    if el is skip and skip is not None:
                        continue
                    if isinstance(el, SObj):
                        cc = self.class_contract(el)
                        if cc is None:
                            continue
                        stored = z3.Select(v.has, k)
                        for cl in cc.published_inv:
                            val = self.spec_eval_p(cl, {"self": el}, None)
                            self.ctx.prove(f"{unit}.published.{cl.name}", z3.Implies(stored, self.as_z3_bool(val)), cl.text, where, note=f"published invariant of an element of self.{f}", props=cl.props)

    def time_passes(self, fr):
        """a suspension: the ghost clock advances; inside a trio timeout block the deadline may
        strike here (the body is cancelled at exactly the deadline)"""
        from . import models_rt as rt
        import trio

        if getattr(self, "clock", None) is None and not getattr(self, "deadlines", None):
            return
        t = rt.advance(self, "t")
        dl = [d for d in getattr(self, "deadlines", []) if d.fields.get("t_deadline") is not None]
        if dl and not getattr(self, "shielded", 0):
            inner = dl[-1]
            if self.ctx.choose(2, f"deadline@{fr.line}", ["in-time", "deadline"]) == 1:
                self.ctx.assume(t == inner.fields["t_deadline"])
                raise PyRaise(SObj(trio.Cancelled, {"args": (), "scope": inner}), fr.where())
            self.ctx.assume(t <= inner.fields["t_deadline"])

    def havoc_all(self, use_rely=True):
        self.havoc_with_rely = use_rely
        reach = self.reachable_objects()
        self.shared = [o for o in getattr(self, "shared", []) if id(o) in reach]
        objs = list(self.shared)
        # snapshot everything first (an object's rely may speak about objects it refers to),
        # then havoc, then assume invariants and relies
        snaps = []
        for obj in objs:
            snaps.append(self.snapshot_env({"self": obj}) if self.class_contract(obj) is not None else None)
        # models that condition their havoc on the state of the unit's object must look at its
        # state *before* this havoc (the order in which objects are havoced is arbitrary)
        self.pre_havoc_self = None
        if self.unit_self is not None:
            for obj, sn in zip(objs, snaps):
                if obj is self.unit_self and sn is not None:
                    self.pre_havoc_self = sn["self"]
            if self.pre_havoc_self is None:
                self.pre_havoc_self = self.snapshot_env({"self": self.unit_self})["self"]
        for obj in objs:
            self.havoc_object_fields(obj)
        self.pre_havoc_self = None
        for obj, old in zip(objs, snaps):
            self.assume_after_havoc(obj, old, use_rely)

    def own_task(self):
        fc = self.reg.fns.get(getattr(self, "unit_qual", ""))
        return getattr(fc, "task", None) if fc is not None else None

    def check_guarantee(self, where, why):
        """the atomic segment that ends here must satisfy the rely other tasks assume"""
        us = self.unit_self
        cc = self.class_contract(us)
        seg = getattr(self, "segment_start", None)
        if cc is None or seg is None:
            return
        unit = getattr(self, "unit_name", "?")
        mine = self.own_task()
        clauses = list(cc.rely)
        for task, cls_ in cc.task_rely.items():
            if task != mine:
                clauses.extend(cls_)
        ufc = self.reg.fns.get(getattr(self, "unit_qual", ""))
        ends = (ufc.model_opts.get("ends_sharing") or {}) if ufc is not None else {}
        for cl in clauses:
            if cl.name in ends and why == "exit":
                # the unit ends the period in which other tasks use the object (it has joined them):
                # nobody is left to rely on this clause after its last segment -- an assumption,
                # listed with its justification
                self.ctx.assumptions_used.add(f"{unit}: the rely clause {cl.name} is not demanded of the unit's last segment: {ends[cl.name]}")
                continue
            v = self.spec_eval_p(cl, {"self": us}, seg)
            self.ctx.prove(f"{unit}.guarantee.{cl.name}", self.as_z3_bool(v), cl.text, where, note=f"guarantee of the segment ending at ({why})", props=cl.props, assume_after=False)

    def havoc_object_fields(self, obj: SObj):
        model = self.model_for(obj.cls)
        if model is not None and hasattr(model, "havoc"):
            model.havoc(self, obj)
            return None
        cc = self.class_contract(obj)
        if cc is None:
            return None
        old = self.snapshot_env({"self": obj})
        stable = set()
        if obj is self.unit_self and (getattr(self, "havoc_with_rely", True) or getattr(self, "loop_keeps_stable", False)):
            # fields that only this unit's task writes (other tasks prove they leave them alone,
            # see the task_rely clause that goes with task_stable)
            stable = set(cc.task_stable.get(self.own_task(), []))
            if getattr(self, "loop_keeps_stable", False):
                lw = getattr(self, "loop_written", set())
                stable = set() if lw is None else stable - lw
        held = getattr(self, "held_locks", None) or []
        for lock_field, prot in cc.lock_protected.items():
            lk = obj.fields.get(lock_field)
            if lk is not None and any(lk is h for h in held):
                stable |= set(prot)
        for f in cc.write_once:
            v0 = obj.fields.get(f, UNSET)
            if isinstance(v0, SymMaybe):
                # may or may not be set yet: once set it stays set, with the same value
                p1 = z3.Bool(self.ctx.fresh_name(f"{obj.tag or 'obj'}.{f}.present'"))
                self.ctx.assume(z3.Implies(v0.present, p1))
                obj.fields[f] = SymMaybe(p1, v0.value)
                stable.add(f)
            elif v0 is not UNSET:
                stable.add(f)  # already set on this path
        for f in self.mutable_fields(obj, cc):
            if f in stable:
                continue
            if f in obj.fields and obj.fields[f] is UNSET and not cc.fields.get(f, "").startswith("maybe"):
                continue
            if f not in obj.fields and f not in cc.ghost and not cc.fields.get(f, "").startswith("maybe"):
                continue
            self.havoc_field(obj, f)
        return old

    def holds_lock(self, obj: SObj, lock_field: str) -> bool:
        lk = obj.fields.get(lock_field)
        return lk is not None and any(lk is h for h in (getattr(self, "held_locks", None) or []))

    def assume_monitor(self, obj: SObj, only_lock=None):
        cc = self.class_contract(obj)
        if cc is None:
            return
        for lk, cls_ in cc.monitor_inv.items():
            if only_lock is not None and obj.fields.get(lk) is not only_lock:
                continue
            if only_lock is None and self.holds_lock(obj, lk):
                continue
            for cl in cls_:
                self.assume_clause(cl, {"self": obj}, None, None, f"monitor invariant {cl.name}")

    def prove_monitor(self, obj: SObj, where, label, only_lock=None):
        cc = self.class_contract(obj)
        if cc is None:
            return
        unit = getattr(self, "unit_name", "?")
        for lk, cls_ in cc.monitor_inv.items():
            if only_lock is not None and obj.fields.get(lk) is not only_lock:
                continue
            if only_lock is None and self.holds_lock(obj, lk):
                continue
            for cl in cls_:
                v = self.spec_eval_p(cl, {"self": obj}, None)
                self.ctx.prove(f"{unit}.{label}.{cl.name}", self.as_z3_bool(v), cl.text, where, note=f"monitor invariant of self.{lk} ({label})", props=cl.props)

    def assume_after_havoc(self, obj: SObj, old, use_rely=True):
        cc = self.class_contract(obj)
        if cc is None or old is None:
            return
        self.assume_inv(obj, cc)
        self.assume_monitor(obj)
        self.assume_published_fields(obj)
        if use_rely:
            clauses = list(cc.rely)
            if obj is self.unit_self:
                clauses += cc.task_rely.get(self.own_task(), [])
            for cl in clauses:
                self.assume_clause(cl, {"self": obj}, old, None, f"rely {cl.name}")

    def havoc_inferred_frame(self, fc, env, fr):
        from .frames import may_write

        slf0 = env.get("self")
        local = fc.qualname.split(":")[1]
        info = None
        if local.endswith(".__init__"):
            return  # constructor by contract: the fields are unconstrained already, ghost state starts at its initial value
        if isinstance(slf0, SObj) and isinstance(slf0.cls, type) and "." in local:
            info = may_write(self.reg, slf0.cls, local.rsplit(".", 1)[1])
        if info is None or info.unknown:
            if isinstance(slf0, SObj) or any(isinstance(v_, SObj) and self.class_contract(v_) is not None for v_ in env.values()):
                self.ctx.assumptions_used.add(f"frame of {fc.qualname} not inferable ({getattr(info, 'why', 'not a method of a repository class')}): every reachable object havoced at its call sites")
                self.havoc_all(use_rely=False)
            return
        cc = self.class_contract(slf0)
        for f in sorted(info.fields):
            if cc is not None and f not in cc.fields and f not in cc.ghost and f not in slf0.fields:
                continue
            self.havoc_field(slf0, f)
        for f in sorted(info.deep - info.fields):
            self.deep_havoc(slf0.fields.get(f, UNSET))
        if cc is not None:
            # ghost state of the callee's object follows its real fields: unknown after the call
            # unless the callee's postcondition says otherwise
            for g in cc.ghost:
                self.havoc_field(slf0, g)
            self.assume_inv(slf0, cc)
            # the callee proves the published invariants of the objects it leaves in its fields
            self.assume_published_fields(slf0)

    def deep_havoc(self, v, depth=0):
        """the object(s) behind a field may have been mutated by a callee of the same task"""
        if isinstance(v, (SymOpt, SymMaybe)):
            v = v.value
        if isinstance(v, SObj):
            model = self.model_for(v.cls)
            if model is not None and hasattr(model, "havoc"):
                model.havoc(self, v)
                return
            cc = self.class_contract(v)
            if cc is not None:
                self.havoc_object_fields_all(v)
                for g in cc.ghost:
                    self.havoc_field(v, g)
                self.assume_inv(v, cc)
            return
        if isinstance(v, SymMap):
            self.havoc_map(v)
            return
        if isinstance(v, PList):
            for x in v.items:
                if depth < 2:
                    self.deep_havoc(x, depth + 1)

    def havoc_map(self, m: SymMap):
        """membership and every element of the map may have changed"""
        ctx = self.ctx
        m.has = z3.Array(ctx.fresh_name((m.name or "map") + ".has'"), z3.IntSort(), z3.BoolSort())
        m.cache = []
        if getattr(m, "size", None) is not None:
            n = ctx.fresh("size'", z3.IntSort())
            ctx.assume(n >= 0)
            m.size = n

    def havoc_object_fields_all(self, obj: SObj):
        """an atomic callee without a declared frame may have written any mutable field of its
        object; the invariant is re-established (assumed) afterwards by the caller of this"""
        cc = self.class_contract(obj)
        if cc is None:
            return
        for f in self.mutable_fields(obj, cc):
            if f in obj.fields and obj.fields[f] is UNSET and not cc.fields.get(f, "").startswith("maybe"):
                continue
            if f not in obj.fields and f not in cc.ghost and not cc.fields.get(f, "").startswith("maybe"):
                continue
            self.havoc_field(obj, f)

    def havoc_object(self, obj: SObj, use_rely=True):
        old = self.havoc_object_fields(obj)
        self.assume_after_havoc(obj, old, use_rely)

    # ============================================================== with
    def exec_with(self, s, fr, is_async, idx=0):
        if idx >= len(s.items):
            self.exec_block(s.body, fr)
            return
        item = s.items[idx]
        mgr = self.ev(item.context_expr, fr)
        enter, exit_ = ("__aenter__", "__aexit__") if is_async else ("__enter__", "__exit__")
        val = self.call_method(mgr, enter, [], {}, fr, True)
        if item.optional_vars is not None:
            self.assign(item.optional_vars, val, fr)
        try:
            self.exec_with(s, fr, is_async, idx + 1)
        except PyRaise as pr:
            sup = self.call_method(mgr, exit_, [pr.exc.cls, pr.exc, None], {}, fr, True)
            if sup is not None and ops.truth_branch(self.ctx, sup, "suppress"):
                return
            raise
        except (ReturnSig, BreakSig, ContinueSig):
            self.call_method(mgr, exit_, [None, None, None], {}, fr, True)
            raise
        else:
            self.call_method(mgr, exit_, [None, None, None], {}, fr, True)

    # ============================================================== loops
    def loop_spec(self, s, fr):
        fc = self.reg.fns.get(fr.fn_qual)
        if fc is None:
            return None
        idx = self.loop_ordinal(s, fr)
        return fc.loops.get(idx)

    def loop_ordinal(self, s, fr) -> int:
        try:
            mi, node = find_def(fr.fn_qual)
        except Exception:
            return -1
        k = 0
        for n in ast.walk(node):
            pass
        loops = [n for n in ast.walk(node) if isinstance(n, (ast.For, ast.While, ast.AsyncFor))]
        loops.sort(key=lambda n: (n.lineno, n.col_offset))
        for i, n in enumerate(loops):
            if n.lineno == s.lineno and n.col_offset == s.col_offset:
                return i
        return -1

    def body_heap_effect(self, body) -> bool:
        for st in body:
            for n in ast.walk(st):
                if isinstance(n, (ast.Await, ast.AsyncWith, ast.AsyncFor)):
                    return True
                if isinstance(n, (ast.Assign, ast.AugAssign, ast.AnnAssign, ast.Delete)):
                    ts = n.targets if isinstance(n, (ast.Assign, ast.Delete)) else [n.target]
                    for t in ts:
                        for m in ast.walk(t):
                            if isinstance(m, ast.Attribute) and isinstance(m.ctx, (ast.Store, ast.Del)):
                                return True
                            if isinstance(m, ast.Subscript) and isinstance(m.ctx, (ast.Store, ast.Del)):
                                b = m.value
                                while isinstance(b, ast.Subscript):
                                    b = b.value
                                if isinstance(b, ast.Attribute):
                                    return True
        return False

    def body_attr_effect(self, body):
        """if the loop body only *assigns attributes of self* (no await, no call through self, no
        other heap store) return the set of attribute names, else None (= havoc everything)"""
        attrs = set()
        for st in body:
            for n in ast.walk(st):
                if isinstance(n, (ast.Await, ast.AsyncWith, ast.AsyncFor, ast.With)):
                    return None
                if isinstance(n, ast.Call):
                    f = n.func
                    root = f
                    while isinstance(root, (ast.Attribute, ast.Subscript, ast.Call)):
                        root = root.value if not isinstance(root, ast.Call) else root.func
                    if isinstance(root, ast.Name) and root.id == "self":
                        return None
                if isinstance(n, (ast.Attribute, ast.Subscript)) and isinstance(n.ctx, (ast.Store, ast.Del)):
                    if isinstance(n, ast.Attribute) and isinstance(n.value, ast.Name) and n.value.id == "self":
                        attrs.add(n.attr)
                    elif isinstance(n, ast.Subscript):
                        b = n.value
                        while isinstance(b, ast.Subscript):
                            b = b.value
                        if isinstance(b, ast.Attribute):
                            return None
                    else:
                        return None
        return attrs

    def run_body(self, body, fr) -> str:
        try:
            self.exec_block(body, fr)
        except ContinueSig:
            return "continue"
        except BreakSig:
            return "break"
        return "normal"

    def exec_for(self, s, fr):
        it = self.ev(s.iter, fr)
        ctx = self.ctx
        if isinstance(it, GenValue):
            it = it.to_list(self)
        if isinstance(it, BoundMethodResultKeys):
            it = it.to_list(self)
        conc = None
        tail = None
        if isinstance(it, (tuple, list)):
            conc = list(it)
        elif isinstance(it, PSet):
            conc = list(it.items)
        elif isinstance(it, (set, frozenset)):
            conc = sorted(it, key=repr)
        elif isinstance(it, MapKeyList):
            conc, tail = [], SymSeq(it.ks, "int")
            fr.locals["_it"] = it
        elif isinstance(it, PList):
            conc = list(it.items)
            tail = it.sym
        elif isinstance(it, PDict):
            conc = list(it.items.keys())
        elif isinstance(it, SymSeq):
            conc, tail = [], it
        elif type(it).__name__ == "ReversedIter":
            conc, tail = [], it
        elif isinstance(it, SymAny):
            tag, val = ops.any_split(ctx, it, "iter", interesting=())
            # iterable or not: one alternative each (elements are arbitrary values either way)
            if ctx.choose(2, f"iterable:{it.name}", ["iterable", "TypeError"]) == 1:
                raise mk_exc(TypeError, "object is not iterable", where=fr.where())
            conc, tail = [], AnyIter(it)
        elif isinstance(it, SymOpt):
            if ctx.branch(it.is_none, "isNone"):
                raise mk_exc(TypeError, "'NoneType' object is not iterable", where=fr.where())
            fr2 = fr
            raise Unsupported("for over Optional")
        elif it is None:
            raise mk_exc(TypeError, "'NoneType' object is not iterable", where=fr.where())
        elif isinstance(it, MapValues):
            conc, tail = [], it
        elif isinstance(it, SObj):
            model = self.model_for(it.cls)
            if model is not None and hasattr(model, "iter_source"):
                conc, tail = [], model.iter_source(self, it, fr)
            else:
                raise Unsupported(f"for over {it!r}")
        else:
            raise Unsupported(f"for over {it!r} at {fr.where()}")
        broke = False
        for x in conc:
            self.assign(s.target, x, fr)
            r = self.run_body(s.body, fr)
            if r == "break":
                broke = True
                break
        if broke:
            return
        if tail is not None:
            if self.loop_rule(s, fr, tail):
                return
        self.exec_block(s.orelse, fr)

    def exec_while(self, s, fr):
        if self.loop_rule(s, fr, None):
            return
        self.exec_block(s.orelse, fr)

    def loop_rule(self, s, fr, tail) -> bool:
        """inductive-invariant rule.  Returns True iff the loop was left by `break`."""
        ctx = self.ctx
        unit = getattr(self, "unit_name", "?")
        spec = self.loop_spec(s, fr) or {}
        invs: List[Clause] = spec.get("invariant", [])
        local_types: Dict[str, str] = spec.get("locals", {})
        ordinal = self.loop_ordinal(s, fr)
        label = f"{fr.fn_qual.split(':')[1]}.loop{ordinal}"
        is_for = isinstance(s, ast.For)
        mod = assigned_names(s.body) | {n for n in mutated_names(s.body) if n in fr.locals} | set(spec.get("also_modifies", []))
        target_names = assigned_names([s.target]) if is_for else set()
        heap = self.body_heap_effect(s.body)
        only_attrs = self.body_attr_effect(s.body) if heap else None
        if only_attrs is not None and heap and isinstance(fr.locals.get("self"), SObj):
            heap = False
        else:
            only_attrs = None
        n_expr = self.tail_len(tail) if tail is not None else None

        def env_for(i):
            env = {k: v for k, v in fr.locals.items() if not isinstance(v, MaybeUnbound)}
            if "self" not in env and self.unit_self is not None:
                pass
            env["_i"] = i
            if tail is not None and isinstance(tail, SymSeq):
                env["_seq"] = PList(sym=tail)
                ctx.add_key(z3_of_int(i)) if False else None
            return env

        # 1. invariant holds on entry
        pre_env = self.snapshot_env(dict(fr.locals))
        for cl in invs:
            v = self.spec_eval_loop(cl, env_for(0), pre_env, fr, proving=True)
            ctx.prove(f"{unit}.{label}.entry.{cl.name}", self.as_z3_bool(v), cl.text, fr.where(), note="loop invariant on entry")
        from .contracts import mk_clauses as _mk0

        # entry_ensures: what holds when the loop is reached (may speak about the traces so far)
        for cl in _mk0(f"{label}.entry", spec.get("entry_ensures")):
            v = self.spec_eval_loop(cl, env_for(0), pre_env, fr, proving=True)
            ctx.prove(f"{unit}.{cl.name}", self.as_z3_bool(v), cl.text, fr.where(), note="where the loop is reached", props=cl.props)
        if heap and self.unit_self is not None and not getattr(self, "in_init", False):
            self.prove_unit_inv(fr, f"{label}.entry")
            self.check_guarantee(fr.where(), f"{label} entry")
        # 2. havoc what the loop may change
        for name in sorted(mod - target_names):
            if name in fr.nonlocals:
                raise Unsupported("loop assigns nonlocal")
            if name in local_types:
                val = self.make_symbolic(local_types[name], f"{name}@{label}")
                if name in fr.locals and not isinstance(fr.locals[name], MaybeUnbound):
                    fr.locals[name] = val
                else:
                    b = z3.Bool(ctx.fresh_name(f"bound({name})@{label}"))
                    fr.locals[name] = MaybeUnbound(b, val)
            elif name in fr.locals and fr.locals[name] is None:
                # None before the loop, assigned inside it, no declared type: unknown afterwards --
                # fine as long as every read is preceded by an assignment on the same path (a read
                # of the unknown value leaves the supported subset and is reported as such)
                fr.locals[name] = MaybeUnbound(z3.BoolVal(True), LazyUnknown(f"{label}: local '{name}' (None before the loop) is read after being assigned in an earlier iteration; give its type in loops[{ordinal}]['locals']"))
            elif name in fr.locals and not isinstance(fr.locals[name], MaybeUnbound):
                cur = fr.locals[name]
                new = self.havoc_like(cur, f"{name}@{label}")
                if isinstance(cur, PList) and isinstance(new, PList):
                    cur.items, cur.sym = new.items, new.sym  # same list object, unknown content
                elif isinstance(cur, PDict) and isinstance(new, PDict):
                    cur.items = new.items  # same dict object, unknown values
                    cur.sym_entries, cur.base = [], new.base
                else:
                    fr.locals[name] = new
            else:
                # unbound before the loop and no declared type: fine as long as every read is
                # preceded by an assignment on the same path (a read of it is reported then)
                b = z3.Bool(ctx.fresh_name(f"bound({name})@{label}"))
                fr.locals[name] = MaybeUnbound(b, LazyUnknown(f"{label}: local '{name}' is read after being assigned in an earlier iteration; give its type in loops[{ordinal}]['locals']"))
        for name in target_names:
            fr.locals.pop(name, None)
        if only_attrs:
            for a in sorted(only_attrs):
                self.havoc_field(fr.locals["self"], a)
        if heap:
            # fields only this task assigns keep their identity across iterations; that the body
            # does not assign them is checked at the back edge
            # ... unless the body (or a method of the object it calls) may assign them
            from .frames import block_may_write

            written = set()
            if self.unit_self is not None:
                bw = block_may_write(self.reg, self.unit_self.cls, s.body, label)
                written = set(bw.fields) if not bw.unknown else None
            self.loop_keeps_stable = True
            self.loop_written = written
            try:
                self.havoc_all(use_rely=False)
            finally:
                self.loop_keeps_stable = False
                self.loop_written = set()
            if getattr(self, "clock", None) is not None:
                # the iterations that already ran may have suspended: an unknown amount of time passed
                from . import models_rt as _rt

                _rt.advance(self, f"t@{label}")
            if self.unit_self is not None:
                self.segment_start = self.snapshot_env({"self": self.unit_self})
        if heap or any(isinstance(n_, ast.Call) for st_ in s.body for n_ in ast.walk(st_)) or (tail is not None and not isinstance(tail, SymSeq)):
            # earlier iterations may have emitted / called anything the body can: what was recorded
            # before the loop is followed by an unknown stretch
            tr = self.traces
            for k in list(tr):
                if k == "call_times" or k.endswith("_ever"):
                    # times of earlier calls stay known; "..._ever" traces are only asked whether
                    # something happened at all (trace_any), which an unknown stretch cannot undo
                    tr[k] = list(tr[k]) + [TraceGap(label)]
                    continue
                tr[k] = [TraceGap(label)]
        i = None
        if tail is not None:
            i = ctx.fresh(f"_i@{label}", z3.IntSort())
            ctx.assume(z3.And(i >= 0, i <= n_expr))
            ctx.add_key(i)  # quantified facts are instantiated at the position the loop is at
        prevq = getattr(self, "qmode", "prove")
        self.qmode = "assume"
        try:
            for cl in invs:
                v = self.spec_eval_loop(cl, env_for(mk_int(i) if i is not None else 0), pre_env, fr)
                ctx.assume(self.as_z3_bool(v), f"loop inv {cl.name}")
        finally:
            self.qmode = prevq
        # 3. one arbitrary iteration, or exit
        if tail is not None:
            k = ctx.choose(2, label, ["iter", "exit"])
            if k == 1:
                ctx.assume_checked(i == n_expr, "loop exit")
                if hasattr(tail, "on_exhausted"):
                    tail.on_exhausted(self, fr)
                from .contracts import mk_clauses as _mk2

                for cl in _mk2(f"{label}.exit-assume", spec.get("exit_assume")):
                    v = self.spec_eval_loop(cl, env_for(mk_int(i)), pre_env, fr)
                    ctx.assume(self.as_z3_bool(v), "trusted loop lemma")
                    ctx.assumptions_used.add(f"assumed (not proved) fact at the exit of {label}: {cl.text}")
                self.loop_exit_ensures(spec, label, env_for(mk_int(i)), pre_env, fr)
                if target_names:
                    # after the loop the target holds the last element (if any) -- unknown here
                    for name in target_names:
                        if name in local_types:
                            b = z3.Bool(ctx.fresh_name(f"bound({name})@{label}"))
                            fr.locals[name] = MaybeUnbound(b, self.make_symbolic(local_types[name], f"{name}@{label}"))
                return False
            ctx.assume_checked(i < n_expr, "loop iter")
            self.iter_start_locals = self.snapshot_env({k_: v_ for k_, v_ in fr.locals.items() if not isinstance(v_, MaybeUnbound)})
            self.assign(s.target, self.tail_elem(tail, i, fr), fr)
        else:
            c = self.ev(s.test, fr)
            if not ops.truth_branch(ctx, c, f"while@{s.lineno}"):
                self.loop_exit_ensures(spec, label, env_for(0), pre_env, fr)
                return False
        stable_before = {}
        if heap and self.unit_self is not None:
            cc_ = self.class_contract(self.unit_self)
            if cc_ is not None:
                from .frames import block_may_write as _bmw

                bw_ = _bmw(self.reg, self.unit_self.cls, s.body, label)
                for f_ in cc_.task_stable.get(self.own_task(), []):
                    if bw_.unknown or f_ in bw_.fields:
                        continue  # the loop havoc did not keep it
                    stable_before[f_] = self.unit_self.fields.get(f_, UNSET)
        r = self.run_body(s.body, fr)
        from .contracts import mk_clauses as _mk

        # iter_ensures: postcondition of one iteration however it ends (normally, continue, break)
        for cl in _mk(f"{label}.iter", spec.get("iter_ensures")):
            v = self.spec_eval_loop(cl, env_for(mk_int(i) if i is not None else 0), pre_env, fr, proving=True)
            ctx.prove(f"{unit}.{cl.name}", self.as_z3_bool(v), cl.text, fr.where(), note=f"postcondition of one loop iteration (left by {r})", props=cl.props)
        if r == "break":
            return True
        # per-iteration postcondition (speaks about what this iteration emitted / called)
        for cl in _mk(f"{label}.body", spec.get("body_ensures")):
            v = self.spec_eval_loop(cl, env_for(mk_int(i) if i is not None else 0), pre_env, fr, proving=True)
            ctx.prove(f"{unit}.{cl.name}", self.as_z3_bool(v), cl.text, fr.where(), note="postcondition of one loop iteration", props=cl.props)
        for f_, v_ in stable_before.items():
            same = self.unit_self.fields.get(f_, UNSET) is v_
            ctx.prove(f"{unit}.{label}.stable.{f_}", z3.BoolVal(same), f"self.{f_} is not reassigned by the loop body", fr.where(), note="task-stable field across a loop iteration")
        # back edge: invariant preserved
        nxt = mk_int(i + 1) if i is not None else 0
        for cl in invs:
            v = self.spec_eval_loop(cl, env_for(nxt), pre_env, fr, proving=True)
            ctx.prove(f"{unit}.{label}.preserve.{cl.name}", self.as_z3_bool(v), cl.text, fr.where(), note="loop invariant preserved")
        if heap and self.unit_self is not None and not getattr(self, "in_init", False):
            self.prove_unit_inv(fr, f"{label}.backedge")
            self.check_guarantee(fr.where(), f"{label} back edge")
        raise PathEnd("loop iteration done")

    def loop_exit_ensures(self, spec, label, env, pre_env, fr):
        """exit_ensures: proved where the loop ends normally (test false / iterator exhausted),
        from the invariant and the negated test"""
        from .contracts import mk_clauses as _mk3

        unit = getattr(self, "unit_name", "?")
        for cl in _mk3(f"{label}.exit", spec.get("exit_ensures")):
            v = self.spec_eval_loop(cl, env, pre_env, fr, proving=True)
            self.ctx.prove(f"{unit}.{cl.name}", self.as_z3_bool(v), cl.text, fr.where(), note="at the normal exit of the loop", props=cl.props)

    def spec_eval_loop(self, cl, env, pre_env, fr, proving=False):
        f2 = Frame(f"spec:{cl.name}", fr.module, spec=True)
        f2.locals.update(env)
        f2.old = pre_env
        f2.parent = None
        try:
            return self.ev(cl.node, f2)
        except PyRaise as pr:
            if isinstance(pr.exc.cls, type) and issubclass(pr.exc.cls, NameError):
                # the clause names a local variable the function no longer has (renamed, removed):
                # the contract does not apply to this code any more -- undecided, not a violation
                raise Unsupported(f"loop clause {cl.name} refers to a local variable that the function no longer has ({pr})")
            if isinstance(pr.exc.cls, type) and issubclass(pr.exc.cls, (AttributeError, KeyError, IndexError, TypeError)):
                # the invariant speaks about something the code no longer has (a local that is
                # gone, say): where it has to be proved it is not established; where it would
                # be assumed nothing is assumed
                if proving:
                    self.ctx.pending_note = f"invariant undefined on this state: {pr}"
                    return False
                return True
            raise ContractError(f"loop invariant {cl.name} ({cl.text}) raised {pr}")

    def prove_unit_inv(self, fr, label):
        us = self.unit_self
        cc = self.class_contract(us)
        unit = getattr(self, "unit_name", "?")
        if cc is None:
            return
        for cl in cc.inv:
            v = self.spec_eval_p(cl, {"self": us}, None)
            self.ctx.prove(f"{unit}.{label}.{cl.name}", self.as_z3_bool(v), cl.text, fr.where(), note=f"class invariant at {label}")

    def tail_len(self, tail):
        if isinstance(tail, SymSeq):
            return z3.Length(tail.e)
        if hasattr(tail, "length") and hasattr(tail, "lst"):
            return tail.length(self)
        if type(tail).__name__ == "ReversedIter":
            return tail.length()
        if hasattr(tail, "e") and hasattr(tail, "elem"):
            return z3.Length(tail.e)
        n = self.ctx.fresh("n_iter", z3.IntSort())
        self.ctx.assume(n >= 0)
        if isinstance(tail, (MapKeyList, MapValues)) and tail.m.size is not None:
            pass
        return n

    def tail_elem(self, tail, i, fr):
        if isinstance(tail, SymSeq):
            return self.seq_elem(tail, i)
        if isinstance(tail, MapKeyList):
            k = self.ctx.fresh("key", z3.IntSort())
            self.ctx.assume(z3.Select(tail.has0, k))
            return mk_int(k)
        if isinstance(tail, MapValues):
            k = self.ctx.fresh("key", z3.IntSort())
            self.ctx.assume(z3.Select(tail.m.has, k))
            return self.map_lookup(tail.m, mk_int(k))
        if isinstance(tail, AnyIter):
            return self.fresh_any(f"{tail.src.name}[i]", tail.src.bytes_kind)
        if hasattr(tail, "elem"):
            return tail.elem(self, i, fr)
        raise Unsupported(f"iteration element of {tail!r}")

    # ============================================================== comprehensions
    def comprehension(self, e, fr, kind):
        if kind == "gen":
            return GenValue(e, fr, self)
        if len(e.generators) != 1:
            raise Unsupported("nested comprehension")
        g = e.generators[0]
        it = self.ev(g.iter, fr)
        if isinstance(it, GenValue):
            it = it.to_list(self)
        f2 = Frame(fr.fn_qual, fr.module, parent=fr, spec=fr.spec)
        f2.line = fr.line
        conc = None
        if isinstance(it, (tuple, list)):
            conc = list(it)
        elif isinstance(it, PSet):
            conc = list(it.items)
        elif isinstance(it, PList) and it.sym is None:
            conc = list(it.items)
        elif isinstance(it, PDict):
            conc = list(it.items.keys())
        if conc is not None:
            out_l, out_d = [], PDict()
            for x in conc:
                self.assign(g.target, x, f2)
                ok = True
                for c in g.ifs:
                    if not ops.truth_branch(self.ctx, self.ev(c, f2), "compif"):
                        ok = False
                        break
                if not ok:
                    continue
                if kind == "dict":
                    k = self.ev(e.key, f2)
                    if is_sym(k):
                        raise Unsupported("symbolic key in dict comprehension")
                    out_d.items[k] = self.ev(e.value, f2)
                else:
                    out_l.append(self.ev(e.elt, f2))
            if kind == "dict":
                return out_d
            if kind == "set":
                return PSet(out_l)
            return PList(out_l)
        # symbolic source: evaluate the element expression on one arbitrary element (so that its
        # exceptions are explored) and return an uninterpreted sequence of the right sort
        if kind == "set" and not g.ifs and not isinstance(it, SymAny) and not fr.spec:
            # {f(x) for x in seq}: kept lazily; the only supported use is a membership test with a
            # literal, which is any(f(x) == literal for x in seq) -- the same term any() gives
            sig0 = self.closed_signature(e.elt, g, fr)
            if sig0 is not None:
                return LazySetComp(e, g, fr, ops.to_seq(self.ctx, it))
        if kind != "list":
            raise Unsupported("dict/set comprehension over symbolic iterable")
        ctx = self.ctx
        if isinstance(it, SymAny):
            if ctx.choose(2, f"iterable:{it.name}", ["iterable", "TypeError"]) == 1:
                raise mk_exc(TypeError, "object is not iterable", where=fr.where())
            src_len = ctx.fresh("n_iter", z3.IntSort())
            ctx.assume(src_len >= 0)
            elem_of = lambda: self.fresh_any(f"{it.name}[j]", it.bytes_kind)
        else:
            seq = ops.to_seq(ctx, it)
            src_len = z3.Length(seq.e)
            j = ctx.fresh("_j", z3.IntSort())
            elem_of = lambda: self.seq_elem(seq, j)
            ctx.assume(z3.And(j >= 0))
        if not fr.spec:
            k = ctx.choose(2, f"comp@{e.lineno}", ["nonempty", "empty"])
            if k == 1:
                ctx.assume_checked(src_len == 0, "empty comp")
                return PList([])
            ctx.assume_checked(src_len > 0, "nonempty comp")
            if not isinstance(it, SymAny):
                ctx.assume(j < src_len)
        # (inside a clause no case split is made: the element expression is evaluated on an
        # arbitrary element only to learn the element sort)
        self.assign(g.target, elem_of(), f2)
        for c in g.ifs:
            self.ev(c, f2)
        sample = self.ev(e.elt, f2)
        ctx.assumptions_used.add("list comprehension over a symbolic sequence: result content uninterpreted (length bound only)")
        sig = self.closed_signature(e.elt, g, fr) if not isinstance(it, SymAny) and not g.ifs else None

        def mk(sort):
            if sig is not None:
                # the element expression mentions only its own variable: the result is a function
                # of the source sequence (the same comprehension elsewhere yields the same term)
                return z3.Function(f"comp[{sig}]", seq.e.sort(), sort)(seq.e)
            return ctx.fresh("comp", sort)

        if isinstance(sample, tuple) and len(sample) == 2:
            r = SymSeq(mk(PairSeq), "pair")
        elif isinstance(sample, (SymStr, str, bytes)):
            from .sym import kind_of_strlike

            r = SymSeq(mk(StrSeq), "str" if kind_of_strlike(sample) == "str" else "bstr")
        else:
            raise Unsupported(f"comprehension element {sample!r}")
        if sig is not None and isinstance(sample, SymStr) and not isinstance(g.target, ast.Tuple):
            # pointwise definition, usable when the result is indexed directly
            from .sym import str_to_z3 as _s2z

            elem0 = seq.e[j]
            sv = _s2z(sample)
            ctx.seq_defs.append((r.e, lambda idx, _sv=sv, _e0=elem0, _src=seq.e: z3.substitute(_sv, (_e0, _src[idx]))))
        if g.ifs:
            ctx.assume(z3.Length(r.e) <= src_len)
        else:
            ctx.assume(z3.Length(r.e) == src_len)
        return PList(sym=r)

    def closed_signature(self, elt, g, fr):
        """canonical text of a comprehension / generator element expression whose only free
        variable is the (single-name) loop target, else None"""
        if isinstance(g.target, ast.Name):
            tgts = {g.target.id: "_x"}
        elif isinstance(g.target, ast.Tuple) and all(isinstance(x, ast.Name) for x in g.target.elts):
            tgts = {x.id: f"_x{i}" for i, x in enumerate(g.target.elts)}
        else:
            return None
        import builtins as _b

        for n in ast.walk(elt):
            if isinstance(n, ast.Name) and n.id not in tgts:
                if n.id in fr.locals or (fr.parent is not None and self._visible_local(n.id, fr)):
                    return None
                if not hasattr(_b, n.id):
                    return None

        class _R(ast.NodeTransformer):
            def visit_Name(self, n):
                return ast.copy_location(ast.Name(tgts[n.id], n.ctx), n) if n.id in tgts else n

        import copy as _c

        return ast.unparse(_R().visit(_c.deepcopy(elt)))

    def _visible_local(self, name, fr):
        f = fr
        while f is not None:
            if name in f.locals:
                return True
            f = f.parent
        return False

    def quantify_genexp(self, e, fr, is_any):
        """any()/all() over a generator expression"""
        if len(e.generators) != 1:
            raise Unsupported("nested genexp")
        g = e.generators[0]
        it = self.ev(g.iter, fr)
        ctx = self.ctx
        conc = None
        if isinstance(it, (tuple, list)):
            conc = list(it)
        elif isinstance(it, PList) and it.sym is None:
            conc = list(it.items)
        elif isinstance(it, PSet):
            conc = list(it.items)
        if conc is not None:
            f2 = Frame(fr.fn_qual, fr.module, parent=fr, spec=fr.spec)
            zs = []
            for x in conc:
                self.assign(g.target, x, f2)
                conds = [ops.truth(ctx, self.ev(c, f2)) for c in g.ifs]
                t = ops.truth(ctx, self.ev(e.elt, f2))
                tz = z3.BoolVal(t) if isinstance(t, bool) else t
                cz = [z3.BoolVal(c) if isinstance(c, bool) else c for c in conds]
                if is_any:
                    zs.append(z3.And(*cz, tz) if cz else tz)
                else:
                    zs.append(z3.Implies(z3.And(*cz), tz) if cz else tz)
            if not zs:
                return not is_any
            return mk_bool(z3.Or(*zs) if is_any else z3.And(*zs))
        # symbolic: uninterpreted result, pinned for the empty case; element expression evaluated
        # once on an arbitrary element so that its exceptions are explored
        if isinstance(it, SymOpt):
            if ctx.branch(it.is_none, "isNone"):
                raise mk_exc(TypeError, "'NoneType' object is not iterable", where=fr.where())
            it = it.value
        if isinstance(it, SObj):
            model_q = self.model_for(it.cls)
            if model_q is not None and hasattr(model_q, "quantify"):
                return model_q.quantify(self, it, e, g, fr, is_any)
            if model_q is not None and hasattr(model_q, "iter_source"):
                # any()/all() over a modelled collection of unknown length and content (events of
                # a library ...): nothing is known about the answer
                ctx.assumptions_used.add("any()/all() over a modelled event collection: result unconstrained")
                return SymBool(z3.Bool(ctx.fresh_name("any" if is_any else "all")))
        if isinstance(it, MapValues):
            n = it.m.size if it.m.size is not None else ctx.fresh("n", z3.IntSort())
            elem = None
        else:
            seq = ops.to_seq(ctx, it)
            n = z3.Length(seq.e)
            elem = seq
        if elem is not None and is_any:
            # any(<pred>(x) for x in seq): a function of the sequence (one predicate per call site
            # family; contracts refer to it through tokens_have_upgrade)
            sig = self.closed_signature(e.elt, g, fr) if not g.ifs else None
            anyf = z3.Function(f"any_over[{sig}]" if sig else "any_over", elem.e.sort(), z3.BoolSort())
            r = anyf(elem.e)
        else:
            r = z3.Bool(ctx.fresh_name("any" if is_any else "all"))
        ctx.assume(z3.Implies(n == 0, r == z3.BoolVal(not is_any)))
        ctx.assumptions_used.add("any()/all() over a symbolic collection: result uninterpreted except for the empty case")
        if elem is not None and not fr.spec and ctx.check(n > 0) != z3.unsat:
            k = ctx.choose(2, f"genexp@{e.lineno}", ["sample", "skip"])
            if k == 0:
                j = ctx.fresh("_j", z3.IntSort())
                ctx.assume(z3.And(j >= 0, j < n))
                f2 = Frame(fr.fn_qual, fr.module, parent=fr, spec=fr.spec)
                self.assign(g.target, self.seq_elem(elem, j), f2)
                for c in g.ifs:
                    self.ev(c, f2)
                self.ev(e.elt, f2)
        return SymBool(r) if not z3.is_true(r) and not z3.is_false(r) else z3.is_true(r)

    # ============================================================== models lookup
    def model_for(self, cls):
        from . import models

        if isinstance(cls, str):
            return models.MODEL_CLASSES.get(cls)
        return models.MODEL_BY_REAL.get(cls)


class LazySetComp:
    """{elt(x) for x in seq} over a symbolic sequence (see comprehension())"""

    def __init__(self, node, g, fr, seq):
        self.node, self.g, self.fr, self.seq = node, g, fr, seq

    def contains(self, interp, item):
        if is_sym(item) or not isinstance(item, (str, bytes, int)):
            raise Unsupported("membership of a symbolic value in a set comprehension")
        cmp_ = ast.Compare(left=self.node.elt, ops=[ast.Eq()], comparators=[ast.Constant(item)])
        ast.fix_missing_locations(cmp_)
        sig = interp.closed_signature(cmp_, self.g, self.fr)
        if sig is None:
            raise Unsupported("set comprehension element is not closed")
        ctx = interp.ctx
        anyf = z3.Function(f"any_over[{sig}]", self.seq.e.sort(), z3.BoolSort())
        r = anyf(self.seq.e)
        ctx.assume(z3.Implies(z3.Length(self.seq.e) == 0, z3.Not(r)))
        ctx.assumptions_used.add("membership in a set comprehension over a symbolic collection: any() of the element test, uninterpreted except for the empty case")
        return SymBool(r)


class LazyUnknown:
    def __init__(self, msg):
        self.msg = msg


class GhostFn:
    def __init__(self, fn):
        self.fn = fn


class TraceGap:
    def __init__(self, label):
        self.label = label

    def __repr__(self):
        return f"<gap {self.label}>"


class AnyIter:
    def __init__(self, src):
        self.src = src
