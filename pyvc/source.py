"""Mechanical extraction: real modules are imported (for constants, classes, exception hierarchy)
and their source files re-parsed on every run."""
from __future__ import annotations

import ast
import hashlib
import importlib
import inspect
import os
import sys
from typing import Any, Dict, List, Optional, Tuple


def repo_root() -> str:
    return os.environ.get("PYVC_REPO", "/repo")


class ModuleInfo:
    def __init__(self, name: str):
        self.name = name
        self.module = importlib.import_module(name)
        self.path = inspect.getsourcefile(self.module)
        root = os.path.realpath(repo_root())
        if not os.path.realpath(self.path).startswith(root):
            raise RuntimeError(f"module {name} resolved to {self.path}, not under {root}")
        with open(self.path, "rb") as f:
            raw = f.read()
        self.sha256 = hashlib.sha256(raw).hexdigest()
        self.tree = ast.parse(raw.decode())
        self.defs: Dict[str, ast.AST] = {}
        self.classes: Dict[str, ast.ClassDef] = {}
        self._index(self.tree.body, "")

    def _index(self, body, prefix):
        for node in body:
            if isinstance(node, (ast.FunctionDef, ast.AsyncFunctionDef)):
                # property setters share the name: keep getter under name, setter under name.setter
                key = prefix + node.name
                is_setter = any(
                    isinstance(d, ast.Attribute) and d.attr == "setter" for d in node.decorator_list
                )
                if is_setter:
                    key += ".setter"
                self.defs[key] = node
            elif isinstance(node, ast.ClassDef):
                self.classes[prefix + node.name] = node
                self._index(node.body, prefix + node.name + ".")
            elif isinstance(node, (ast.If, ast.Try)):
                self._index(node.body, prefix)


_MODULES: Dict[str, ModuleInfo] = {}


def module_info(name: str) -> ModuleInfo:
    if name not in _MODULES:
        _MODULES[name] = ModuleInfo(name)
    return _MODULES[name]


def ensure_repo_on_path() -> None:
    """make `import hypercorn` resolve to $PYVC_REPO/src (scratch copies for mutant self tests)"""
    root = repo_root()
    src = os.path.join(root, "src")
    if sys.path[0] != src:
        sys.path.insert(0, src)
    if "hypercorn" in sys.modules:
        f = getattr(sys.modules["hypercorn"], "__file__", "") or ""
        if not os.path.realpath(f).startswith(os.path.realpath(src)):
            for k in [k for k in sys.modules if k == "hypercorn" or k.startswith("hypercorn.")]:
                del sys.modules[k]


def find_def(qualname: str) -> Tuple[ModuleInfo, ast.AST]:
    """qualname = 'hypercorn.protocol.h2:StreamBuffer.pop'"""
    modname, local = qualname.split(":")
    if not modname.startswith("hypercorn"):
        raise KeyError(f"{qualname}: not a function of the repository (interface / model contract)")
    mi = module_info(modname)
    if local not in mi.defs:
        raise KeyError(f"{qualname}: no such function in {mi.path}")
    return mi, mi.defs[local]


def class_of(qualname: str):
    modname, local = qualname.split(":")
    if modname.startswith("hypercorn"):
        obj = module_info(modname).module
    else:
        obj = importlib.import_module(modname)
    for part in local.split("."):
        obj = getattr(obj, part)
    return obj


def qualname_of_class(cls) -> str:
    return f"{cls.__module__}:{cls.__qualname__}"


def method_def(cls, name: str) -> Optional[Tuple[ModuleInfo, ast.AST, type]]:
    """find the AST of method `name` along the MRO of a repo class"""
    for k in cls.__mro__:
        if not k.__module__.startswith("hypercorn"):
            continue
        mi = module_info(k.__module__)
        key = f"{k.__qualname__}.{name}"
        if key in mi.defs:
            return mi, mi.defs[key], k
    return None


def fields_assigned_outside_init(cls) -> Dict[str, List[str]]:
    """syntactic frame scan: for a repo class, which self.<field> are stored outside __init__
    (anywhere in the class), and which fields of it are stored from *other* modules"""
    mi = module_info(cls.__module__)
    cnode = mi.classes[cls.__qualname__]
    out: Dict[str, List[str]] = {}
    for fn_node in cnode.body:
        if not isinstance(fn_node, (ast.FunctionDef, ast.AsyncFunctionDef)):
            continue
        for n in ast.walk(fn_node):
            targets = []
            if isinstance(n, ast.Assign):
                targets = n.targets
            elif isinstance(n, (ast.AugAssign, ast.AnnAssign)):
                targets = [n.target]
            elif isinstance(n, ast.Delete):
                targets = n.targets
            flat = []
            for t in targets:
                if isinstance(t, (ast.Tuple, ast.List)):
                    flat.extend(t.elts)
                else:
                    flat.append(t)
            for t in flat:
                base = t
                while isinstance(base, ast.Subscript):
                    base = base.value
                if (
                    isinstance(base, ast.Attribute)
                    and isinstance(base.value, ast.Name)
                    and base.value.id == "self"
                ):
                    if fn_node.name != "__init__" or base is not t:
                        out.setdefault(base.attr, []).append(f"{fn_node.name}:{n.lineno}")
    return out


def lock_discipline_violations(cls, lock_field: str, fields: List[str], calls=("cancel", "create_task", "start", "start_soon")) -> List[str]:
    """syntactic check behind ClassContract.lock_protected: outside __init__, every store to
    self.<field> and every call of a task-control method happens inside `async with self.<lock>`"""
    mi = module_info(cls.__module__)
    cnode = mi.classes[cls.__qualname__]
    bad: List[str] = []

    def is_lock_with(n) -> bool:
        if not isinstance(n, (ast.AsyncWith, ast.With)):
            return False
        for it in n.items:
            e = it.context_expr
            if isinstance(e, ast.Attribute) and isinstance(e.value, ast.Name) and e.value.id == "self" and e.attr == lock_field:
                return True
        return False

    def visit(n, locked, fname):
        if is_lock_with(n):
            locked = True
        if not locked:
            tgts = []
            if isinstance(n, ast.Assign):
                tgts = n.targets
            elif isinstance(n, (ast.AugAssign, ast.AnnAssign)):
                tgts = [n.target]
            elif isinstance(n, ast.Delete):
                tgts = n.targets
            for t in tgts:
                for x in ast.walk(t):
                    if isinstance(x, ast.Attribute) and isinstance(x.value, ast.Name) and x.value.id == "self" and x.attr in fields:
                        bad.append(f"{fname}:{n.lineno} stores self.{x.attr} outside the lock")
            if isinstance(n, ast.Call) and isinstance(n.func, ast.Attribute) and n.func.attr in calls:
                bad.append(f"{fname}:{n.lineno} calls .{n.func.attr}() outside the lock")
            # reads count too: a decision taken on a protected field without the lock is stale
            # (another task may be in the middle of updating it)
            if isinstance(n, ast.Attribute) and isinstance(n.ctx, ast.Load) and isinstance(n.value, ast.Name) and n.value.id == "self" and n.attr in fields:
                bad.append(f"{fname}:{n.lineno} reads self.{n.attr} outside the lock")
        for c in ast.iter_child_nodes(n):
            visit(c, locked, fname)

    for fn_node in cnode.body:
        if isinstance(fn_node, (ast.FunctionDef, ast.AsyncFunctionDef)) and fn_node.name != "__init__":
            for st in fn_node.body:
                visit(st, False, fn_node.name)
    return bad


def write_once_violations(cls, fields: List[str]) -> List[str]:
    """syntactic check behind ClassContract.write_once: outside __init__ each field is stored at
    exactly one program point of the class, and that point is not inside a loop"""
    mi = module_info(cls.__module__)
    cnode = mi.classes[cls.__qualname__]
    sites: Dict[str, List[str]] = {f: [] for f in fields}

    def visit(n, in_loop, fname):
        tgts = []
        if isinstance(n, ast.Assign):
            tgts = n.targets
        elif isinstance(n, ast.AugAssign):
            tgts = [n.target]
        elif isinstance(n, ast.AnnAssign) and n.value is not None:
            tgts = [n.target]
        elif isinstance(n, ast.Delete):
            tgts = n.targets
        elif isinstance(n, (ast.With, ast.AsyncWith)):
            tgts = [it.optional_vars for it in n.items if it.optional_vars is not None]
        for t in tgts:
            for x in ast.walk(t):
                if isinstance(x, ast.Attribute) and isinstance(x.value, ast.Name) and x.value.id == "self" and x.attr in sites:
                    sites[x.attr].append(f"{fname}:{n.lineno}" + (" (in a loop)" if in_loop else ""))
        for c in ast.iter_child_nodes(n):
            visit(c, in_loop or isinstance(n, (ast.For, ast.AsyncFor, ast.While)), fname)

    for fn_node in cnode.body:
        if isinstance(fn_node, (ast.FunctionDef, ast.AsyncFunctionDef)) and fn_node.name != "__init__":
            for st in fn_node.body:
                visit(st, False, fn_node.name)
    bad = []
    for f, ss in sites.items():
        if len(ss) > 1 or any("loop" in x for x in ss):
            bad.append(f"self.{f} stored at {', '.join(ss)}")
    return bad
