"""Spec-only functions available inside contract clauses."""
from __future__ import annotations

import ast
from typing import Any

import z3

from . import ops
from .ctx import ContractError, Unsupported
from .interp import Frame, MaybeUnbound
from .rules import TraceGap
from .sym import (
    UNSET,
    PDict,
    PList,
    SObj,
    SymAny,
    SymBytes,
    SymInt,
    SymMap,
    SymMaybe,
    SymMsg,
    SymOpt,
    SymSeq,
    SymStr,
    is_sym,
    mk_bool,
    mk_int,
    z3_of_int,
)

SPEC_NAMES = {
    "old",
    "implies",
    "iff",
    "emitted",
    "n_emitted",
    "cat",
    "blen",
    "prefix_slice",
    "has",
    "is_none",
    "tagis",
    "has_key",
    "ite",
    "in_map",
    "map_same_except",
    "map_same",
    "nogap",
    "same",
    "count_cls",
    "last_is",
    "exists_cls",
    "seq_len",
    "starts_with",
    "forall_emitted",
    "value_of",
    "str_contains",
    "sel",
    "forall_int",
    "exists_int",
    "yielded",
    "trace_any",
    "trace_all",
    "map_val",
    "names_nonempty",
    "truthy",
    "no_ctl_chars",
    "get_truthy",
    "tokens_have_upgrade",
    "has_header",
    "key_pos",
    "starts_with_seq",
    "local",
    "after_gap",
    "n_after_gap",
    "suffix_after",
    "urlunsplit_",
    "latin1",
    "is_ascii",
    "call_result",
    "given",
    "given_value",
    "runs_action",
    "net_written",
    "net_ops",
    "call_index",
    "call_args",
    "call_kwarg",
    "clock0",
    "clock",
    "call_time",
    "is_method_of",
    "watches",
    "flags_all",
    "flags_all_marked",
    "flag",
    "group_has",
    "count_calls",
    "wsgi_body",
    "at_iter_start",
    "bridge_waits",
    "h2_window",
    "h2_max_frame",
    "h2_sendable",
    "call_raised",
    "pseudo",
    "no_pseudo_names",
    "any_int",
}


class SpecMixin:
    def ev_Call(self, e, fr, awaited=False):
        if fr.spec and isinstance(e.func, ast.Name) and e.func.id in SPEC_NAMES:
            return getattr(self, "sp_" + e.func.id)(e, fr)
        if fr.spec and isinstance(e.func, ast.Name) and e.func.id in self.reg.specfns and e.func.id not in fr.locals:
            return self.call_specfn(self.reg.specfns[e.func.id], [self.ev(a, fr) for a in e.args], fr)
        return super().ev_Call(e, fr, awaited=awaited)

    # ------------------------------------------------------------------ recursive spec functions
    def _specfn_sort(self, ty):
        from .sym import PairSeq, Str, StrSeq

        return {"int": z3.IntSort(), "bool": z3.BoolSort(), "str": Str, "bstr": Str, "strs": StrSeq, "bstrs": StrSeq, "hdrs": PairSeq}[ty]

    def _specfn_term(self, v, ty):
        from .sym import PairSeq, StrSeq, str_to_z3

        if ty == "int":
            return z3_of_int(v)
        if ty == "bool":
            return ops.z3_of_bool(v)
        if ty in ("str", "bstr"):
            return str_to_z3(v)
        if isinstance(v, (list, tuple)) and not v or (isinstance(v, PList) and v.sym is None and not v.items):
            return z3.Empty(PairSeq if ty == "hdrs" else StrSeq)
        return ops.to_seq(self.ctx, v).e

    def _specfn_wrap(self, t, ty):
        from .sym import SymSeq, mk_str

        if ty == "int":
            return mk_int(t)
        if ty == "bool":
            return mk_bool(t)
        if ty == "str":
            return mk_str(t, "str")
        if ty == "bstr":
            return mk_str(t, "bytes")
        return PList(sym=SymSeq(t, {"strs": "str", "bstrs": "bstr", "hdrs": "pair"}[ty]))

    def call_specfn(self, sf, args, fr):
        names = [p.split(":")[0] for p in sf["params"]]
        types = [p.split(":")[1] for p in sf["params"]]
        if len(args) != len(names):
            raise ContractError(f"spec function {sf['name']} takes {len(names)} arguments")
        ri = names.index(sf["rec"])
        n = args[ri]

        def body(which, n_val):
            f2 = Frame(f"specfn:{sf['name']}", fr.module, spec=True)
            f2.locals.update(dict(zip(names, args)))
            f2.locals[sf["rec"]] = n_val
            f2.old = fr.old
            return self.ev(sf[which], f2)

        if isinstance(n, int) and not isinstance(n, bool):
            return body("base", n) if n <= 0 else body("step", n)
        terms = [self._specfn_term(a, t) for a, t in zip(args, types)]
        F = z3.Function("spec_" + sf["name"], *[t.sort() for t in terms], self._specfn_sort(sf["returns"]))
        app = F(*terms)
        done = self.ctx.__dict__.setdefault("specfn_unfolded", set())
        key = (sf["name"],) + tuple(z3.simplify(t).get_id() for t in terms)
        # the defining equation is only needed where something is proved about the application
        # (assumed clauses -- a callee's postcondition, an invariant at a loop head -- just mention it)
        if key not in done and not getattr(self, "_specfn_depth", 0) and getattr(self, "qmode", "prove") == "prove":
            done.add(key)
            self.ctx.__dict__.setdefault("specfn_keep", []).append(terms)  # keep ids alive
            self._specfn_depth = 1
            try:
                nz = z3_of_int(n)
                b = self._specfn_term(body("base", n), sf["returns"])
                st = self._specfn_term(body("step", n), sf["returns"])
            finally:
                self._specfn_depth = 0
            self.ctx.assume(z3.Implies(nz <= 0, app == b), f"definition of {sf['name']} (base)")
            self.ctx.assume(z3.Implies(nz > 0, app == st), f"definition of {sf['name']} (step)")
            self.ctx.assumptions_used.add(f"spec function {sf['name']} is defined by recursion on {sf['rec']}: base `{sf['base_text']}`, step `{sf['step_text']}` (definitional axioms, unfolded once per application)")
        return self._specfn_wrap(app, sf["returns"])

    def _b(self, v):
        t = ops.truth(self.ctx, v)
        return z3.BoolVal(t) if isinstance(t, bool) else t

    def sp_old(self, e, fr):
        if fr.old is None:
            raise ContractError("old() used where no pre-state exists")
        f2 = Frame(fr.fn_qual, fr.module, spec=True)
        f2.locals.update(fr.old)
        for k, v in fr.locals.items():
            if k not in f2.locals:
                f2.locals[k] = v
        f2.old = fr.old
        return self.ev(e.args[0], f2)

    def sp_implies(self, e, fr):
        a = self._b(self.ev(e.args[0], fr))
        if z3.is_false(z3.simplify(a)):
            return True
        b0 = getattr(self, "bottoms", 0)
        b = self._b(self.ev(e.args[1], fr))
        if getattr(self, "bottoms", 0) != b0 and self.ctx.check(a) == z3.unsat:
            # the consequent was partial, but the antecedent cannot hold on this path anyway
            self.bottoms = b0
            return True
        return mk_bool(z3.Implies(a, b))

    def sp_iff(self, e, fr):
        a = self._b(self.ev(e.args[0], fr))
        b = self._b(self.ev(e.args[1], fr))
        return mk_bool(a == b)

    def sp_ite(self, e, fr):
        c = self._b(self.ev(e.args[0], fr))
        c = z3.simplify(c)
        if z3.is_true(c):
            return self.ev(e.args[1], fr)
        if z3.is_false(c):
            return self.ev(e.args[2], fr)
        return self.ite(c, self.ev(e.args[1], fr), self.ev(e.args[2], fr))

    def sp_emitted(self, e, fr):
        name = e.args[0].value if e.args else "sent"
        return PList(list(self.traces.get(name, [])))

    def sp_n_emitted(self, e, fr):
        name = e.args[0].value if e.args else "sent"
        return len(self.traces.get(name, []))

    def sp_nogap(self, e, fr):
        name = e.args[0].value if e.args else "sent"
        return not any(isinstance(x, TraceGap) for x in self.traces.get(name, []))

    def sp_count_cls(self, e, fr):
        """count_cls("sent", Class): events of that class emitted in this call (no loop gap)"""
        name = e.args[0].value
        cls = self.ev(e.args[1], fr)
        classes = cls if isinstance(cls, tuple) else (cls,)
        tr = self.traces.get(name, [])
        if any(isinstance(x, TraceGap) for x in tr):
            raise ContractError("count_cls over a trace with a loop gap")
        return sum(1 for x in tr if isinstance(x, SObj) and isinstance(x.cls, type) and issubclass(x.cls, classes))

    def sp_exists_cls(self, e, fr):
        return self.sp_count_cls(e, fr) > 0

    def sp_last_is(self, e, fr):
        name = e.args[0].value
        cls = self.ev(e.args[1], fr)
        tr = self.traces.get(name, [])
        if not tr or isinstance(tr[-1], TraceGap):
            return False
        x = tr[-1]
        return isinstance(x, SObj) and isinstance(x.cls, type) and issubclass(x.cls, cls)

    def sp_cat(self, e, fr):
        a0, b0 = self.ev(e.args[0], fr), self.ev(e.args[1], fr)
        if isinstance(a0, (bytes, bytearray)) and isinstance(b0, (bytes, bytearray)):
            return bytes(a0) + bytes(b0)
        a = ops.as_payload(self.ctx, a0)
        b = ops.as_payload(self.ctx, b0)
        return ops.payload_cat(self.ctx, a, b)

    def sp_blen(self, e, fr):
        return ops.length(self.ctx, self.ev(e.args[0], fr))

    def sp_prefix_slice(self, e, fr):
        """prefix_slice(b, n) == b[:n] for 0 <= n <= len(b)"""
        b = ops.as_payload(self.ctx, self.ev(e.args[0], fr))
        n = self.ev(e.args[1], fr)
        ops.payload_split_axiom(self.ctx, b, n)
        return ops.payload_slice(self.ctx, b, 0, n)

    def sp_has(self, e, fr):
        """has(obj, "field"): attribute is set"""
        obj = self.ev(e.args[0], fr)
        name = e.args[1].value
        if isinstance(obj, SymOpt):
            obj = obj.value
        v = obj.fields.get(name, UNSET)
        if type(v).__name__ == "LazyUnion":
            v = self.materialise(obj, name)
        if v is UNSET:
            return False
        if isinstance(v, SymMaybe):
            return mk_bool(v.present)
        return True

    def sp_value_of(self, e, fr):
        """value_of(obj, "field"): the value of a maybe-unset field (meaningful when has())"""
        obj = self.ev(e.args[0], fr)
        name = e.args[1].value
        v = obj.fields.get(name, UNSET)
        if type(v).__name__ == "LazyUnion":
            v = self.materialise(obj, name)
        if isinstance(v, SymMaybe):
            return v.value
        return v

    def sp_is_none(self, e, fr):
        v = self.ev(e.args[0], fr)
        r = ops.identical(self.ctx, v, None)
        return r if isinstance(r, bool) else mk_bool(r)

    def sp_tagis(self, e, fr):
        v = self.ev(e.args[0], fr)
        tag = e.args[1].value
        if isinstance(v, SymAny):
            return mk_bool(ops.any_tag_is(v, tag))
        pyt = self.python_type_of(v)
        table = {"none": type(None), "bool": bool, "int": int, "str": str, "bytes": bytes}
        if tag in table:
            return pyt is table[tag]
        return False

    def sp_has_key(self, e, fr):
        m = self.ev(e.args[0], fr)
        k = e.args[1].value
        if isinstance(m, SymMsg):
            if k == "type":
                return True
            return mk_bool(self.msg_key(m, k)[0])
        if isinstance(m, PDict):
            return k in m.items
        raise ContractError("has_key on non message")

    def sp_in_map(self, e, fr):
        m = self.ev(e.args[0], fr)
        k = self.ev(e.args[1], fr)
        if isinstance(m, PDict):  # a freshly constructed (concrete) dict
            alts = [ops.eq(self.ctx, k, key) for key in m.items]
            alts = [a for a in alts if a is not False]
            if any(a is True for a in alts):
                return True
            return mk_bool(z3.Or(*alts)) if alts else False
        if not getattr(self, "in_quant", False):
            self.ctx.add_key(z3_of_int(k))
        return mk_bool(z3.Select(m.has, z3_of_int(k)))

    def sp_map_same(self, e, fr):
        a = self.ev(e.args[0], fr)
        b = self.ev(e.args[1], fr)
        return mk_bool(a.has == b.has)

    def sp_map_same_except(self, e, fr):
        a = self.ev(e.args[0], fr)
        b = self.ev(e.args[1], fr)
        k = z3_of_int(self.ev(e.args[2], fr))
        j = z3.Int("_mk")
        return mk_bool(z3.ForAll([j], z3.Implies(j != k, z3.Select(a.has, j) == z3.Select(b.has, j))))

    def sp_same(self, e, fr):
        """same(a, b): object identity"""
        a = self.ev(e.args[0], fr)
        b = self.ev(e.args[1], fr)
        if isinstance(a, SObj) and isinstance(b, SObj):
            return a is b or a.oid == b.oid
        if isinstance(a, PDict) and isinstance(b, PDict):
            return a is b or a.oid == b.oid
        r = ops.identical(self.ctx, a, b)
        return r if isinstance(r, bool) else mk_bool(r)

    def sp_seq_len(self, e, fr):
        return ops.length(self.ctx, self.ev(e.args[0], fr))

    def sp_starts_with(self, e, fr):
        from .sym import str_to_z3

        a = self.ev(e.args[0], fr)
        b = self.ev(e.args[1], fr)
        be = b if isinstance(b, z3.ExprRef) else str_to_z3(b)
        return mk_bool(z3.PrefixOf(be, str_to_z3(a)))

    def sp_str_contains(self, e, fr):
        from .sym import str_to_z3

        a = self.ev(e.args[0], fr)
        b = self.ev(e.args[1], fr)
        return mk_bool(z3.Contains(str_to_z3(a), str_to_z3(b)))

    def sp_forall_emitted(self, e, fr):
        """forall_emitted("sent", "x", <expr over x>)"""
        name = e.args[0].value
        var = e.args[1].value
        tr = self.traces.get(name, [])
        out = []
        for x in tr:
            if isinstance(x, TraceGap):
                raise ContractError("forall_emitted over a trace with a loop gap")
            f2 = Frame(fr.fn_qual, fr.module, spec=True)
            f2.locals.update(fr.locals)
            f2.locals[var] = x
            f2.old = fr.old
            out.append(self._b(self.ev(e.args[2], f2)))
        return mk_bool(z3.And(*out)) if out else True

    def sp_sel(self, e, fr):
        a = self.ev(e.args[0], fr)
        k = z3_of_int(self.ev(e.args[1], fr))
        if isinstance(a, SymMap):
            a = a.has
        if not getattr(self, "in_quant", False):
            self.ctx.add_key(k)
        r = z3.Select(a, k)
        if r.sort() == z3.BoolSort():
            return mk_bool(r)
        return mk_int(r)

    def _quant(self, e, fr, forall):
        """forall_int / exists_int over map keys.  Quantifiers are eliminated: in proof position
        the bound variable becomes a fresh constant (registered as index term); in assumption
        position the fact is instantiated at every index term of the path, now and later.  Only
        use them in positive position of a clause (top level or consequent of implies)."""
        var = e.args[0].value
        mode = getattr(self, "qmode", "prove")
        # evaluate the body ONCE, now, with a symbolic bound variable: the formula must speak about
        # the state at this point, not about whatever the objects look like when it is instantiated
        bv = z3.Int(self.ctx.fresh_name("_bv_" + var))
        f2 = Frame(fr.fn_qual, fr.module, spec=True)
        f2.locals.update(fr.locals)
        f2.locals[var] = SymInt(bv)
        f2.old = fr.old
        prev = getattr(self, "in_quant", False)
        self.in_quant = True
        try:
            formula = self._b(self.ev(e.args[1], f2))
        finally:
            self.in_quant = prev

        def body_at(term):
            if isinstance(term, int):
                term = z3.IntVal(term)
            return z3.substitute(formula, (bv, term))

        if forall == (mode == "prove"):
            # prove forall / assume exists: skolem constant
            sk = self.ctx.fresh("_sk_" + var, z3.IntSort())
            self.ctx.add_key(sk)
            return mk_bool(body_at(sk))
        # assume forall / prove exists: instantiate at the index terms
        if forall:
            self.ctx.qfacts.append(body_at)
            insts = [body_at(k) for k in list(self.ctx.keys)]
            return mk_bool(z3.And(*insts)) if insts else True
        insts = [body_at(k) for k in list(self.ctx.keys)]
        return mk_bool(z3.Or(*insts)) if insts else False

    def sp_forall_int(self, e, fr):
        return self._quant(e, fr, True)

    def sp_exists_int(self, e, fr):
        return self._quant(e, fr, False)

    def sp_yielded(self, e, fr):
        return getattr(self, "n_yields", 0) > 0

    def _trace_q(self, e, fr, is_any):
        """trace_any("h2", "x", <expr over x>) / trace_all(...) over the events recorded in this
        call (entries are python tuples / objects)"""
        name = e.args[0].value
        var = e.args[1].value
        out = []
        entries = self.traces.get(name, [])
        if name.endswith("_ever"):
            # "did it ever happen in this call": what was recorded before a loop still happened
            if not is_any:
                raise ContractError("trace_all over an '_ever' trace (unknown stretches may hold anything)")
            entries = [x for x in entries if not isinstance(x, TraceGap)]
        # entries before a loop gap belong to earlier iterations: only what follows it is known
        for k in range(len(entries) - 1, -1, -1):
            if isinstance(entries[k], TraceGap):
                entries = entries[k + 1:]
                break
        for x in entries:
            f2 = Frame(fr.fn_qual, fr.module, spec=True)
            f2.locals.update(fr.locals)
            f2.locals[var] = x
            f2.old = fr.old
            out.append(self._b(self.ev(e.args[2], f2)))
        if not out:
            return not is_any
        return mk_bool(z3.Or(*out) if is_any else z3.And(*out))

    def sp_trace_any(self, e, fr):
        return self._trace_q(e, fr, True)

    def sp_trace_all(self, e, fr):
        return self._trace_q(e, fr, False)

    def sp_map_val(self, e, fr):
        """map_val(m, k): the value stored under k (meaningful when in_map(m, k)); never forks"""
        m = self.ev(e.args[0], fr)
        k = self.ev(e.args[1], fr)
        kz = z3_of_int(k)
        self.ctx.add_key(kz)
        for (kk, vv) in m.cache:
            if z3.eq(z3.simplify(kk), z3.simplify(kz)) or self.ctx.check(kk != kz) == z3.unsat:
                return vv
        for (kk, vv) in m.cache:
            if self.ctx.check(kk == kz) != z3.unsat:
                raise ContractError("map_val: key may alias a cached key; compare keys explicitly first")
        v = m.mk(self, m, kz)
        m.cache.append((kz, v))
        return v

    def seq_forall(self, v, pred):
        """(forall element el of the header list v: pred(el)) -- structural over literal items,
        Concat / Unit; atomic symbolic sequences use element facts (assume) or an arbitrary index
        (prove)"""
        from .sym import Pair, str_to_z3

        mode = getattr(self, "qmode", "prove")
        out = []

        def walk(e):
            if z3.is_app(e) and e.decl().kind() == z3.Z3_OP_SEQ_CONCAT:
                for ch in e.children():
                    walk(ch)
                return
            if z3.is_app(e) and e.decl().kind() == z3.Z3_OP_SEQ_UNIT:
                out.append(pred(e.arg(0)))
                return
            if z3.is_app(e) and e.decl().kind() == z3.Z3_OP_SEQ_EMPTY:
                return
            if mode == "assume":
                self.ctx.seq_facts.append((e, pred))
                return
            j = self.ctx.fresh("_sk_j", z3.IntSort())
            self.ctx.assume(z3.And(j >= 0, j < z3.Length(e)))
            el = e[j]
            for (sq, p2) in self.ctx.seq_facts:
                if z3.eq(sq, e):
                    self.ctx.assume(p2(el))
            out.append(z3.Implies(z3.Length(e) > 0, pred(el)))

        if isinstance(v, PList):
            for it in v.items:
                out.append(pred(Pair.mk(str_to_z3(it[0]), str_to_z3(it[1]))))
            if v.sym is not None:
                walk(v.sym.e)
        elif isinstance(v, SymSeq):
            walk(v.e)
        elif type(v).__name__ == "Bottom":
            return False
        elif isinstance(v, SymAny) and mode == "prove":
            # an application supplied value that went through no validation: nothing is known
            # about its elements, so the property cannot be proved of it (the obligation fails)
            return mk_bool(z3.Bool(self.ctx.fresh_name(f"unvalidated({v.name})")))
        else:
            raise ContractError(f"seq_forall over {v!r}")
        return mk_bool(z3.And(*out)) if out else True

    def sp_names_nonempty(self, e, fr):
        """names_nonempty(headers): every header name has length >= 1"""
        from .sym import Pair

        return self.seq_forall(self.ev(e.args[0], fr), lambda el: z3.Length(Pair.fst(el)) >= 1)

    def sp_truthy(self, e, fr):
        v = self.ev(e.args[0], fr)
        if type(v).__name__ == "Bottom":
            return False
        t = ops.truth(self.ctx, v)
        return t if isinstance(t, bool) else mk_bool(t)

    def sp_any_int(self, e, fr):
        """any_int(x, d): x when it is an int (or bool), else d -- total, never raises"""
        v = self.ev(e.args[0], fr)
        d = z3_of_int(self.ev(e.args[1], fr))
        if isinstance(v, SymAny):
            isnum = z3.Or(ops.any_tag_is(v, "int"), ops.any_tag_is(v, "bool"))
            pi = ops.any_proj(self.ctx, v, "int")
            return mk_int(z3.If(ops.any_tag_is(v, "int"), z3_of_int(pi), d))
        if isinstance(v, (int, SymInt)) and not isinstance(v, bool):
            return mk_int(z3_of_int(v))
        return mk_int(d)

    def sp_no_pseudo_names(self, e, fr):
        """no_pseudo_names(headers): no header name starts with ':'"""
        from .sym import Pair

        return self.seq_forall(self.ev(e.args[0], fr), lambda el: z3.Not(z3.PrefixOf(z3.StringVal(":"), Pair.fst(el))))

    def sp_no_ctl_chars(self, e, fr):
        """no_ctl_chars(headers): no name or value contains CR, LF or NUL"""
        from .sym import Pair

        def clean(t):
            return z3.And(*[z3.Not(z3.Contains(t, z3.StringVal(ch))) for ch in ("\r", "\n", "\x00")])

        return self.seq_forall(self.ev(e.args[0], fr), lambda el: z3.And(clean(Pair.fst(el)), clean(Pair.snd(el))))

    def sp_get_truthy(self, e, fr):
        """get_truthy(msg, 'key'): key present and its value truthy (message.get(key, False))"""
        m = self.ev(e.args[0], fr)
        k = e.args[1].value
        if type(m).__name__ == "Bottom":
            return False
        if isinstance(m, PDict):
            return self.sp_truthy_value(m.items.get(k, False))
        present, val = self.msg_key(m, k)
        t = ops.truth(self.ctx, val)
        tz = z3.BoolVal(t) if isinstance(t, bool) else t
        return mk_bool(z3.And(present, tz))

    def sp_truthy_value(self, v):
        t = ops.truth(self.ctx, v)
        return t if isinstance(t, bool) else mk_bool(t)

    def sp_tokens_have_upgrade(self, e, fr):
        """tokens_have_upgrade(tokens): uninterpreted 'some token lower-cases to upgrade' -- the same
        term the code's any(...) over that list is bound to (see quantify_genexp)"""
        v = self.ev(e.args[0], fr)
        if isinstance(v, SymOpt):
            v = v.value
        seq = ops.to_seq(self.ctx, v)
        f = z3.Function("any_over[_x.lower() == 'upgrade']", seq.e.sort(), z3.BoolSort())
        return mk_bool(f(seq.e))

    def sp_has_header(self, e, fr):
        """has_header(headers, b'name'): uninterpreted 'some header has this (lower-cased) name'"""
        from .sym import str_to_z3

        v = self.ev(e.args[0], fr)
        name = self.ev(e.args[1], fr)
        seq = ops.to_seq(self.ctx, v) if not (isinstance(v, PList) and v.sym is None and not v.items) else None
        if seq is None:
            return False
        f = z3.Function("has_header", seq.e.sort(), z3.StringSort(), z3.BoolSort())
        return mk_bool(f(seq.e, str_to_z3(name)))

    def sp_pseudo(self, e, fr):
        """pseudo(headers, b':name'): value of that pseudo-header in a header list as h2 delivers it
        (pseudo-headers first, none among the regular headers that follow); b'' when absent"""
        v = self.ev(e.args[0], fr)
        name = self.ev(e.args[1], fr)
        if not isinstance(v, PList):
            raise ContractError("pseudo(): not a header list with a known pseudo-header prefix")
        out = b""
        for it in v.items:
            if isinstance(it, tuple) and it[0] == name:
                out = it[1]
        return out

    def sp_key_pos(self, e, fr):
        """key_pos(_it, k): position of key k in the key list being iterated"""
        lst = self.ev(e.args[0], fr)
        k = z3_of_int(self.ev(e.args[1], fr))
        return mk_int(lst.pos(k))

    def sp_starts_with_seq(self, e, fr):
        """starts_with_seq(a, b): list b is a prefix of list a"""
        a = ops.to_seq(self.ctx, self.ev(e.args[0], fr))
        bv = self.ev(e.args[1], fr)
        if isinstance(bv, PList) and bv.sym is None and not bv.items:
            return True
        b = ops.to_seq(self.ctx, bv, like=a)
        return mk_bool(z3.PrefixOf(b.e, a.e))

    def sp_local(self, e, fr):
        """local('name'): value of a local variable of the unit's function when it returned"""
        from .interp import MaybeUnbound

        name = e.args[0].value
        ll = getattr(self, "last_locals", {}).get(getattr(self, "unit_qual", ""), {})
        if name not in ll:
            from .interp import BOTTOM

            return BOTTOM  # not assigned on this path (e.g. an early return): the conjunct is false
        v = ll[name]
        if isinstance(v, MaybeUnbound):
            v = v.value
        return v

    def _after_gap(self, name):
        entries = self.traces.get(name, [])
        for k in range(len(entries) - 1, -1, -1):
            if isinstance(entries[k], TraceGap):
                return entries[k + 1:]
        return entries

    def sp_after_gap(self, e, fr):
        """entries of a trace recorded after the last loop gap (i.e. in the final iteration / after
        the loop): for loops whose earlier iterations provably record nothing"""
        return PList(list(self._after_gap(e.args[0].value)))

    def sp_n_after_gap(self, e, fr):
        return len(self._after_gap(e.args[0].value))

    def sp_suffix_after(self, e, fr):
        """suffix_after(s, prefix) == s[len(prefix):]"""
        from .sym import kind_of_strlike, mk_str, str_to_z3

        sv = self.ev(e.args[0], fr)
        pv = self.ev(e.args[1], fr)
        se, pe = str_to_z3(sv), str_to_z3(pv) if not isinstance(pv, z3.ExprRef) else pv
        return mk_str(z3.SubString(se, z3.Length(pe), z3.Length(se) - z3.Length(pe)), kind_of_strlike(sv) or "str")

    def sp_urlunsplit_(self, e, fr):
        from .models import f_urlunsplit
        from .sym import mk_str, str_to_z3

        parts = self.ev(e.args[0], fr)
        vals = []
        for p in parts:
            if isinstance(p, SymOpt):
                p = p.value
            if type(p).__name__ == "Bottom":
                return p
            vals.append(str_to_z3(p))
        return mk_str(f_urlunsplit(*vals), "str")

    def sp_latin1(self, e, fr):
        """latin1(b): the str with the same code points (bytes.decode('latin-1'); for ASCII data this
        is also what .decode() gives)"""
        from .sym import mk_str, str_to_z3

        return mk_str(str_to_z3(self.ev(e.args[0], fr)), "str")

    def sp_is_ascii(self, e, fr):
        from .sym import s_ascii_ok, str_to_z3

        v = self.ev(e.args[0], fr)
        if not is_sym(v):
            try:
                (v if isinstance(v, bytes) else v.encode("latin-1")).decode("ascii")
                return True
            except Exception:
                return False
        return mk_bool(s_ascii_ok(str_to_z3(v)))

    def sp_call_result(self, e, fr):
        """call_result('f'): what the (first) contract call of f returned, as it was at that time"""
        name = e.args[0].value
        for (n, r) in self.traces.get("results", []):
            if not isinstance(n, str):
                continue
            if n == name:
                return r
        from .interp import BOTTOM

        return BOTTOM

    def sp_call_raised(self, e, fr):
        """call_raised('C.m'): the exception object the (first) contract call whose name ends with
        that text raised in this unit; undefined if no such call raised"""
        name = e.args[0].value
        for x in self.traces.get("raised", []):
            if isinstance(x, tuple) and isinstance(x[0], str) and x[0].endswith(name):
                return x[1]
        from .interp import BOTTOM

        return BOTTOM

    def sp_runs_action(self, e, fr):
        """runs_action(entry, action): the spawned entry (a coroutine made by calling `action`, a
        (fn, *args) tuple given to a nursery, or such a tuple whose fn is a wrapper closure that
        holds `action` in a variable) runs `action`"""
        from .sym import Closure

        entry = self.ev(e.args[0], fr)
        action = self.ev(e.args[1], fr)
        if isinstance(entry, SObj) and entry.cls == "pyvc:CoroOf":
            return entry.fields["fn"] is action
        if isinstance(entry, tuple) and entry:
            fn = entry[0]
            if fn is action:
                return True
            if isinstance(fn, Closure):
                f = fn.frame
                while f is not None:
                    if any(v is action for v in f.locals.values()):
                        return True
                    f = f.parent
        return False

    def sp_net_written(self, e, fr):
        """payloads handed to the transport (write / send_all) in this call, in order"""
        tr = self.traces.get("net", [])
        if any(isinstance(x, TraceGap) for x in tr):
            raise ContractError("net_written over a trace with a loop gap")
        return PList([x[1] for x in tr if x[0] in ("write", "send_all")])

    def sp_net_ops(self, e, fr):
        """names of the transport operations of this call, in order (after the last loop gap)"""
        tr = self.traces.get("net", [])
        out = []
        for x in tr:
            if isinstance(x, TraceGap):
                out = []
            else:
                out.append(x[0] if x[0] != "error" else "error:" + x[1])
        return tuple(out)

    def sp_call_index(self, e, fr):
        """call_index('Class.method'): position of the first recorded contract call whose name ends
        with that text (after the last loop gap), -1 if there is none"""
        name = self.ev(e.args[0], fr)
        tr = self.traces.get("calls", [])
        idx = -1
        for i, x in enumerate(tr):
            if isinstance(x, TraceGap):
                idx = -1
                continue
            if isinstance(x, tuple) and isinstance(x[0], str) and x[0].endswith(name) and idx < 0:
                idx = i
        return idx

    def sp_h2_window(self, e, fr):
        """h2_window(conn, stream_id): what h2 reports as local_flow_control_window for a known
        stream -- the smaller of the stream's and the connection's send window (M_h2)"""
        conn = self.ev(e.args[0], fr)
        sid = z3_of_int(self.ev(e.args[1], fr))
        w = z3.Select(conn.fields["win"], sid)
        c = conn.fields["cwin"]
        return mk_int(z3.If(c < w, c, w))

    def sp_h2_sendable(self, e, fr):
        """h2_sendable(conn, stream_id): the local side of the stream is still open in h2's state
        machine (neither END_STREAM nor RST_STREAM was sent on it) and the connection is not closed"""
        conn = self.ev(e.args[0], fr)
        sid = z3_of_int(self.ev(e.args[1], fr))
        return mk_bool(z3.And(z3.Select(conn.fields["open"], sid), z3.Not(conn.fields["conn_closed"])))

    def sp_h2_max_frame(self, e, fr):
        conn = self.ev(e.args[0], fr)
        return mk_int(conn.fields["mfs"])

    def sp_bridge_waits(self, e, fr):
        """bridge_waits(call_soon): calling call_soon(f, x) from the worker thread returns only
        after f(x) has completed on the event loop.  Decided by running the closure on a probe."""
        from .sym import Closure

        cs = self.ev(e.args[0], fr)
        if not isinstance(cs, Closure):
            raise ContractError("bridge_waits needs a function defined in the code under analysis")
        probe = self.make_symbolic("callable{record:probe_sends;yields:0;coro:1}", self.ctx.fresh_name("probe_send"))
        before = len(self.traces.get("probe_sends_done", []))
        f2 = Frame(fr.fn_qual, fr.module, parent=None)
        self.call_value(cs, [probe, "message"], {}, f2)
        return len(self.traces.get("probe_sends_done", [])) == before + 1

    def sp_at_iter_start(self, e, fr):
        """at_iter_start('x'): the value local x had when the loop iteration under consideration began"""
        name = self.ev(e.args[0], fr)
        d = getattr(self, "iter_start_locals", None) or {}
        if name not in d:
            raise ContractError(f"at_iter_start({name!r}): no such local at the start of the iteration")
        v = d[name]
        return v.value if isinstance(v, MaybeUnbound) else v

    def sp_wsgi_body(self, e, fr):
        """the iterable the WSGI application model returned in this unit (pyvc:WSGIBody)"""
        b = getattr(self, "wsgi_body", None)
        if b is None:
            from .interp import BOTTOM

            self.bottoms = getattr(self, "bottoms", 0) + 1
            self.bottom_where = "wsgi_body(): the application was not called"
            return BOTTOM
        return b

    def sp_count_calls(self, e, fr):
        """count_calls('Class.method'): number of recorded calls with that name; not defined over a
        trace with a loop gap before the first such call position (a loop could hide more)"""
        name = self.ev(e.args[0], fr)
        n = 0
        for x in self.traces.get("calls", []):
            if isinstance(x, TraceGap):
                if n:
                    raise ContractError("count_calls: a loop ran after a counted call")
                continue
            if isinstance(x, tuple) and isinstance(x[0], str) and x[0].endswith(name):
                n += 1
        return n

    def sp_call_args(self, e, fr):
        """call_args('Class.method'): argument tuple (self first) of the first such call"""
        name = self.ev(e.args[0], fr)
        for x in self.traces.get("calls", []):
            if isinstance(x, tuple) and isinstance(x[0], str) and x[0].endswith(name):
                return tuple(x[1:])
        from .interp import BOTTOM

        self.bottoms = getattr(self, "bottoms", 0) + 1
        self.bottom_where = f"call_args({name!r}): no such call"
        return BOTTOM

    def sp_call_kwarg(self, e, fr):
        """call_kwarg('Class.method', 'name'): the keyword argument `name` of the first such call
        (None when the call did not pass it)"""
        name = self.ev(e.args[0], fr)
        kw = self.ev(e.args[1], fr)
        for x in self.traces.get("call_kwargs", []):
            if isinstance(x, tuple) and isinstance(x[0], str) and x[0].endswith(name):
                return x[1].get(kw)
        from .interp import BOTTOM

        self.bottoms = getattr(self, "bottoms", 0) + 1
        self.bottom_where = f"call_kwarg({name!r}): no such call"
        return BOTTOM

    def sp_clock0(self, e, fr):
        """ghost time at the entry of the unit"""
        from .sym import SymReal

        return SymReal(z3.Real("t0"))

    def sp_clock(self, e, fr):
        from . import models_rt as rt
        from .sym import SymReal

        return SymReal(rt.now(self))

    def sp_call_time(self, e, fr):
        """ghost time at which the first recorded contract call with that name was made"""
        from .sym import SymReal

        name = self.ev(e.args[0], fr)
        for x in self.traces.get("call_times", []):
            if isinstance(x, TraceGap):
                continue
            n, t = x
            if isinstance(n, str) and n.endswith(name):
                return SymReal(t)
        from .interp import BOTTOM

        self.bottoms = getattr(self, "bottoms", 0) + 1
        self.bottom_where = f"call_time({name!r}): no such call"
        return BOTTOM

    def sp_is_method_of(self, e, fr):
        """is_method_of(x, obj, 'name'): x is the bound method obj.name"""
        from .sym import BoundMethod

        x = self.ev(e.args[0], fr)
        obj = self.ev(e.args[1], fr)
        name = self.ev(e.args[2], fr)
        if not isinstance(x, BoundMethod):
            return False
        same = x.obj is obj or (isinstance(x.obj, SObj) and isinstance(obj, SObj) and x.obj.oid == obj.oid)
        return bool(same and x.name == name)

    def sp_watches(self, e, fr):
        """watches(entry, obj, 'name'): the spawned entry -- the coroutine raise_shutdown(obj.name)
        given to a task group, or the tuple (raise_shutdown, obj.name) given to a nursery -- is
        hypercorn.utils.raise_shutdown applied to the bound method obj.name"""
        from .calls import Coro
        from .sym import BoundMethod

        entry = self.ev(e.args[0], fr)
        obj = self.ev(e.args[1], fr)
        name = self.ev(e.args[2], fr)
        if isinstance(entry, Coro):
            fn_ok = entry.label.endswith(":raise_shutdown")
            arg = entry.args[0] if entry.args else None
        elif isinstance(entry, tuple) and entry:
            fn = entry[0]
            fn_ok = getattr(fn, "__name__", "") == "raise_shutdown" and getattr(fn, "__module__", "") == "hypercorn.utils"
            arg = entry[1] if len(entry) > 1 else None
        else:
            return False
        if not fn_ok or not isinstance(arg, BoundMethod):
            return False
        same = arg.obj is obj or (isinstance(arg.obj, SObj) and isinstance(obj, SObj) and arg.obj.oid == obj.oid)
        return bool(same and arg.name == name)

    def sp_flags_all(self, e, fr):
        """flags_all(table): every entry of the str -> bool table is True (the predicate the
        code's all(table.values()) evaluates to, on the table's state where the clause is evaluated)"""
        from .models import flags_all

        t = self.ev(e.args[0], fr)
        return mk_bool(flags_all(self, t.fields["has"], t.fields["val"], t.fields["keys"]))

    def sp_flags_all_marked(self, e, fr):
        """flags_all_marked(table, key): every entry is True once table[key] = True has been done"""
        from .models import flags_all
        from .sym import str_to_z3

        t = self.ev(e.args[0], fr)
        k = str_to_z3(self.ev(e.args[1], fr))
        return mk_bool(flags_all(self, z3.Store(t.fields["has"], k, z3.BoolVal(True)), z3.Store(t.fields["val"], k, z3.BoolVal(True)), list(t.fields["keys"]) + [k]))

    def sp_flag(self, e, fr):
        """flag(table, key): the table has an entry for key and it is True"""
        from .sym import str_to_z3

        t = self.ev(e.args[0], fr)
        k = str_to_z3(self.ev(e.args[1], fr))
        return mk_bool(z3.And(z3.Select(t.fields["has"], k), z3.Select(t.fields["val"], k)))

    def sp_group_has(self, e, fr):
        """group_has(exc, (T1, T2)): the exception group contains an exception of one of the
        classes (the same flag the code's split()/subgroup() on that group is answered from)"""
        from . import models_rt as rt

        exc = self.ev(e.args[0], fr)
        types = self.ev(e.args[1], fr)
        m, _r = rt.group_flags(self, exc, types)
        return m

    def _opt(self, e, fr):
        ns = self.ev(e.args[0], fr)
        return ns.fields[e.args[1].value]

    def sp_given(self, e, fr):
        """given(args, 'dest'): the command line option was supplied"""
        return mk_bool(self._opt(e, fr).given)

    def sp_given_value(self, e, fr):
        return self._opt(e, fr).value
