"""Symbolic value domain of pyvc.

Values seen by the interpreter are either plain Python values (None, bool, int, float, str, bytes,
tuple, real classes / enum members / functions taken from the imported hypercorn modules) or one of
the wrappers below.  Structure (which class an object has, how long a literal list is) is concrete
per path; leaves are z3 terms.  All z3 terms live in the default context of the worker process.
"""
from __future__ import annotations

import itertools
from typing import Any, Dict, List, Optional

import z3

Int = z3.IntSort()
Bool = z3.BoolSort()
Str = z3.StringSort()

# abstract sort for byte payloads (bodies, wire data): only the length is interpreted
Bytes = z3.DeclareSort("Bytes")
blen = z3.Function("blen", Bytes, Int)
bcat = z3.Function("bcat", Bytes, Bytes, Bytes)
bslice = z3.Function("bslice", Bytes, Int, Int, Bytes)
BEMPTY = z3.Const("b_empty", Bytes)

# opaque values (apps, sockets, loggers, tokens ...)
Opaque = z3.DeclareSort("Opaque")

# header pair
Pair = z3.Datatype("Pair")
Pair.declare("mk", ("fst", Str), ("snd", Str))
Pair = Pair.create()
PairSeq = z3.SeqSort(Pair)
IntSeq = z3.SeqSort(Int)
StrSeq = z3.SeqSort(Str)

# uninterpreted string helpers (case mapping, stripping ...) -- see DESIGN 7.6
s_lower = z3.Function("s_lower", Str, Str)
s_upper = z3.Function("s_upper", Str, Str)
s_strip = z3.Function("s_strip", Str, Str)
s_unquote = z3.Function("s_unquote", Str, Str)
s_ascii_ok = z3.Function("s_ascii_ok", Str, Bool)  # decodes as ascii
s_int_ok = z3.Function("s_int_ok", Str, Bool)  # int(s) succeeds
s_int = z3.Function("s_int", Str, Int)
i_fmt = z3.Function("i_fmt", Int, Str)  # b"%d" % i / str(i)


class Sym:
    """base of all symbolic wrappers"""

    __slots__ = ()


class SymInt(Sym):
    __slots__ = ("e",)

    def __init__(self, e):
        self.e = e

    def __repr__(self):
        return f"SymInt({self.e})"


class SymReal(Sym):
    """opaque float (time stamps); never inspected"""

    __slots__ = ("e",)

    def __init__(self, e):
        self.e = e


class SymBool(Sym):
    __slots__ = ("e",)

    def __init__(self, e):
        self.e = e

    def __repr__(self):
        return f"SymBool({self.e})"


class SymStr(Sym):
    """short string; kind is 'str' or 'bytes' (bytes are modelled as latin-1 code points)"""

    __slots__ = ("e", "kind")

    def __init__(self, e, kind="str"):
        self.e = e
        self.kind = kind

    def __repr__(self):
        return f"SymStr[{self.kind}]({self.e})"


class SymBytes(Sym):
    """abstract payload: term of sort Bytes + eagerly computed length"""

    __slots__ = ("t", "n")

    def __init__(self, t, n):
        self.t = t
        self.n = n

    def __repr__(self):
        return f"SymBytes({self.t}, len={self.n})"


class SymOpaque(Sym):
    __slots__ = ("e", "label")

    def __init__(self, e, label=""):
        self.e = e
        self.label = label

    def __repr__(self):
        return f"Opaque({self.e})"


class SymEnum(Sym):
    """value of a real Enum class, index into list(enum_cls)"""

    __slots__ = ("cls", "e")

    def __init__(self, cls, e):
        self.cls = cls
        self.e = e

    def __repr__(self):
        return f"SymEnum({self.cls.__name__},{self.e})"


class SymSeq(Sym):
    """immutable symbolic sequence value.  elem is 'pair' (header tuples), 'int', 'str', 'bstr'"""

    __slots__ = ("e", "elem")

    def __init__(self, e, elem):
        self.e = e
        self.elem = elem

    def __repr__(self):
        return f"SymSeq[{self.elem}]({self.e})"


class PList:
    """mutable python list with identity; items are values.  If `sym` is set the content is the
    symbolic sequence `sym` (a SymSeq) instead of `items`."""

    __slots__ = ("items", "sym", "oid")
    _ids = itertools.count()

    def __init__(self, items=None, sym: Optional[SymSeq] = None):
        self.items = list(items) if items is not None else []
        self.sym = sym
        self.oid = next(PList._ids)

    def __repr__(self):
        return f"PList({self.sym if self.sym is not None else self.items})"


class PDict:
    """mutable dict with concrete (python) keys"""

    __slots__ = ("items", "oid", "open_", "sym_entries", "base")

    def __init__(self, items=None):
        self.items: Dict[Any, Any] = dict(items) if items else {}
        self.oid = next(PList._ids)
        # entries stored under *symbolic* string keys, oldest first: (key term, string value);
        # base: (has, val) uninterpreted functions standing for unknown earlier content (after a havoc)
        self.sym_entries: List[Any] = []
        self.base = None

    def __repr__(self):
        return f"PDict({self.items})"


class PSet:
    __slots__ = ("items",)

    def __init__(self, items):
        self.items = list(items)


class SObj:
    """heap object of a (real or model) class; fields hold values"""

    __slots__ = ("cls", "fields", "oid", "tag")
    _ids = itertools.count()

    def __init__(self, cls, fields=None, tag=""):
        self.cls = cls
        self.fields: Dict[str, Any] = dict(fields) if fields else {}
        self.oid = next(SObj._ids)
        self.tag = tag

    def __repr__(self):
        name = getattr(self.cls, "__name__", str(self.cls))
        return f"<{name}#{self.oid} {self.fields}>"


class BoundMethod:
    __slots__ = ("obj", "name")

    def __init__(self, obj, name):
        self.obj = obj
        self.name = name

    def __repr__(self):
        return f"<bound {self.obj!r}.{self.name}>"


class Closure:
    """nested function defined in interpreted code"""

    __slots__ = ("node", "frame", "module")

    def __init__(self, node, frame, module):
        self.node = node
        self.frame = frame
        self.module = module


class LazyUnion:
    """a havoced field whose declared type is a union of classes: which alternative it is gets
    decided (by a case split) only when somebody looks at the field"""

    __slots__ = ("ty", "name", "cell")

    def __init__(self, ty, name):
        self.ty = ty
        self.name = name
        self.cell = None  # pristine copy of the value once some holder has looked at it

    def __repr__(self):
        return f"LazyUnion({self.name}: {self.ty})"


class Unset:
    def __repr__(self):
        return "UNSET"


UNSET = Unset()


class SymMaybe(Sym):
    """a field that may be unset: `present` (z3 Bool) and the value when present"""

    __slots__ = ("present", "value")

    def __init__(self, present, value):
        self.present = present
        self.value = value


class SymOpt(Sym):
    """Optional[T] with symbolic None-ness: is_none (z3 Bool), value when not None"""

    __slots__ = ("is_none", "value")

    def __init__(self, is_none, value):
        self.is_none = is_none
        self.value = value

    def __repr__(self):
        return f"SymOpt({self.is_none},{self.value})"


# ---- Any (application supplied values) --------------------------------------------------------
ANY_TAGS = ["none", "bool", "int", "str", "bytes", "seq", "other"]


class SymAny(Sym):
    """application supplied value.  tag: z3 Int in range(len(ANY_TAGS)).  Projections are created
    lazily and cached so that repeated reads agree."""

    __slots__ = ("name", "tag", "proj", "bytes_kind")

    def __init__(self, name, tag, bytes_kind="payload"):
        self.name = name
        self.tag = tag
        self.proj: Dict[str, Any] = {}
        self.bytes_kind = bytes_kind

    def __repr__(self):
        return f"Any({self.name})"


class SymMsg(Sym):
    """ASGI message: dict with string keys; `type` always present.  Other keys have a symbolic
    presence flag and a SymAny value, created on first access (cached)."""

    __slots__ = ("name", "keys", "kinds")

    def __init__(self, name, kinds=None):
        self.name = name
        self.keys: Dict[str, Any] = {}  # key -> (present z3 Bool, value)
        self.kinds = kinds or {}


class SymMap(Sym):
    """symbolic dict int -> object summary.  `has` is a z3 Array(Int->Bool) held mutable here.
    `mk(ctx, key)` builds the (abstract) value stored under a key; values are cached per key term so
    that repeated lookups of the same key agree on a path."""

    __slots__ = ("has", "mk", "cache", "name", "oid", "size")

    def __init__(self, name, has, mk, size=None):
        self.name = name
        self.has = has
        self.mk = mk
        self.cache: List[Any] = []
        self.oid = next(PList._ids)
        self.size = size


class SymIte(Sym):
    """c ? a : b for values of any kind (produced by merging a simple conditional assignment)"""

    __slots__ = ("c", "a", "b")

    def __init__(self, c, a, b):
        self.c = c
        self.a = a
        self.b = b


def is_sym(v) -> bool:
    return isinstance(v, Sym)


def z3_of_int(v):
    if isinstance(v, z3.ExprRef):
        return v
    if isinstance(v, SymInt):
        return v.e
    if isinstance(v, SymOpt):
        return z3_of_int(v.value)
    if isinstance(v, bool):
        return z3.IntVal(1 if v else 0)
    if isinstance(v, int):
        return z3.IntVal(v)
    if isinstance(v, SymBool):
        return z3.If(v.e, z3.IntVal(1), z3.IntVal(0))
    if isinstance(v, float) and v == int(v):
        return z3.IntVal(int(v))
    if isinstance(v, float):
        return z3.RealVal(v)
    raise TypeError(f"not an int value: {v!r}")


def z3_of_bool(v):
    if isinstance(v, SymBool):
        return v.e
    if isinstance(v, bool):
        return z3.BoolVal(v)
    raise TypeError(f"not a bool value: {v!r}")


def mk_int(e):
    e = z3.simplify(e)
    if z3.is_int_value(e):
        return e.as_long()
    return SymInt(e)


def mk_bool(e):
    e = z3.simplify(e)
    if z3.is_true(e):
        return True
    if z3.is_false(e):
        return False
    return SymBool(e)


def str_to_z3(s, kind=None):
    if isinstance(s, SymStr):
        return s.e
    if isinstance(s, str):
        return z3.StringVal(s)
    if isinstance(s, (bytes, bytearray)):
        return z3.StringVal(bytes(s).decode("latin-1"))
    raise TypeError(f"not a string value: {s!r}")


def mk_str(e, kind):
    e = z3.simplify(e)
    if z3.is_string_value(e):
        s = e.as_string()
        s = _unescape(s)
        return s if kind == "str" else s.encode("latin-1")
    return SymStr(e, kind)


def _unescape(s: str) -> str:
    # z3 prints non printable characters as \u{..}
    import re

    return re.sub(r"\\u\{([0-9a-fA-F]+)\}", lambda m: chr(int(m.group(1), 16)), s)


def kind_of_strlike(v):
    if isinstance(v, SymStr):
        return v.kind
    if isinstance(v, str):
        return "str"
    if isinstance(v, (bytes, bytearray)):
        return "bytes"
    return None
