"""Verification of one function (a *unit*) against its contract."""
from __future__ import annotations

import ast
import os
from typing import Any, Dict, List, Optional, Tuple

import z3

from . import ops
from .calls import CallsMixin
from .contracts import REG, Clause, FnContract, load_contracts
from .ctx import ContractError, Ctx, PathEnd, UnitResult, Unsupported, explore
from .heap import HeapMixin
from .interp import Frame, InterpCore, ReturnSig
from .ops import PyRaise
from .rules import RulesMixin
from .source import ensure_repo_on_path, find_def, module_info
from .spec import SpecMixin
from .sym import SObj, SymOpt, UNSET


class Interp(SpecMixin, RulesMixin, CallsMixin, HeapMixin, InterpCore):
    pass


def _props(cl: Clause, fc: FnContract) -> Tuple[str, ...]:
    return tuple(cl.props) or tuple(fc.props)


def exc_matches(exc_cls, declared: str, interp) -> bool:
    try:
        c = interp.exc_class(declared)
    except ContractError:
        return False
    return isinstance(exc_cls, type) and issubclass(exc_cls, c)


def run_unit(ctx: Ctx, qualname: str) -> None:
    fc = REG.fns[qualname]
    mi, node = find_def(qualname)
    interp = Interp(ctx, REG)
    interp.unit_name = qualname.split(":")[1]
    interp.force_inline = {qualname}
    interp.unit_module = mi
    interp.unit_qual = qualname
    interp.roots = []
    interp.writes = []
    unit = interp.unit_name
    a = node.args
    names = [p.arg for p in a.posonlyargs + a.args] + [p.arg for p in a.kwonlyargs]
    env: Dict[str, Any] = {}
    local = qualname.split(":")[1]
    is_method = "." in local and names and names[0] == "self"
    is_init = local.endswith(".__init__")
    for p in names:
        if p == "self" and is_method and "self" not in fc.params:
            cls_qual = (qualname[: -len(".setter")] if qualname.endswith(".setter") else qualname).rsplit(".", 1)[0]
            if is_init:
                from .source import class_of

                env[p] = SObj(class_of(cls_qual), {}, tag="self")
                cc = REG.classes.get(cls_qual)
                if cc is not None:
                    for g, t in cc.ghost.items():
                        env[p].fields[g] = interp.ghost_initial(t)
                interp.register_shared(env[p])
            else:
                env[p] = interp.make_symbolic(f"obj {cls_qual}", "self")
            if interp.class_contract(env[p]) is not None:
                interp.unit_self = env[p]
            continue
        if p not in fc.params:
            # parameter with a default that the contract leaves out: use the default
            pos = a.posonlyargs + a.args
            defaults = dict(zip([q.arg for q in pos[len(pos) - len(a.defaults):]], a.defaults))
            defaults.update({q.arg: d for q, d in zip(a.kwonlyargs, a.kw_defaults) if d is not None})
            if p in defaults:
                env[p] = interp.ev(defaults[p], Frame(qualname, mi))
                continue
            raise ContractError(f"{qualname}: no type for parameter {p}")
        env[p] = interp.make_symbolic(fc.params[p], p)
    for g, t in fc.ghost_params.items():
        env[g] = interp.make_symbolic(t, g)
    interp.roots = list(env.values())
    slf = env.get("self") if is_method else None
    if isinstance(slf, SObj) and interp.class_contract(slf) is not None:
        interp.unit_self = slf
    interp.in_init = is_init
    for cl in fc.requires:
        interp.assume_clause(cl, env, None, mi, f"requires {cl.name}")
    if interp.unit_self is not None and not is_init and fc.task:
        cc0 = interp.class_contract(interp.unit_self)
        for cl in cc0.task_inv.get(fc.task, []):
            interp.assume_clause(cl, {"self": interp.unit_self}, None, mi, f"task invariant {cl.name}")
    # (a monitor invariant is NOT assumed at entry: another task may hold the lock at that moment;
    #  it is assumed when the unit acquires the lock)
    if ctx.check_full() != z3.sat:
        ctx.covers[f"{unit}.entry"] = False
        raise PathEnd("precondition unsatisfiable")
    ctx.covers[f"{unit}.entry"] = True
    if fc.model_opts.get("clock"):
        interp.clock = z3.Real("t0")  # the ghost clock runs from the entry of the unit
    interp.run_ghost(fc.ghost_pre, env, Frame(qualname, mi), module=mi)
    old_env = interp.snapshot_env(env)
    if interp.unit_self is not None:
        interp.segment_start = interp.snapshot_env({"self": interp.unit_self})
    where_exit = f"{qualname}:exit"
    args = [env[p.arg] for p in a.posonlyargs + a.args]
    kwargs = {p.arg: env[p.arg] for p in a.kwonlyargs}
    try:
        result = interp.run_function(node, mi, qualname, args, kwargs)
    except PyRaise as pr:
        exc_cls = pr.exc.cls
        ename = getattr(exc_cls, "__name__", str(exc_cls))
        declared = [d for d in fc.raises if exc_matches(exc_cls, d, interp)]
        env2 = dict(env)
        env2["exc"] = pr.exc
        if declared:
            d = declared[0]
            ctx.cover(f"{unit}.exit.raises.{d}")
            for cl in fc.raises_clauses.get(d, []):
                v = interp.spec_eval_p(cl, env2, old_env, mi)
                ctx.prove(f"{unit}.{cl.name}", interp.as_z3_bool(v), cl.text, pr.where or where_exit, note=f"exceptional postcondition ({ename})", props=_props(cl, fc))
        elif fc.exceptional == "app":
            # application facing: raising into the application is the required behaviour,
            # provided nothing was put on the wire in this call
            ctx.cover(f"{unit}.exit.raises-into-app")
            n = len(interp.traces.get("sent", []))
            ctx.prove(
                f"{unit}.raise-emits-nothing",
                z3.BoolVal(n == 0),
                "an exception raised into the application leaves nothing emitted in this call",
                pr.where or where_exit,
                note=f"{ename} raised after {n} emitted event(s)",
                props=("C12",) if "C12" in fc.props else fc.props,
                assume_after=False,
            )
        else:
            ctx.prove(
                f"{unit}.no-unexpected-exception",
                z3.BoolVal(False),
                f"no exception other than {sorted(fc.raises) or 'none'} escapes",
                pr.where or where_exit,
                note=f"{ename} escapes (raised at {pr.where})",
                # protocol units: an escaping exception is a C04 matter (their C04 findings are recorded
                # against C04 only); units that name exception_props (the two servers) count it for
                # every property that relies on the unit finishing normally
                props=fc.model_opts.get("exception_props") or (("C04",) if "C04" in fc.props else fc.props),
                assume_after=False,
            )
        if declared or fc.exceptional == "app":
            finish_unit(interp, fc, env2, old_env, exceptional=True)
        return
    ctx.cover(f"{unit}.exit.normal")
    env2 = dict(env)
    env2["result"] = result
    if not fc.assume_only and "caller" not in " ".join(fc.ghost_post):
        # ghost updates that describe this function's own effect on its object
        interp.run_ghost(fc.ghost_post, env2, Frame(qualname, mi), module=mi)
    for cl in fc.ensures:
        v = interp.spec_eval_p(cl, env2, old_env, mi)
        ctx.prove(f"{unit}.{cl.name}", interp.as_z3_bool(v), cl.text, where_exit, note="postcondition", props=_props(cl, fc))
    finish_unit(interp, fc, env2, old_env, exceptional=False)


def finish_unit(interp: Interp, fc: FnContract, env, old_env, exceptional: bool) -> None:
    ctx = interp.ctx
    unit = interp.unit_name
    us = interp.unit_self
    fr = Frame(fc.qualname, None)
    fr.line = 0
    where_exit = f"{fc.qualname}:exit"
    if us is not None:
        cc = interp.class_contract(us)
        for cl in cc.inv:
            v = interp.spec_eval_p(cl, {"self": us}, None)
            ctx.prove(f"{unit}.exit.{cl.name}", interp.as_z3_bool(v), cl.text, where_exit, note="class invariant at exit", props=tuple(cl.props) or fc.props)
        interp.prove_monitor(us, where_exit, "exit")
        if not interp.in_init and getattr(interp, "segment_start", None) is not None:
            interp.check_guarantee(where_exit, "exit")
        interp.prove_published(where_exit)
        if fc.task and not interp.in_init:
            for cl in cc.task_inv.get(fc.task, []):
                v = interp.spec_eval_p(cl, {"self": us}, None)
                ctx.prove(f"{unit}.exit.{cl.name}", interp.as_z3_bool(v), cl.text, where_exit, note=f"quiescent invariant of task {fc.task} at exit", props=tuple(cl.props) or fc.props)
    if us is not None and isinstance(us.cls, type):
        cc_l = interp.class_contract(us)
        if cc_l is not None and (cc_l.lock_protected or cc_l.write_once):
            from .source import lock_discipline_violations

            if cc_l.write_once:
                from .source import write_once_violations

                bad = write_once_violations(us.cls, cc_l.write_once)
                ctx.prove(f"{unit}.write-once", z3.BoolVal(not bad), f"fields {cc_l.write_once} are assigned at one program point outside __init__, not in a loop", where_exit,
                          note="; ".join(bad) or "syntactic scan of the class", props=fc.props, assume_after=False)
            for lk, prot in cc_l.lock_protected.items():
                bad = lock_discipline_violations(us.cls, lk, prot)
                ctx.prove(f"{unit}.lock-discipline.{lk}", z3.BoolVal(not bad), f"fields {prot} are written (and tasks started / cancelled) only while self.{lk} is held", where_exit,
                          note="; ".join(bad) or "syntactic scan of the class", props=fc.props, assume_after=False)
    n_y = getattr(interp, "n_yields", 0)
    if fc.effect == "atomic":
        ctx.prove(f"{unit}.atomic", z3.BoolVal(n_y == 0), "declared atomic: no suspending await on any path", where_exit, note=f"{n_y} yield point(s) on this path", props=fc.props, assume_after=False)
    # frame: fields of self outside `modifies` are unchanged (checked on yield-free paths)
    if fc.modifies is not None and us is not None and n_y == 0 and not interp.in_init:
        allowed = set()
        for m in fc.modifies:
            parts = m.split(".")
            if parts[0] == "self" and len(parts) >= 2:
                allowed.add(parts[1])
        old_self = old_env["self"]
        for f, v in us.fields.items():
            if f in allowed:
                continue
            ov = old_self.fields.get(f, UNSET)
            if v is ov:
                continue
            if isinstance(v, SObj) and isinstance(ov, SObj):
                # same object (snapshot copy): compare scalar fields one level down
                if f"{f}" in allowed:
                    continue
                for g, w in v.fields.items():
                    if f"{f}.{g}" in {m[5:] for m in fc.modifies if m.startswith("self.")}:
                        continue
                    ow = ov.fields.get(g, UNSET)
                    _frame_eq(interp, unit, f"self.{f}.{g}", w, ow, where_exit, fc)
                continue
            _frame_eq(interp, unit, f"self.{f}", v, ov, where_exit, fc)


def _frame_eq(interp, unit, path, v, ov, where_exit, fc):
    from .sym import PDict, PList, SymMap

    ctx = interp.ctx
    if v is ov:
        return
    from .sym import SymOpt as _SO

    if isinstance(v, _SO) and isinstance(ov, _SO) and isinstance(v.value, SObj) and isinstance(ov.value, SObj):
        ctx.prove(f"{unit}.frame.{path}", v.is_none == ov.is_none, f"{path} == old({path})  (not in modifies)", where_exit, note="frame condition", props=fc.props)
        for g, w in v.value.fields.items():
            _frame_eq(interp, unit, f"{path}.{g}", w, ov.value.fields.get(g, UNSET), where_exit, fc)
        return
    try:
        if isinstance(v, SymMap) and isinstance(ov, SymMap):
            r = v.has == ov.has
        elif isinstance(v, (SObj,)) or isinstance(ov, (SObj,)):
            return
        else:
            r = ops.eq(ctx, v, ov)
    except Unsupported:
        return
    rz = z3.BoolVal(r) if isinstance(r, bool) else r
    ctx.prove(f"{unit}.frame.{path}", rz, f"{path} == old({path})  (not in modifies)", where_exit, note="frame condition", props=fc.props)


def verify_unit(qualname: str, region=None, work=None, split_after=None) -> UnitResult:
    res = explore(qualname, lambda ctx: run_unit(ctx, qualname), region=region, work=work, split_after=split_after)
    try:
        mi, node = find_def(qualname)
        res.functions.append(
            {
                "function": qualname,
                "file": os.path.relpath(mi.path, os.environ.get("PYVC_REPO", "/repo")),
                "sha256": mi.sha256,
                "lines": [node.lineno, node.end_lineno],
            }
        )
    except Exception as e:  # function under contract no longer exists: undecided
        res.undecided.append(f"{qualname}: cannot locate function: {e}")
    return res
