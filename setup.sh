#!/bin/sh
# Build the overlay venv used by every check (offline: wheelhouse only).
# CPython 3.12 of /venv (the interpreter that runs hypercorn) + z3-solver/cvc5/jsonschema/hypothesis,
# with a .pth that exposes /venv's site-packages (h11, h2, wsproto, priority, trio, editable hypercorn).
set -e
cd "$(dirname "$0")"
if [ -x .venv/bin/python ] && .venv/bin/python -c "import z3, cvc5, h2, h11, hypercorn, jsonschema" 2>/dev/null; then
    exit 0
fi
rm -rf .venv
/venv/bin/python -m venv .venv
PIP_NO_INDEX=1 .venv/bin/pip install -q --no-index --find-links /opt/veriftools/wheels z3-solver cvc5 hypothesis jsonschema
echo "import site; site.addsitedir('/venv/lib/python3.12/site-packages')" > .venv/lib/python3.12/site-packages/_repo_overlay.pth
.venv/bin/python -c "import z3, cvc5, h2, h11, wsproto, priority, trio, hypercorn, jsonschema"
