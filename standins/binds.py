"""BOUNDED stand-in (never counted as proved): Config._create_sockets is OS calls plus a
replace/rsplit/int() chain that the VC generator cannot reach.  The real function is run with the
socket module stubbed, over every bind string from a grammar up to a stated bound, and compared with
an independent grammar-based parser of the documented shapes
(host:port, bare host, [IPv6]:port, unix:path, fd://n)."""
import itertools
import os
import socket
import sys
import types


def spec_parse(bind: str):
    """(family, address) the documentation promises for a bind string"""
    if bind.startswith("unix:"):
        return ("AF_UNIX", bind[5:])
    if bind.startswith("fd://"):
        return ("FD", int(bind[5:]))
    if bind.startswith("["):  # [IPv6] or [IPv6]:port
        host, _, rest = bind[1:].partition("]")
        port = int(rest[1:]) if rest.startswith(":") and rest[1:].isdigit() else 8000
        return ("AF_INET6", (host, port))
    if bind.count(":") == 1:
        host, _, port = bind.partition(":")
        if port.isdigit():
            return ("AF_INET", (host, int(port)))
    if ":" in bind:  # bare IPv6 without brackets is not a documented shape
        return None
    return ("AF_INET", (bind, 8000))


class FakeSock:
    def __init__(self, family=None, type_=None, fileno=None):
        self.family, self.type, self.fileno_, self.bound = family, type_, fileno, None

    def setsockopt(self, *a):
        pass

    def getsockopt(self, *a):
        return socket.SOCK_STREAM

    def bind(self, addr):
        self.bound = addr

    def setblocking(self, b):
        pass

    def set_inheritable(self, b):
        pass


def run_real(bind: str):
    repo = os.environ.get("PYVC_REPO", "/repo")
    sys.path.insert(0, os.path.join(repo, "src"))
    import hypercorn.config as C

    made = []

    def fake_socket(family=-1, type_=-1, proto=-1, fileno=None):
        s = FakeSock(family, type_, fileno)
        made.append(s)
        return s

    fake = types.SimpleNamespace(**{k: getattr(socket, k) for k in dir(socket) if k.isupper()})
    fake.socket = fake_socket
    fake.SocketKind = socket.SocketKind
    orig = C.socket
    orig_stat, orig_remove = C.os.stat, C.os.remove
    C.socket = fake
    C.os.stat = lambda p: (_ for _ in ()).throw(FileNotFoundError())
    try:
        cfg = C.Config()
        cfg._create_sockets([bind])
    finally:
        C.socket = orig
        C.os.stat, C.os.remove = orig_stat, orig_remove
    s = made[0]
    if s.fileno_ is not None:
        return ("FD", s.fileno_)
    fam = {socket.AF_UNIX: "AF_UNIX", socket.AF_INET: "AF_INET", socket.AF_INET6: "AF_INET6"}[s.family]
    return (fam, s.bound)


def run_create_sockets():
    """Config.create_sockets with TLS configured: the sockets made for bind and insecure_bind are
    stream sockets, those for quic_bind datagram sockets (C19 "sockets of the intended family,
    address and type"); without TLS only bind is used, as stream sockets"""
    repo = os.environ.get("PYVC_REPO", "/repo")
    sys.path.insert(0, os.path.join(repo, "src"))
    import hypercorn.config as C

    made = []

    def fake_socket(family=-1, type_=-1, proto=-1, fileno=None):
        s = FakeSock(family, type_, fileno)
        s.getsockname = lambda: ("127.0.0.1", 1)
        made.append(s)
        return s

    fake = types.SimpleNamespace(**{k: getattr(socket, k) for k in dir(socket) if k.isupper()})
    fake.socket = fake_socket
    fake.SocketKind = socket.SocketKind
    orig = C.socket
    orig_stat = C.os.stat
    C.socket = fake
    C.os.stat = lambda p: (_ for _ in ()).throw(FileNotFoundError())
    out = []
    try:
        for tls in (True, False):
            del made[:]
            cfg = C.Config()
            cfg.bind, cfg.insecure_bind, cfg.quic_bind = ["127.0.0.1:8443"], ["127.0.0.1:8080"], ["127.0.0.1:4433"]
            if tls:
                cfg.certfile, cfg.keyfile = "cert.pem", "key.pem"
            socks = cfg.create_sockets()
            kinds = {"secure": [s.type for s in socks.secure_sockets], "insecure": [s.type for s in socks.insecure_sockets], "quic": [s.type for s in socks.quic_sockets]}
            bound = {"secure": [s.bound for s in socks.secure_sockets], "insecure": [s.bound for s in socks.insecure_sockets], "quic": [s.bound for s in socks.quic_sockets]}
            out.append((tls, kinds, bound))
    finally:
        C.socket = orig
        C.os.stat = orig_stat
    return out


def binds(tier):
    hosts = ["127.0.0.1", "localhost", "0.0.0.0", "a", "example.com"]
    v6 = ["::1", "::", "fe80::1", "2001:db8::2"]
    ports = ["0", "1", "80", "8000", "65535"]
    out = []
    for h in hosts:
        out.append(h)
        out += [f"{h}:{p}" for p in ports]
    for h in v6:
        out.append(f"[{h}]")
        out += [f"[{h}]:{p}" for p in ports]
    out += ["unix:/tmp/x.sock", "unix:rel", "unix:/a:b", "fd://0", "fd://3", "fd://33"]
    if tier == "thorough":
        # every documented shape over small alphabets: host = [a1.]{1,4}, port = [01]{1,3},
        # IPv6 literal = strings over {1,a,:} of length 2..5 with at least two colons
        hs = ["".join(t) for n in range(1, 5) for t in itertools.product("a1.", repeat=n)]
        ps = ["".join(t) for n in range(1, 4) for t in itertools.product("01", repeat=n)]
        v6s = [x for n in range(2, 6) for x in ("".join(t) for t in itertools.product("1a:", repeat=n)) if x.count(":") >= 2]
        for h in hs:
            out.append(h)
            out += [f"{h}:{p}" for p in ps]
        for h in v6s:
            out.append(f"[{h}]")
            out += [f"[{h}]:{p}" for p in ps[:4]]
    return sorted(set(out))


def spec_parse_safe(s):
    try:
        return spec_parse(s)
    except ValueError:
        return None


def run(tier="quick", seed=0):
    cases = binds(tier)
    violations = []
    n = 0
    for b in cases:
        want = spec_parse_safe(b)
        if want is None:
            continue
        n += 1
        try:
            got = run_real(b)
        except Exception as e:  # the real function raised on a documented shape
            got = ("raised", type(e).__name__)
        if got != want:
            violations.append({"obligation": "C19.bind", "input": b, "expected": repr(want), "observed": repr(got)})
    try:
        for tls, kinds, bound in run_create_sockets():
            S, D = socket.SOCK_STREAM, socket.SOCK_DGRAM
            want_kinds = {"secure": [S], "insecure": [S], "quic": [D]} if tls else {"secure": [], "insecure": [S], "quic": []}
            want_bound = ({"secure": [("127.0.0.1", 8443)], "insecure": [("127.0.0.1", 8080)], "quic": [("127.0.0.1", 4433)]} if tls
                          else {"secure": [], "insecure": [("127.0.0.1", 8443)], "quic": []})
            n += 1
            if kinds != want_kinds or bound != want_bound:
                violations.append({"obligation": "C19.bind", "input": "create_sockets() with bind / insecure_bind / quic_bind, TLS %s" % ("configured" if tls else "not configured"),
                                   "expected": repr((want_kinds, want_bound)), "observed": repr((kinds, bound))})
    except Exception as e:  # the real function raised
        violations.append({"obligation": "C19.bind", "input": "create_sockets()", "expected": "sockets", "observed": "raised %r" % (e,)})
    return {"tool": "native enumeration over a bind grammar against a spec parser", "bound": "documented shapes over 5 hosts x 5 ports, 4 IPv6 literals, unix:/fd:// samples" + ("; plus all strings up to length 5 over {a,1,:,.,[,]} that the spec parser accepts" if tier == "thorough" else ""),
            "cases": n, "violations": violations}


if __name__ == "__main__":
    r = run(sys.argv[1] if len(sys.argv) > 1 else "quick")
    print(r["cases"], "cases;", len(r["violations"]), "violations")
    for v in r["violations"][:10]:
        print(v)
