"""BOUNDED stand-in (never counted as proved): the lifespan fan-out of DispatcherMiddleware
(`_handle_lifespan` + `send` of AsyncioDispatcherMiddleware / TrioDispatcherMiddleware) builds
per-mount tables with dict comprehensions over the mount table, one queue / memory channel and
one task per mount, and folds them with all(); that is outside what the VC generator models.
The real classes are run natively, on both event loops, with 1..3 mounts (4 in the thorough tier)
and every order in which the mounts complete startup and shutdown; after every single completion
it is checked that the server has been told `lifespan.<phase>.complete` exactly when every mount
has completed that phase, once, and never for the other phase."""
import asyncio
import itertools
import os
import sys


def _load():
    repo = os.environ.get("PYVC_REPO", "/repo")
    src = os.path.join(repo, "src")
    if src not in sys.path:
        sys.path.insert(0, src)
    import hypercorn.middleware.dispatcher as D

    return D


def _expect(forwarded, done, n, phase_done_before):
    """what the server must have seen after `done` mounts completed the current phase"""
    return phase_done_before + ([f"lifespan.{done[0]}.complete"] if done[1] == n else [])


async def _run_asyncio(D, n, order_up, order_down):
    forwarded, problems = [], []
    gates = {(ph, i): asyncio.Event() for ph in ("startup", "shutdown") for i in range(n)}

    def mk(i):
        async def app(scope, receive, send):
            while True:
                m = await receive()
                ph = m["type"].split(".")[1]
                await gates[(ph, i)].wait()
                await send({"type": f"lifespan.{ph}.complete"})
                if ph == "shutdown":
                    return
        return app

    mw = D.AsyncioDispatcherMiddleware({f"/m{i}": mk(i) for i in range(n)})
    inbox = asyncio.Queue()

    async def send(message):
        forwarded.append(message["type"])

    task = asyncio.ensure_future(mw({"type": "lifespan"}, inbox.get, send))

    async def settle():
        for _ in range(20):
            await asyncio.sleep(0)

    seen = []
    for ph, order in (("startup", order_up), ("shutdown", order_down)):
        await inbox.put({"type": f"lifespan.{ph}"})
        await settle()
        if forwarded != seen:
            problems.append(f"{ph}: forwarded {forwarded[len(seen):]} before any mount completed")
        for k, i in enumerate(order):
            gates[(ph, i)].set()
            await settle()
            want = seen + ([f"lifespan.{ph}.complete"] if k == n - 1 else [])
            if forwarded != want:
                problems.append(f"{ph}: after {k + 1} of {n} mounts completed (order {order}) the server had been sent {forwarded}, expected {want}")
                break
        seen = list(forwarded)
    try:
        await asyncio.wait_for(task, 2)
    except Exception as e:  # noqa
        problems.append(f"_handle_lifespan did not finish cleanly: {e!r}")
    return problems


def _run_trio(D, n, order_up, order_down):
    import trio

    forwarded, problems = [], []

    async def main():
        gates = {(ph, i): trio.Event() for ph in ("startup", "shutdown") for i in range(n)}

        def mk(i):
            async def app(scope, receive, send):
                while True:
                    m = await receive()
                    ph = m["type"].split(".")[1]
                    await gates[(ph, i)].wait()
                    await send({"type": f"lifespan.{ph}.complete"})
                    if ph == "shutdown":
                        return
            return app

        mw = D.TrioDispatcherMiddleware({f"/m{i}": mk(i) for i in range(n)})
        tx, rx = trio.open_memory_channel(10)

        async def send(message):
            forwarded.append(message["type"])

        async def settle():
            for _ in range(20):
                await trio.sleep(0)

        with trio.move_on_after(5) as scope:
            async with trio.open_nursery() as nursery:
                nursery.start_soon(mw, {"type": "lifespan"}, rx.receive, send)
                seen = []
                for ph, order in (("startup", order_up), ("shutdown", order_down)):
                    await tx.send({"type": f"lifespan.{ph}"})
                    await settle()
                    if forwarded != seen:
                        problems.append(f"{ph}: forwarded {forwarded[len(seen):]} before any mount completed")
                    for k, i in enumerate(order):
                        gates[(ph, i)].set()
                        await settle()
                        want = seen + ([f"lifespan.{ph}.complete"] if k == n - 1 else [])
                        if forwarded != want:
                            problems.append(f"{ph}: after {k + 1} of {n} mounts completed (order {order}) the server had been sent {forwarded}, expected {want}")
                            break
                    seen = list(forwarded)
                    if problems:
                        nursery.cancel_scope.cancel()
                        break
        if scope.cancelled_caught:
            problems.append("_handle_lifespan did not finish within 5 s")

    trio.run(main)
    return problems


def run(tier="quick", seed=0):
    D = _load()
    max_n = 4 if tier == "thorough" else 3
    cases, violations = 0, []
    for n in range(1, max_n + 1):
        perms = list(itertools.permutations(range(n)))
        for up in perms:
            for down in perms:
                for backend in ("asyncio", "trio"):
                    cases += 1
                    try:
                        if backend == "asyncio":
                            probs = asyncio.run(_run_asyncio(D, n, list(up), list(down)))
                        else:
                            probs = _run_trio(D, n, list(up), list(down))
                    except Exception as e:  # the real code raised
                        probs = [f"raised {e!r}"]
                    if probs and len(violations) < 5:
                        violations.append({"obligation": "C20.dispatch.lifespan-all-mounts", "input": f"{backend}: {n} mounts, startup order {list(up)}, shutdown order {list(down)}",
                                           "expected": "completion forwarded exactly when every mount has completed the phase", "observed": probs[0]})
    return {"tool": "native enumeration of completion orders against the real dispatcher classes on both event loops",
            "bound": f"1..{max_n} mounts, every order of startup completions x every order of shutdown completions, asyncio and trio", "cases": cases, "violations": violations}


if __name__ == "__main__":
    r = run(sys.argv[1] if len(sys.argv) > 1 else "quick")
    print(r["cases"], "cases;", len(r["violations"]), "violations")
    for v in r["violations"]:
        print(v)
