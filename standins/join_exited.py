"""BOUNDED stand-in (never counted as proved), C14 "startup.failed or exceeding startup_timeout
aborts the server with an error": with several workers the failure of one worker reaches the
supervisor (hypercorn.run.run) only as that worker's exit code, through _join_exited.  The function
(reversed index loop deleting from the list it walks, process objects of the multiprocessing
library) is outside the VC generator; the real function is run on every vector of worker states up
to the bound and compared with what the supervisor relies on:
  * the result is non-zero iff some reaped worker's exit code is non-zero (a later clean exit never
    hides an earlier failure), and it is the exit code of one of the failed workers;
  * exactly the workers that have exited are joined, once each, and removed; the running ones stay,
    in their order."""
import itertools


class _Proc:
    def __init__(self, code):
        self.exitcode = code
        self.joined = 0

    def join(self, timeout=None):
        self.joined += 1


def run(tier="quick", seed=0):
    from pyvc.source import ensure_repo_on_path

    ensure_repo_on_path()
    from hypercorn.run import _join_exited

    codes = [None, 0, 1, -15] if tier == "quick" else [None, 0, 1, 2, -15]
    max_n = 5 if tier == "quick" else 6
    violations = []
    n = 0
    for k in range(max_n + 1):
        for vec in itertools.product(codes, repeat=k):
            n += 1
            procs = [_Proc(c) for c in vec]
            before = list(procs)
            try:
                got = _join_exited(procs)
            except Exception as e:
                violations.append({"obligation": "C14.supervisor.worker-failure-reported", "input": repr(vec), "expected": "an exit code", "observed": f"raised {type(e).__name__}: {e}"})
                continue
            failed = [c for c in vec if c not in (None, 0)]
            ok = (got in failed) if failed else (got == 0)
            ok = ok and procs == [p for p in before if p.exitcode is None]
            ok = ok and all(p.joined == (0 if p.exitcode is None else 1) for p in before)
            if not ok:
                violations.append({"obligation": "C14.supervisor.worker-failure-reported", "input": "exit codes of the workers " + repr(vec),
                                   "expected": ("one of %r" % failed if failed else "0") + "; exited workers joined once and removed, running ones kept in order",
                                   "observed": "%r; left %r; joins %r" % (got, [p.exitcode for p in procs], [p.joined for p in before])})
    return {"tool": "native enumeration of hypercorn.run._join_exited over every vector of worker exit codes (None = still running)",
            "bound": "up to %d workers, exit codes from %r" % (max_n, codes), "cases": n, "violations": violations}


if __name__ == "__main__":
    import os, sys
    sys.path.insert(0, os.path.dirname(os.path.dirname(os.path.abspath(__file__))))
    r = run(sys.argv[1] if len(sys.argv) > 1 else "quick")
    print(r["cases"], "cases;", len(r["violations"]), "violations")
    for v in r["violations"][:5]:
        print(v)
