"""BOUNDED stand-in (never counted as proved): the configuration loaders Config.from_mapping /
from_object / from_pyfile / from_toml (setattr over arbitrary keys, dir(), importlib, exec of a
file, tomllib) are outside the VC generator.  C19 "a setting has the same effect whichever way it is
supplied - mapping, keyword, Python object or module, Python file, TOML file": the real loaders are
run on a bounded family of settings dictionaries, each supplied through every source, and the
resulting Config objects are compared with each other and with an independent statement of what a
settings dictionary means (class defaults overlaid with the given values; the four property-backed
settings normalised as the setter contracts of contracts/h_config.py say)."""
import importlib
import os
import random
import shutil
import sys
import tempfile
import types

# values a setting can take in this enumeration, by the type of its class default
_BY_TYPE = {
    bool: [True, False],
    int: [0, 1, 7, 65536],
    float: [0.5, 30.0],
    str: ["", "x", "a/b", "DEBUG"],
    list: [[], ["x"], ["a", "b"]],
    type(None): [None, "x", 3],
}
_PROPS = {"bind": "_bind", "insecure_bind": "_insecure_bind", "quic_bind": "_quic_bind", "root_path": "_root_path"}


def _settings(Config):
    """public, non-callable class attributes: the settings a configuration source may name"""
    out = {}
    for k, v in vars(Config).items():
        if k.startswith("_") or callable(v) or isinstance(v, (property, classmethod, staticmethod)):
            continue
        out[k] = v
    return out


def expected(Config, d):
    """what a settings dictionary means, setting by setting as read back from the resulting object
    (public names: however the class stores them)"""
    exp = {}
    for k, v in d.items():
        if k in _PROPS:
            if k == "root_path":
                exp[k] = v.rstrip("/")
            else:
                exp[k] = [v] if isinstance(v, str) else v
        elif k == "cert_reqs":
            exp["verify_mode"] = v  # write-only alias of verify_mode (the setter converts to VerifyMode)
        elif k in ("log", "ssl_enabled"):
            continue  # read-only properties: not settings
        else:
            exp[k] = v
    return exp


def observed(cfg):
    out = {k: v for k, v in vars(cfg).items() if k not in _PROPS.values()}
    for k in _PROPS:
        out[k] = getattr(cfg, k)
    return out


class QuietLogger:  # a class-valued (callable) setting: logger_class
    def __init__(self, config):
        pass


def cases(Config, tier, seed):
    st = _settings(Config)
    rng = random.Random(seed)
    out = []
    # every setting alone, with every value of its type
    for k, dflt in sorted(st.items()):
        for v in _BY_TYPE.get(type(dflt), ["x"]):
            out.append({k: v})
    for k in ("bind", "insecure_bind", "quic_bind"):
        out += [{k: "127.0.0.1:1"}, {k: ["a:1", "b:2"]}]
    out += [{"root_path": "/api/"}, {"root_path": "/"}, {"root_path": ""}, {"root_path": "/a//"}]
    out += [{"logger_class": QuietLogger}]
    # settings that cannot be read on a fresh Config: application_path is only annotated on the
    # class (no default), cert_reqs is a write-only alias of verify_mode
    out += [{"application_path": "module:app"}, {"application_path": "pkg.mod:create_app()", "workers": 2}, {"cert_reqs": 2}, {"cert_reqs": 0, "workers": 3}]
    # names that are not settings are ignored by no source differently from another
    out += [{"not_a_setting": 1}, {"_private": 2, "workers": 3}, {"__dunder__": 1, "workers": 2}]
    keys = sorted(st) + list(_PROPS)
    n = 40 if tier == "quick" else 400
    for _ in range(n):
        d = {}
        for k in rng.sample(keys, rng.randint(2, 6)):
            if k in _PROPS:
                d[k] = rng.choice(["/r/", "/r", ""]) if k == "root_path" else rng.choice(["h:1", ["h:1", "g:2"]])
            else:
                d[k] = rng.choice(_BY_TYPE.get(type(st[k]), ["x"]))
        out.append(d)
    return out


def _py_source(d):
    lines = ["import os  # an imported module is not a setting"]
    for k, v in d.items():
        if v is QuietLogger:
            lines += ["class QuietLogger:", "    def __init__(self, config):", "        pass", f"{k} = QuietLogger"]
        else:
            lines.append(f"{k} = {v!r}")
    return "\n".join(lines) + "\n"


def _toml_source(d):
    def lit(v):
        if isinstance(v, bool):
            return "true" if v else "false"
        if isinstance(v, (int, float)):
            return repr(v)
        if isinstance(v, str):
            return '"' + v.replace("\\", "\\\\").replace('"', '\\"') + '"'
        if isinstance(v, list):
            return "[" + ", ".join(lit(x) for x in v) + "]"
        raise TypeError

    return "".join(f"{k} = {lit(v)}\n" for k, v in d.items())


def _toml_ok(d):
    return all(v is not None and v is not QuietLogger and not k.startswith("_") for k, v in d.items())


def _py_ok(d):
    return all(k.isidentifier() for k in d)


def run(tier="quick", seed=0, only=None, obligation="C19.loaders"):
    from pyvc.source import ensure_repo_on_path

    ensure_repo_on_path()
    import hypercorn.__main__ as M
    from hypercorn.config import Config

    import warnings

    warnings.simplefilter("ignore")  # the deprecated cert_reqs alias warns on purpose
    tmp = tempfile.mkdtemp(prefix="hc-loaders-", dir="/var/tmp")
    sys.path.insert(0, tmp)
    violations = []
    n = 0
    try:
        for idx, d in enumerate(cases(Config, tier, seed)):
            if only is not None and not (set(d) & set(only)):
                continue
            # what the dictionary means; names that are no settings and private / dunder names are
            # compared across sources only where every source can carry them
            want = expected(Config, d)
            sources = {}
            try:
                sources["mapping"] = lambda: Config.from_mapping(dict(d))
                if all(k.isidentifier() for k in d):
                    sources["keyword"] = lambda: Config.from_mapping(**d)
                    items = list(d.items())
                    half = len(items) // 2
                    sources["mapping+keyword"] = lambda: Config.from_mapping(dict(items[:half]), **dict(items[half:]))
                    # a keyword overrides the same name in the mapping
                    sources["keyword-overrides"] = lambda: Config.from_mapping({k: object() for k in d}, **d)
                if _py_ok(d):
                    obj = types.SimpleNamespace(**d)
                    obj.os = os  # a module attribute is not a setting
                    sources["object"] = lambda: Config.from_object(obj)
                    modname = f"hc_loader_case_{idx}"
                    path = os.path.join(tmp, modname + ".py")
                    if all(v is QuietLogger or repr(v) == repr(eval(repr(v))) for v in d.values()):
                        with open(path, "w") as f:
                            f.write(_py_source(d))
                        importlib.invalidate_caches()
                        sources["module"] = lambda: Config.from_object(modname)
                        sources["pyfile"] = lambda: Config.from_pyfile(path)
                        sources["-c python:"] = lambda: M._load_config("python:" + modname)
                        sources["-c file:"] = lambda: M._load_config("file:" + path)
                        holder = os.path.join(tmp, f"hc_holder_{idx}.py")
                        with open(holder, "w") as f:
                            f.write("class settings:\n" + "".join("    " + ln + "\n" for ln in _py_source(d).splitlines()))
                        importlib.invalidate_caches()
                        sources["module.instance"] = lambda: Config.from_object(f"hc_holder_{idx}.settings")
                if _toml_ok(d):
                    tpath = os.path.join(tmp, f"case_{idx}.toml")
                    with open(tpath, "w") as f:
                        f.write(_toml_source(d))
                    sources["toml"] = lambda: Config.from_toml(tpath)
                    sources["-c toml"] = lambda: M._load_config(tpath)
            except Exception:  # pragma: no cover - a generator problem, not a finding
                raise
            base = observed(Config())
            for name, mk in sources.items():
                n += 1
                try:
                    got = observed(mk())
                except Exception as e:
                    violations.append({"obligation": obligation, "input": f"{name}: {d!r}", "expected": "a Config", "observed": f"raised {type(e).__name__}: {e}"})
                    continue
                # the settings named: exactly the given values
                def same(g, v):
                    if v is QuietLogger:  # a class defined in a file is that file's own class object
                        return isinstance(g, type) and g.__name__ == "QuietLogger"
                    return g is v or g == v

                bad = {k: (got.get(k, "<unset>"), v) for k, v in want.items() if (k in vars(Config) or k in _PROPS or k in ("application_path", "verify_mode")) and not same(got.get(k, "<unset>"), v)}
                # every other attribute: as in a default configuration (nothing else is touched)
                extra = {k: v for k, v in got.items() if k not in want and (k not in base or base[k] != v) and (k in vars(Config) or k in _PROPS or k in ("application_path", "verify_mode"))}
                if bad or extra:
                    violations.append({"obligation": obligation, "input": f"{name}: {d!r}", "expected": repr({k: v for k, v in want.items() if k in bad} or "nothing else set"),
                                       "observed": repr({k: b[0] for k, b in bad.items()} or extra)})
    finally:
        sys.path.remove(tmp)
        for m in [m for m in sys.modules if m.startswith("hc_loader_case_") or m.startswith("hc_holder_")]:
            del sys.modules[m]
        shutil.rmtree(tmp, ignore_errors=True)
    return {"tool": "native enumeration: every setting alone with every sample value of its type, property-backed settings, a class-valued setting, non-setting names, and seeded random combinations, each through mapping / keyword / mixed / object / module / module.instance / Python file / TOML file / -c python: / -c file: / -c <toml>, compared with the meaning of the dictionary",
            "bound": ("40" if tier == "quick" else "400") + " random combinations of 2..6 settings (seed %d) on top of the single-setting cases" % seed,
            "cases": n, "violations": violations}


if __name__ == "__main__":
    sys.path.insert(0, os.path.dirname(os.path.dirname(os.path.abspath(__file__))))
    r = run(sys.argv[1] if len(sys.argv) > 1 else "quick")
    print(r["cases"], "cases;", len(r["violations"]), "violations")
    for v in r["violations"][:10]:
        print(v)
