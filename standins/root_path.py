"""BOUNDED stand-in (never counted as proved), C17 "script name and path split by root_path": the
WSGI environ is split on the configuration's root_path, which _build_environ takes as normalised
(no trailing slash).  That normalisation is the Config.root_path setter's (proved under C19 while the
setter exists); here every configuration source is run natively on root_path values with and without
trailing slashes and the value read back from the resulting Config is compared with the normalised
one (the root_path cases of standins/loaders.py)."""
import importlib.util
import os

_spec = importlib.util.spec_from_file_location("standin_loaders", os.path.join(os.path.dirname(os.path.abspath(__file__)), "loaders.py"))
_loaders = importlib.util.module_from_spec(_spec)
_spec.loader.exec_module(_loaders)


def run(tier="quick", seed=0):
    out = _loaders.run(tier=tier, seed=seed, only=("root_path",), obligation="C17.root_path.normalised")
    out["tool"] = "native enumeration: root_path values with and without trailing slashes through every configuration source (standins/loaders.py restricted to root_path)"
    return out
