#!/usr/bin/env python3
"""Rewrite the two generated tables of DESIGN.md (8.4 findings, 8.5 seeded changes) in place from
findings/known_findings.json and seeded/*/meta.json."""
import os, subprocess, sys
HERE = os.path.dirname(os.path.dirname(os.path.abspath(__file__)))
py = sys.executable
p = os.path.join(HERE, "DESIGN.md")
s = open(p).read()
find = subprocess.run([py, os.path.join(HERE, "tools", "findings_table.py")], capture_output=True, text=True).stdout.strip("\n")
seed = subprocess.run([py, os.path.join(HERE, "tools", "seed_table.py")], capture_output=True, text=True).stdout.strip("\n")
a = s.index("**Fixed in `/repo`** (one `fix:` commit each")
b = s.index("One repair was attempted and withdrawn")
s = s[:a] + find + "\n\n" + s[b:]
a = s.index("| seeded change (`seeded/<dir>`) | check(s) exit 1 |")
b = s.index("`seeded/*/meta.json` holds the check output per change")
s = s[:a] + seed + "\n\n" + s[b:]
open(p, "w").write(s)
print("tables rewritten:", find.count("\n") + 1, "+", seed.count("\n") + 1, "lines")
