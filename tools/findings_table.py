#!/usr/bin/env python3
"""print the two markdown blocks of DESIGN.md 8.4 from findings/known_findings.json"""
import json, os
k = json.load(open(os.path.join(os.path.dirname(__file__), "..", "findings", "known_findings.json")))
print("**Fixed in `/repo`** (one `fix:` commit each; recorded as `fixed:`, suppressing nothing):\n")
for f in k["fixed"]:
    print("* `" + f.split(" ", 3)[2] + "` " + f.split(" ", 2)[1].replace("property=", "") + " — " + f.split(" ", 3)[3])
print("\n**Recorded, not repaired:**\n")
print("| id | property | obligation | what fails | why not repaired |")
print("|---|---|---|---|---|")
for f in k["findings"]:
    ob = f["obligation"].replace("|", "/")
    print(f"| {f['id']} | {f['property'] if isinstance(f['property'], str) else ','.join(f['property'])} | `{ob[:70]}` | {f['what'][:300]} | {f.get('why_not_fixed', '')[:300]} |")
