#!/usr/bin/env python3
"""Regenerate contracts/baseline.json: per property 70 % of the number of named obligations the
current run generated (read from evidence/).  bin/check reports a vacuity error when a run on a
tree without violations generates fewer -- contracts silently generating few obligations (a
contract file that no longer loads, units dropped from a plan) must not look like success."""
import json, os
HERE = os.path.dirname(os.path.dirname(os.path.abspath(__file__)))
out = {}
for c in json.load(open(os.path.join(HERE, "MANIFEST.json")))["checks"]:
    e = json.load(open(os.path.join(HERE, c["evidence_file"])))
    n = len(e["coverage"].get("all_obligations", {})) or e["coverage"]["obligations"]
    out[c["property_id"]] = int(0.7 * n)
json.dump(out, open(os.path.join(HERE, "contracts", "baseline.json"), "w"), indent=1, sort_keys=True)
print(out)
