#!/usr/bin/env python3
"""Regenerate MANIFEST.json from props/plan.py (claimed properties) and props/not_applicable.json."""
import importlib.util, json, os, subprocess, sys
HERE = os.path.dirname(os.path.dirname(os.path.abspath(__file__)))
spec = importlib.util.spec_from_file_location("plan", os.path.join(HERE, "props", "plan.py"))
plan = importlib.util.module_from_spec(spec); spec.loader.exec_module(plan)
PLAN = plan.PLAN
props = [json.loads(l) for l in open(os.path.join(HERE, "properties.jsonl"))]
na = json.load(open(os.path.join(HERE, "props", "not_applicable.json")))
try:
    commits = subprocess.check_output(["git", "-C", "/repo", "log", "--format=%h %s", "1972e08..HEAD"], text=True).strip().splitlines()
except Exception:
    commits = []
hook_commits = [c.split()[0] for c in commits if not c.split(" ", 1)[1].startswith("fix:")]
checks = []
for p in props:
    pid = p["id"]
    if pid in PLAN and PLAN[pid].get("claimed", True):
        P = PLAN[pid]
        checks.append({
            "property_id": pid,
            "quick_cmd": f"bin/check {pid} --tier quick",
            "thorough_cmd": f"bin/check {pid} --tier thorough",
            "evidence_file": f"evidence/{pid}.json",
            "replay_cmd_template": f"bin/check {pid} --replay {{path}}",
            "engine": "pyvc",
            "level_claimed": {"category": "proof", "text": P.get("level_text", ""), "design_ref": P.get("design_ref", f"DESIGN.md section 4 ({pid})")},
            "level_note": P.get("level_note", ""),
            "technique": P.get("technique", "contract-based deductive verification: sidecar contracts on the real functions, VCs generated from the real ASTs by pyvc (path-wise symbolic execution with callee contracts, inferred frames, rely/guarantee yield rule, inductive loop clauses), discharged by z3 with cvc5 as second back end; every obligation of every unit in the property's plan counts; thorough tier adds a sampled cvc5 cross-check of discharged obligations, a CPython cross-check of proved postconditions on real executions, and a self-test against the committed seeded changes")
                         + ("; labelled bounded stand-ins, never counted as proved: " + "; ".join(x["name"] for x in P["standins"]) if P.get("standins") else ""),
        })
m = {
    "version": 1,
    "setup_cmd": "sh setup.sh",
    "hooks": {"guard": "HYPERCORN_VERIF", "enable": "none needed: contracts are sidecar files under /verif/contracts; the verifier imports and re-parses /repo/src on every run", "baseline_off_cmd": "cd /repo && /venv/bin/python -m pytest -ra -q -p no:cacheprovider --timeout=900 --continue-on-collection-errors", "source_commits": hook_commits, "add_only": True},
    "engines": [{"name": "pyvc", "path": "pyvc/", "serves_properties": [c["property_id"] for c in checks], "kind_free_text": "self-written VC generator: single-path symbolic executor over the real ASTs of /repo/src/hypercorn (re-parsed every run) with sidecar contracts (pre/post/frame/class invariant/rely/loop invariant/ghost), yield rule for cooperative tasks, assumed contracts for h11/h2/priority/wsproto/runtime; obligations discharged by z3 5.1 (incremental, then fresh instances) and cvc5 1.0.3 (CLI) for what z3 leaves open; counter-models replayed on the real code where the unit is natively constructible, native scenarios for findings"}],
    "checks": checks,
    "not_applicable": [{"property_id": p["id"], "reason": na.get(p["id"], "check not built yet")} for p in props if p["id"] not in {c["property_id"] for c in checks}],
    "notes": "See DESIGN.md. fix: commits in /repo: " + "; ".join(c for c in commits if c.split(" ", 1)[1].startswith("fix:")),
}
json.dump(m, open(os.path.join(HERE, "MANIFEST.json"), "w"), indent=1)
print("claimed:", [c["property_id"] for c in checks])
