#!/usr/bin/env python3
"""Apply every committed semantics-preserving change (selftest/refactors/<name>/patch.diff) to a
scratch copy of /repo and run the checks listed in its meta.json: none may print VIOLATION, and the
exit code must be the recorded one (0; 2 only where the meta says a contract names a renamed local).
usage: tools/refactor_all.py [name-substring ...]"""
import json, os, subprocess, sys, tempfile, shutil, time
HERE = os.path.dirname(os.path.dirname(os.path.abspath(__file__)))
sel = sys.argv[1:]
bad = 0
root = os.path.join(HERE, "selftest", "refactors")
for name in sorted(os.listdir(root)):
    d = os.path.join(root, name)
    if not os.path.isdir(d) or (sel and not any(s in name for s in sel)):
        continue
    meta = json.load(open(os.path.join(d, "meta.json")))
    scratch = tempfile.mkdtemp(prefix="hc-refac-", dir="/var/tmp")
    try:
        for sub in ("src", "docs", "pyproject.toml"):
            s = os.path.join("/repo", sub)
            (shutil.copytree if os.path.isdir(s) else shutil.copy)(s, os.path.join(scratch, sub))
        r = subprocess.run(["patch", "-p1", "-s", "-i", os.path.join(d, "patch.diff")], cwd=scratch, capture_output=True, text=True)
        if r.returncode != 0:
            print(f"{name}: patch no longer applies (skipped)"); continue
        res = {}
        for p in meta["checks"]:
            t0 = time.time()
            c = subprocess.run([os.path.join(HERE, "bin", "check"), p], env=dict(os.environ, PYVC_REPO=scratch, PYVC_EVIDENCE_DIR=os.path.join(scratch, "_evidence")), capture_output=True, text=True, timeout=3600)
            lines = [l for l in c.stdout.splitlines() if l.startswith(("VIOLATION", "UNDECIDED", "CHECKER"))]
            res[p] = {"exit": c.returncode, "lines": lines[:4], "wall_s": round(time.time() - t0, 1)}
            ok = c.returncode == meta.get("expect_exit", 0) and not any(l.startswith("VIOLATION") for l in lines)
            if not ok:
                bad += 1
        meta["result"] = res
        json.dump(meta, open(os.path.join(d, "meta.json"), "w"), indent=1)
        print(f"{name}: " + ", ".join(f"{p}=exit {v['exit']}" for p, v in res.items()))
        for p, v in res.items():
            for l in v["lines"][:3]:
                print("      ", l[:220])
    finally:
        shutil.rmtree(scratch, ignore_errors=True)
subprocess.run(["git", "-C", HERE, "checkout", "evidence"], capture_output=True)
print("refactors:", "all quiet" if not bad else f"{bad} check(s) not as expected")
sys.exit(1 if bad else 0)
