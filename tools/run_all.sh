#!/bin/sh
# run every claimed check on the unchanged tree (quick tier), validate manifest and evidence
cd "$(dirname "$0")/.."
rc=0
for p in $(python3 -c "import json;print(' '.join(c['property_id'] for c in json.load(open('MANIFEST.json'))['checks']))"); do
  out=$(bin/check $p 2>&1); r=$?
  echo "$out" | tail -1 | cut -c1-220
  [ $r -ne 0 ] && { rc=1; echo "$out" | grep -v "^KNOWN" | head -5; }
done
python3-vt - <<'PY'
import json,jsonschema,glob
m=json.load(open('MANIFEST.json')); jsonschema.validate(m,json.load(open('/root/.vp/MANIFEST.schema.json')))
s=json.load(open('/root/.vp/EVIDENCE.schema.json'))
bad=0
for c in m['checks']:
    e=json.load(open(c['evidence_file'])); jsonschema.validate(e,s)
    cov=e['coverage']
    if cov['obligations']!=cov['discharged'] or e.get('violations'):
        print('EVIDENCE MISMATCH', c['property_id'], cov['obligations'], cov['discharged']); bad=1
print('manifest+evidence ok' if not bad else 'evidence problems')
PY
exit $rc
