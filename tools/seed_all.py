#!/usr/bin/env python3
"""Re-run the checks against every committed seeded change (scratch copy per change, removed
afterwards).  usage: tools/seed_all.py [name-substring ...]   Updates checks_with_patch in meta.json
and prints one line per change.  The full confirmation (tests, demo) is tools/seed_eval.py."""
import json, os, subprocess, sys, tempfile, shutil, time
HERE = os.path.dirname(os.path.dirname(os.path.abspath(__file__)))
PROPS = {
    "C01-body-dropped-after-response-start": ["C01"], "C02-negative-window-clamp": ["C02", "C09"], "C03-close-stream-after-recycle": ["C03", "C06"],
    "C04-ack-skipped": ["C04", "C09"], "C05-state-before-validation": ["C05"], "C06-count-at-end-of-message": ["C06", "C18"],
    "C07-idle-not-reported-with-trailing-data": ["C07"], "C08-conn-credit-ignored": ["C08"], "C09-conn-window-update-ignored": ["C09"],
    "C10-limit-check-before-write": ["C10"], "C11-subprotocol-not-offered": ["C11"], "C12-state-before-send": ["C12"],
    "C13-upgrade-token-not-stripped": ["C13"], "C14-lifespan-failure-in-mixed-group": ["C14"], "C15-recycle-after-terminated": ["C15", "C06"],
    "C16-trio-eof-chunk-not-fed": ["C16"], "C17-call-soon-fire-and-forget": ["C17"], "C18-settings-pending-until-ack": ["C18"],
    "C19-jitter-default-zero": ["C19"], "C20-trusted-hop-early-exit": ["C20"],
    "C07-singletask-stop-skips-lock": ["C07", "C16"], "C14-nested-group-failure-not-seen": ["C14"], "C15-h2-goaway-kills-inflight": ["C15", "C18", "C04"],
    "C16-asyncio-unbounded-app-queue": ["C16", "C08"], "C17-groupby-drops-nonadjacent-headers": ["C17"], "C02-conn-window-update-stream0-ignored": ["C02", "C09", "C08"],
    "C08-block-after-flush-stale": ["C08", "C09"], "C10-reject-before-buffering": ["C10"],
    "C01-h2-endbody-only-on-flagged-events": ["C01"], "C03-asyncio-write-failure-not-reported": ["C03", "C16"], "C04-unblock-without-buffer-check": ["C04", "C09"],
    "C05-h2-close-stream-completes-buffer": ["C05"], "C06-recycle-before-close-stream": ["C06", "C03"], "C09-priority-placeholder-left-active": ["C09", "C04"],
    "C11-ws-close-state-after-send": ["C11"], "C12-streambuffer-push-guard-uses-property": ["C12", "C08", "C02"], "C13-h2-prior-knowledge-replays-read-only": ["C13"],
    "C18-rst-decrements-request-count": ["C18"], "C19-config-prefix-lstrip": ["C19"], "C20-redirect-host-cached-on-instance": ["C20"],
    "C02-h11-close-strips-app-connection-header": ["C02"], "C03-h2-closed-guard-skips-late-streams": ["C03"], "C04-h11-upgrade-scan-ascii-decode": ["C04"],
    "C06-asyncio-close-skipped-when-eof-fails": ["C06", "C07", "C16"], "C07-h2-busy-only-for-first-stream": ["C07"], "C08-asyncio-write-without-drain-when-locked": ["C08", "C16"],
    "C10-pings-coalesced-to-last": ["C10"], "C13-ws-passthrough-drops-trailing-data": ["C13"], "C14-trio-state-not-copied-per-connection": ["C14", "C16"],
    "C15-no-idle-timer-after-shutdown": ["C15", "C07"], "C16-asyncio-read-loop-at-eof": ["C16"], "C20-dispatcher-tables-aliased": ["C20"],
    "C01-server-name-lookup-ignores-raw-case": ["C01"], "C02-streambuffer-pop-fast-path-skips-wakeup": ["C02", "C08"], "C05-h2-zero-window-skips-end-check": ["C05", "C09"],
    "C09-send-data-negative-window-unclamped": ["C09"], "C11-h11-upgrade-any-method": ["C11", "C13"], "C12-ws-denial-headers-validated-at-start-only": ["C12"],
    "C14-trio-shutdown-sent-at-trigger": ["C14"], "C17-first-chunk-peek-outside-finally": ["C17"], "C18-ws-upgrade-not-counted": ["C18"], "C19-bracketed-ipv6-special-case-removed": ["C19"],
    "C03-access-record-skipped-in-trailers-state": ["C03"], "C04-priority-update-membership-test": ["C04"], "C06-close-not-announced-when-app-sets-connection": ["C06", "C18"],
    "C07-h2-no-idle-report-after-goaway": ["C07"], "C08-reset-stream-blocked-instead-of-woken": ["C08"], "C10-shared-permessage-deflate-object": ["C10"],
    "C13-tls-without-alpn-defaults-to-first-offer": ["C13", "C16"], "C15-mark-request-also-sets-terminated": ["C15"], "C16-asyncio-restart-keeps-pending-timer": ["C16", "C07"],
    "C20-proxyfix-lazy-copy-misses-scheme": ["C20"],
    "C01-ipv6-address-tuple-passed-raw": ["C01"], "C02-response-headers-cached-and-extended-in-place": ["C02", "C19"], "C05-h11-close-deferred-while-client-uploads": ["C05", "C06"],
    "C09-reset-frees-buffer-under-send-task": ["C09", "C04"], "C11-denial-body-only-with-head": ["C11"], "C12-ws-text-check-weakened-to-none": ["C12"],
    "C14-lifespan-send-any-outcome-sets-event": ["C14"], "C17-body-limit-checked-per-chunk": ["C17"], "C18-h11-request-counted-at-close": ["C18"], "C19-quic-addresses-shared-list": ["C19"],
    "C03-trio-closed-stream-write-raises-into-app": ["C03"], "C04-close-stream-pop-without-guard": ["C04"], "C06-malformed-body-mid-response-not-closed": ["C06", "C04"],
    "C07-no-stream-closed-after-partial-response": ["C07", "C05"], "C08-pop-zero-window-early-return": ["C08"], "C10-empty-binary-send-falls-to-text": ["C10"],
    "C13-h2c-chunked-body-not-a-body": ["C13"], "C15-terminated-read-once-per-batch": ["C15"], "C16-trio-idle-waits-on-terminate": ["C16", "C07"], "C20-dispatcher-exact-hit-fast-path": ["C20"],
}
claimed = {c["property_id"] for c in json.load(open(os.path.join(HERE, "MANIFEST.json")))["checks"]}
sel = sys.argv[1:]
for name in sorted(os.listdir(os.path.join(HERE, "seeded"))):
    d = os.path.join(HERE, "seeded", name)
    if not os.path.isdir(d) or (sel and not any(s in name for s in sel)):
        continue
    props = [p for p in PROPS.get(name, [name[:3]]) if p in claimed]
    if os.environ.get("SEED_ALL_OWN"):
        props = [name[:3]] if name[:3] in claimed else props[:1]  # only the check of the property the change was written against
    if not props:
        print(f"{name}: property not claimed yet"); continue
    scratch = tempfile.mkdtemp(prefix="hc-seed-", dir="/var/tmp")
    try:
        for sub in ("src", "docs", "pyproject.toml"):
            s = os.path.join("/repo", sub)
            (shutil.copytree if os.path.isdir(s) else shutil.copy)(s, os.path.join(scratch, sub))
        r = subprocess.run(["patch", "-p1", "-s", "-i", os.path.join(d, "patch.diff")], cwd=scratch, capture_output=True, text=True)
        assert r.returncode == 0, r.stdout + r.stderr
        out = {}
        for p in props:
            t0 = time.time()
            c = subprocess.run([os.path.join(HERE, "bin", "check"), p], env=dict(os.environ, PYVC_REPO=scratch, PYVC_EVIDENCE_DIR=os.path.join(scratch, "_evidence")), capture_output=True, text=True, timeout=1800)
            lines = [l for l in c.stdout.splitlines() if l.startswith(("VIOLATION", "UNDECIDED", "CHECKER"))]
            out[p] = {"exit": c.returncode, "lines": lines[:6], "summary": (c.stdout.strip().splitlines() or [""])[-1], "wall_s": round(time.time() - t0, 1)}
        mp = os.path.join(d, "meta.json")
        meta = json.load(open(mp)) if os.path.exists(mp) else {}
        meta["checks_with_patch"] = out
        meta["caught"] = any(v["exit"] == 1 for v in out.values())
        json.dump(meta, open(mp, "w"), indent=1)
        print(f"{name}: " + ", ".join(f"{p}=exit {v['exit']}" for p, v in out.items()) + ("" if meta["caught"] else "   <<<<< NOT CAUGHT"))
        for p, v in out.items():
            for l in v["lines"][:2]:
                print("      ", l[:200])
    finally:
        shutil.rmtree(scratch, ignore_errors=True)
subprocess.run(["git", "-C", HERE, "checkout", "evidence"], capture_output=True)
