#!/bin/sh
# usage: tools/seed_collect.sh <worktree> <seeded-dir-name> <property>...
# copy a sub-agent's deliverables into seeded/<name>/ and run the full confirmation
set -e
cd "$(dirname "$0")/.."
wt=$1; name=$2; shift 2
mkdir -p seeded/$name
cp $wt/_out/patch.diff $wt/_out/demo.py seeded/$name/
[ -f $wt/_out/notes.txt ] && cp $wt/_out/notes.txt seeded/$name/
.venv/bin/python tools/seed_eval.py seeded/$name "$@"
