#!/usr/bin/env python3
"""Confirm a seeded change and run the checks against it.
usage: tools/seed_eval.py seeded/<dir> <property> [more properties...]
 1. scratch worktree of /repo HEAD (outside /repo and /verif), patch applied
 2. repository test suite with the patch (must equal the baseline: only the 2 known failures)
 3. demo.py fails with the patch (exit 1) and passes without it (exit 0)
 4. bin/check <property> with PYVC_REPO=<scratch>: must exit 1 with a VIOLATION line
Writes/updates <dir>/meta.json.  The scratch worktree is removed afterwards."""
import json, os, subprocess, sys, tempfile, time
HERE = os.path.dirname(os.path.dirname(os.path.abspath(__file__)))
d = os.path.abspath(sys.argv[1]); props = sys.argv[2:]
scratch = tempfile.mkdtemp(prefix="hc-seed-", dir="/var/tmp")
os.rmdir(scratch)
def run(cmd, **kw):
    return subprocess.run(cmd, shell=True, capture_output=True, text=True, **kw)
meta_path = os.path.join(d, "meta.json")
meta = json.load(open(meta_path)) if os.path.exists(meta_path) else {}
try:
    assert run(f"git -C /repo worktree add -q --detach {scratch} HEAD").returncode == 0
    r = run(f"git -C {scratch} apply {d}/patch.diff"); assert r.returncode == 0, r.stderr
    env = dict(os.environ, PYTHONPATH=f"{scratch}/src")
    t = run(f"cd {scratch} && /venv/bin/python -m pytest -q -p no:cacheprovider --timeout=900 tests 2>&1 | tail -4", env=env)
    meta["tests_with_patch"] = t.stdout.strip().splitlines()[-1] if t.stdout.strip() else t.stderr[-200:]
    demo = os.path.join(d, "demo.py")
    a = run(f"/venv/bin/python {demo}", env=dict(os.environ, HC_SRC=f"{scratch}/src"), timeout=120)
    b = run(f"/venv/bin/python {demo}", env=dict(os.environ, HC_SRC="/repo/src"), timeout=120)
    meta["demo_with_patch_exit"] = a.returncode
    meta["demo_with_patch_output"] = (a.stdout + a.stderr).strip()[-300:]
    meta["demo_without_patch_exit"] = b.returncode
    checks = {}
    for p in props:
        t0 = time.time()
        c = run(f"{HERE}/bin/check {p}", env=dict(os.environ, PYVC_REPO=scratch, PYVC_EVIDENCE_DIR=os.path.join(scratch, "_evidence")), timeout=900)
        lines = [l for l in c.stdout.splitlines() if l.startswith("VIOLATION") or l.startswith("UNDECIDED") or l.startswith("CHECKER")]
        checks[p] = {"exit": c.returncode, "lines": lines[:6], "summary": c.stdout.strip().splitlines()[-1] if c.stdout.strip() else "", "wall_s": round(time.time() - t0, 1)}
    meta["checks_with_patch"] = checks
    meta["caught"] = any(v["exit"] == 1 for v in checks.values())
    meta["ran"] = f"tools/seed_eval.py {os.path.relpath(d, HERE)} {' '.join(props)}"
finally:
    run(f"git -C /repo worktree remove --force {scratch}")
    run(f"rm -rf {scratch}")
json.dump(meta, open(meta_path, "w"), indent=1)
print(json.dumps({k: meta[k] for k in ("tests_with_patch", "demo_with_patch_exit", "demo_without_patch_exit", "caught")}, indent=1))
for p, v in meta["checks_with_patch"].items():
    print(p, v["exit"], v["lines"][:3])
# restore evidence files written by the mutant run
