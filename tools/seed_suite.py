#!/usr/bin/env python3
"""Re-run the repository test suite alone for seeded changes whose recorded result is not the
baseline (a timing test of the suite fails now and then when all cores are busy).
usage: tools/seed_suite.py [name-substring ...]"""
import json, os, subprocess, sys, tempfile
HERE = os.path.dirname(os.path.dirname(os.path.abspath(__file__)))
sel = sys.argv[1:]
for name in sorted(os.listdir(os.path.join(HERE, "seeded"))):
    d = os.path.join(HERE, "seeded", name)
    mp = os.path.join(d, "meta.json")
    if not os.path.exists(mp) or (sel and not any(s in name for s in sel)):
        continue
    m = json.load(open(mp))
    if m.get("tests_with_patch", "").startswith("2 failed, 193 passed"):
        continue
    scratch = tempfile.mkdtemp(prefix="hc-suite-", dir="/var/tmp"); os.rmdir(scratch)
    try:
        subprocess.run(f"git -C /repo worktree add -q --detach {scratch} HEAD", shell=True, check=True)
        subprocess.run(f"git -C {scratch} apply {d}/patch.diff", shell=True, check=True)
        t = subprocess.run(f"cd {scratch} && /venv/bin/python -m pytest -q -p no:cacheprovider --timeout=900 tests 2>&1 | tail -4", shell=True, capture_output=True, text=True,
                           env=dict(os.environ, PYTHONPATH=f"{scratch}/src"))
        lines = t.stdout.strip().splitlines()
        last = lines[-1] if lines else ""
        failed = [l for l in lines if l.startswith("FAILED")]
        print(name, "|", last, "|", [f.split("::")[-1][:40] for f in failed])
        if last.startswith("2 failed, 193 passed"):
            m["tests_with_patch_first_run_under_load"] = m["tests_with_patch"]
            m["tests_with_patch"] = last + " (suite re-run alone; the first run, made while other jobs used all cores, had one extra timing failure)"
            json.dump(m, open(mp, "w"), indent=1)
    finally:
        subprocess.run(f"git -C /repo worktree remove --force {scratch}", shell=True)
