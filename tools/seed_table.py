#!/usr/bin/env python3
"""print the markdown table of seeded changes and the obligations that caught them (from meta.json)"""
import json, os, re
HERE = os.path.dirname(os.path.dirname(os.path.abspath(__file__)))
print("| seeded change (`seeded/<dir>`) | check(s) exit 1 | failed obligation(s) | replay |")
print("|---|---|---|---|")
for name in sorted(os.listdir(os.path.join(HERE, "seeded"))):
    mp = os.path.join(HERE, "seeded", name, "meta.json")
    if not os.path.exists(mp):
        continue
    m = json.load(open(mp))
    ch = m.get("checks_with_patch", {})
    caught = [p for p, v in ch.items() if v.get("exit") == 1]
    obs, native = [], False
    for p, v in ch.items():
        for l in v.get("lines", []):
            mm = re.search(r"replays/[^/]+/(.*?)\.json( no-failing-input-found)?$", l.strip())
            if mm:
                if mm.group(1) not in obs:
                    obs.append(mm.group(1))
                native = native or not mm.group(2)
    print(f"| {name} | {', '.join(caught) or '-'} | {'; '.join('`'+o+'`' for o in obs[:3])} | {'native failing input' if native else 'no-failing-input-found'} |")
