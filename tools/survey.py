#!/usr/bin/env python3
"""debug helper: run every unit of every property plan once and print failing obligations per unit"""
import sys, os, re, collections, time
HERE = os.path.dirname(os.path.dirname(os.path.abspath(__file__)))
sys.path.insert(0, HERE)
from pyvc.source import ensure_repo_on_path
ensure_repo_on_path()
from pyvc.contracts import load_contracts
load_contracts(os.path.join(HERE, 'contracts'))
import importlib.util
spec = importlib.util.spec_from_file_location("plan", os.path.join(HERE, "props", "plan.py"))
plan = importlib.util.module_from_spec(spec); spec.loader.exec_module(plan)
units = []
for p, d in plan.PLAN.items():
    for u in d["units"]:
        if u not in units:
            units.append(u)
units += [a for a in sys.argv[1:] if a not in units]
from pyvc.parallel import run_units
t0 = time.time()
res = run_units(units, 16)
for q in units:
    r = res[q]
    names = collections.OrderedDict()
    for o in r.obligations:
        d = names.setdefault(o.name, {'n': 0, 'bad': collections.OrderedDict()})
        d['n'] += 1
        if o.status != 'unsat':
            d['bad'].setdefault((o.status, re.sub(r'\{.*', '', o.note)[:100], o.where.split(':', 1)[-1]), ' '.join(o.path)[-150:])
    nbad = sum(1 for d in names.values() if d['bad'])
    noc = [k for k, v in r.covers.items() if k.endswith('.continues') and not v]
    flag = "OK " if not (nbad or r.undecided or r.errors or noc) else "BAD"
    print(f"{flag} {q}: paths={r.paths} cut={r.cut_paths} obl={len(names)} failing={nbad} solver={r.solver_ms/1000:.1f}s")
    for u in r.undecided[:3]: print("      UNDECIDED", u[:260])
    for e in r.errors[:2]: print("      ERROR", e[:260].replace("\n", " "))
    for k in noc: print("      NOCONTINUE", k)
    for n, d in names.items():
        if d['bad']:
            for (st, note, where), path in list(d['bad'].items())[:3]:
                print(f"      FAIL {n}: {st} {note} @ {where} [{path}]")
print(f"total wall {time.time()-t0:.0f}s")
