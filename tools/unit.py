#!/usr/bin/env python3
"""debug helper: verify units and print a compact summary.  usage: tools/unit.py <qualname>..."""
import sys, os, re, collections
HERE = os.path.dirname(os.path.dirname(os.path.abspath(__file__)))
sys.path.insert(0, HERE)
from pyvc.source import ensure_repo_on_path
ensure_repo_on_path()
from pyvc.contracts import load_contracts
from pyvc.verify import verify_unit
load_contracts(os.path.join(HERE, 'contracts'))
verbose = '-v' in sys.argv
from pyvc.parallel import run_units
import time
for q in [a for a in sys.argv[1:] if not a.startswith('-')]:
    t0 = time.time()
    r = run_units([q], 16)[q]
    r.wall_s = time.time() - t0
    names = collections.OrderedDict()
    for o in r.obligations:
        d = names.setdefault(o.name, {'n': 0, 'bad': collections.OrderedDict()})
        d['n'] += 1
        if o.status != 'unsat':
            key = (o.status, re.sub(r'\{.*', '', o.note), o.where)
            d['bad'].setdefault(key, ' '.join(o.path))
    nbad = sum(1 for d in names.values() if d['bad'])
    print(f"== {q}: paths={r.paths} cut={r.cut_paths} obligations={len(names)} failing={nbad} solver={r.solver_ms/1000:.2f}s wall={r.wall_s:.2f}s")
    for u in r.undecided[:6]: print("   UNDECIDED", u[:300])
    for k_, v_ in sorted(r.covers.items()):
        if k_.endswith(".continues") and not v_: print("   NOCONTINUE", k_)
    for e in r.errors[:1]: print("   ERROR", e[:300], "...", e[-900:])
    for n, d in names.items():
        if d['bad']:
            print(f"   FAIL {n} ({len(d['bad'])} distinct)")
            for (st, note, where), path in list(d['bad'].items())[:(50 if verbose else 4)]:
                print(f"        {st} {note} @ {where.split(':',1)[-1]}  [{path[-160:]}]")
        elif verbose:
            print(f"   ok   {n} [{d['n']}]")
