#!/bin/sh
# usage: tools/with_mutant.sh <patch.diff|sed-script.sed> <command...>
# runs <command> with PYVC_REPO pointing at a scratch copy of /repo with the change applied; removes the copy.
set -e
P="$(realpath "$1")"; shift
D=$(mktemp -d /var/tmp/hc-mut-XXXXXX)
trap 'rm -rf "$D"' EXIT
mkdir -p "$D/repo"
cp -r /repo/src /repo/tests /repo/docs /repo/pyproject.toml "$D/repo/" 2>/dev/null || cp -r /repo/src /repo/docs "$D/repo/"
case "$P" in
  *.sed) F=$(head -1 "$P" | sed 's/^# *//'); sed -i -f "$P" "$D/repo/$F" ;;
  *) (cd "$D/repo" && patch -p1 -s < "$P") ;;
esac
PYVC_REPO="$D/repo" PYVC_EVIDENCE_DIR="$D/evidence" "$@"
